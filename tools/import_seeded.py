#!/usr/bin/env python3
"""tools/import_seeded.py <seed-out-dir>... : copy confirmed seeded changes (confirm.json all true) from a sub-agent's
output directory <out>/m<k>/ to /verif/seeded/<prop>-m<k>/ (patch.diff, demo.diff, demo_cmd.txt, meta.json with the
confirmation record merged in). Unconfirmed ones are listed and skipped."""
import json, os, shutil, sys
# an optional first argument --tag=<t> names the kept directories <prop>-<t><k> (a second wave must not clobber the first)
tag = ''
args = sys.argv[1:]
if args and args[0].startswith('--tag='):
    tag = args[0][6:]
    args = args[1:]
for out in args:
    out = out.rstrip('/')
    prop = os.path.basename(out)
    for k in sorted(os.listdir(out)):
        d = os.path.join(out, k)
        if not (k.startswith('m') and os.path.isfile(os.path.join(d, 'patch.diff'))):
            continue
        cpath = os.path.join(d, 'confirm.json')
        if not os.path.isfile(cpath):
            print(f'{prop}-{k}: not confirmed yet'); continue
        c = json.load(open(cpath))
        ok = c.get('applies') and c.get('builds') and c.get('tests_pass') and c.get('demo_passes_without') is True and c.get('demo_fails_with') is True
        if not ok:
            print(f'{prop}-{k}: NOT kept: {c}'); continue
        dst = f'/verif/seeded/{prop}-{tag}{k}'
        os.makedirs(dst, exist_ok=True)
        for f in ('patch.diff', 'demo.diff', 'demo_cmd.txt'):
            shutil.copy(os.path.join(d, f), os.path.join(dst, f))
        try:
            meta = json.load(open(os.path.join(d, 'meta.json')))
        except Exception as e:
            meta = {'property': prop, 'title': f'(meta.json of the sub-agent did not parse: {e})'}
        meta['property'] = prop
        meta['confirmed'] = {
            'how': 'tools/confirm_seeded.sh in a scratch worktree of /repo HEAD (outside /repo and /verif): demo.diff alone -> demonstration passes; patch.diff -> workspace builds and the whole unedited suite passes with the verification cfg off; patch.diff + demo.diff -> demonstration fails',
            **c}
        json.dump(meta, open(os.path.join(dst, 'meta.json'), 'w'), indent=1, ensure_ascii=False)
        print(f'{prop}-{tag}{k}: kept -> {dst}')
