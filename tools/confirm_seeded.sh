#!/bin/bash
# tools/confirm_seeded.sh <out-dir> [<out-dir>...]
# For every <out-dir>/m*/patch.diff (produced by a seeding sub-agent): apply it in a scratch worktree of /repo's HEAD
# (outside /repo and /verif), build and run the repository's whole test suite with the verification cfg OFF, and write
# <out-dir>/m*/confirm.json {applies, builds, tests_pass, failed_tests}. The scratch worktree is /tmp/seed-confirm
# (created on demand, target dir kept between patches for incremental builds; remove it with `tools/confirm_seeded.sh --clean`).
set -u
W=/tmp/seed-confirm
if [ "${1:-}" = "--clean" ]; then git -C /repo worktree remove --force $W 2>/dev/null; rm -rf $W; exit 0; fi
[ -d $W ] || git -C /repo worktree add -q --detach $W HEAD || exit 2
git -C $W checkout -q --detach "$(git -C /repo rev-parse HEAD)" || exit 2
for out in "$@"; do
  for d in "$out"/m*/; do
    [ -f "$d/patch.diff" ] || continue
    git -C $W checkout -q -- . && git -C $W clean -qfd -e target
    applies=false; builds=false; pass=false; failed=""
    if git -C $W apply --check "$d/patch.diff" 2>/dev/null; then
      applies=true; git -C $W apply "$d/patch.diff"
      if (cd $W && CARGO_NET_OFFLINE=true cargo test --workspace --no-run --offline >"$d/confirm-build.log" 2>&1); then
        builds=true
        (cd $W && CARGO_NET_OFFLINE=true cargo test --workspace --no-fail-fast --offline >"$d/confirm-test.log" 2>&1)
        rc=$?
        failed=$(grep -E "^test .* FAILED$|^    [a-z_:]+$" "$d/confirm-test.log" | grep FAILED | awk '{print $2}' | sort -u | tr '\n' ' ')
        [ $rc -eq 0 ] && pass=true
      fi
    fi
    printf '{"applies": %s, "builds": %s, "tests_pass": %s, "failed_tests": "%s", "repo_head": "%s"}\n' $applies $builds $pass "$failed" "$(git -C /repo rev-parse --short HEAD)" > "$d/confirm.json"
    echo "$d $(cat "$d/confirm.json")"
  done
done
git -C $W checkout -q -- . && git -C $W clean -qfd -e target
