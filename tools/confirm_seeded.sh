#!/bin/bash
# tools/confirm_seeded.sh <out-dir> [<out-dir>...]
# For every <out-dir>/m*/patch.diff (produced by a seeding sub-agent): in a scratch worktree of /repo's HEAD
# (outside /repo and /verif) confirm independently of the sub-agent that
#   1. demo.diff alone applies and the demonstration (demo_cmd.txt) PASSES on the unchanged tree,
#   2. patch.diff applies, the workspace builds and the repository's whole test suite passes with the
#      verification cfg OFF (the demonstration is not part of that run),
#   3. with patch.diff + demo.diff the demonstration FAILS.
# Writes <out-dir>/m*/confirm.json {applies, builds, tests_pass, failed_tests, demo_passes_without, demo_fails_with, repo_head}.
# The scratch worktree is /tmp/seed-confirm (created on demand, target dir kept between patches for incremental
# builds; remove it with `tools/confirm_seeded.sh --clean`).
set -u
W=/tmp/seed-confirm
if [ "${1:-}" = "--clean" ]; then git -C /repo worktree remove --force $W 2>/dev/null; rm -rf $W; exit 0; fi
[ -d $W ] || git -C /repo worktree add -q --detach $W HEAD || exit 2
git -C $W checkout -q -- . ; git -C $W clean -qfd -e target
git -C $W checkout -q --detach "$(git -C /repo rev-parse HEAD)" || exit 2
export CARGO_NET_OFFLINE=true
clean() { git -C $W checkout -q -- . && git -C $W clean -qfd -e target; }
for out in "$@"; do
  for d in "$out"/m*/; do
    d=${d%/}
    [ -f "$d/patch.diff" ] || continue
    clean
    applies=false; builds=false; pass=false; failed=""; demo_without=null; demo_with=null
    cmd=""; [ -f "$d/demo_cmd.txt" ] && cmd=$(grep -v '^\s*$' "$d/demo_cmd.txt" | head -1)
    # 1. demonstration on the unchanged tree
    if [ -n "$cmd" ] && [ -f "$d/demo.diff" ] && git -C $W apply --check "$d/demo.diff" 2>/dev/null; then
      git -C $W apply "$d/demo.diff"
      if (cd $W && timeout 1800 bash -c "$cmd" >"$d/confirm-demo-without.log" 2>&1); then demo_without=true; else demo_without=false; fi
      clean
    fi
    # 2. whole suite with the change
    if git -C $W apply --check "$d/patch.diff" 2>/dev/null; then
      applies=true; git -C $W apply "$d/patch.diff"
      if (cd $W && cargo test --workspace --no-run --offline >"$d/confirm-build.log" 2>&1); then
        builds=true
        (cd $W && cargo test --workspace --no-fail-fast --offline >"$d/confirm-test.log" 2>&1)
        rc=$?
        failed=$(grep -E "^test .* FAILED$" "$d/confirm-test.log" | awk '{print $2}' | sort -u | tr '\n' ' ')
        [ $rc -eq 0 ] && pass=true
      fi
      # 3. demonstration with the change
      if [ -n "$cmd" ] && [ -f "$d/demo.diff" ] && git -C $W apply --check "$d/demo.diff" 2>/dev/null; then
        git -C $W apply "$d/demo.diff"
        if (cd $W && timeout 1800 bash -c "$cmd" >"$d/confirm-demo-with.log" 2>&1); then demo_with=false; else
          # a failure must be a test failure, not a build error
          if grep -qE "^error(\[|:)|could not compile" "$d/confirm-demo-with.log" && ! grep -q "test result: FAILED" "$d/confirm-demo-with.log"; then demo_with=null; else demo_with=true; fi
        fi
      fi
    fi
    printf '{"applies": %s, "builds": %s, "tests_pass": %s, "failed_tests": "%s", "demo_passes_without": %s, "demo_fails_with": %s, "repo_head": "%s"}\n' $applies $builds $pass "$failed" $demo_without $demo_with "$(git -C /repo rev-parse --short HEAD)" > "$d/confirm.json"
    echo "$d $(cat "$d/confirm.json")"
  done
done
clean
