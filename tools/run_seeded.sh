#!/bin/bash
# tools/run_seeded.sh <seeded-dir> [extra property ids...]
# Applies /verif/seeded/<name>/patch.diff to /repo's working tree (never committed), runs the quick check of the
# property named in meta.json (and of any extra ids given), records the outcome in <seeded-dir>/result.json and
# restores /repo with `git checkout -- .`. /repo must be clean and nothing else may be building from it meanwhile.
set -u
D=$(realpath "${1%/}"); shift
[ -f "$D/patch.diff" ] || { echo "no patch in $D"; exit 2; }
[ -z "$(git -C /repo status --porcelain)" ] || { echo "/repo is not clean"; exit 2; }
PROP=$(python3 -c "import json,sys; print(json.load(open('$D/meta.json'))['property'])")
git -C /repo apply "$D/patch.diff" || { echo "patch does not apply"; exit 2; }
trap 'git -C /repo checkout -- . ; git -C /repo clean -qfd' EXIT
cd /verif
RES="["
for P in $PROP "$@"; do
  T0=$(date +%s)
  OUT=$(VERIF_EVIDENCE_DIR=/var/tmp/seeded-evidence VERIF_REPLAY_DIR=/var/tmp/seeded-replays ./check $P --tier quick 2>&1); RC=$?
  T1=$(date +%s)
  SIGS=$(printf '%s\n' "$OUT" | grep -E "^  signature=" | sed -E 's/^  signature=([^ ]+).*/\1/' | sort -u | tr '\n' ' ')
  NV=$(printf '%s\n' "$OUT" | grep -c "^VIOLATION")
  printf '%s\n' "$OUT" | grep -E "^VIOLATION|signature=|verdict|error" | cut -c1-240 | head -8
  RES="$RES{\"check\":\"$P\",\"exit\":$RC,\"violation_lines\":$NV,\"signatures\":\"$SIGS\",\"seconds\":$((T1-T0))},"
done
RES="${RES%,}]"
python3 - "$D" "$RES" <<'PY'
import json,sys
d,res=sys.argv[1],json.loads(sys.argv[2])
json.dump({"runs":res,"detected":any(r["exit"]==1 and r["violation_lines"]>0 for r in res)},open(d+"/result.json","w"),indent=1)
PY
