#!/bin/bash
# tools/run_all_seeded.sh : run every kept seeded change against the quick check of its property (plus, for a few, the
# checks of neighbouring properties that cover the same code) and refresh seeded/*/result.json. /repo must be clean and
# nothing else may build from it meanwhile.
cd /verif
for d in seeded/*/; do
  d=${d%/}
  extra=""
  case $(basename $d) in
    C02-m1) extra="C09 C01";;
  esac
  echo "== $d"
  tools/run_seeded.sh $d $extra 2>&1 | grep -v "^KNOWN" | grep -E "signature=|verdict" | cut -c1-200 | head -6
done
