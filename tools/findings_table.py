#!/usr/bin/env python3
"""Rewrite the findings table of DESIGN.md (between the FINDINGS-TABLE markers) from known_findings.json."""
import json, re
k = json.load(open('/verif/known_findings.json'))
rows = ["| Property | Signature | Status | What fails (short) |", "|---|---|---|---|"]
for f in sorted(k, key=lambda f: (f['property'], f['status'], f['signature'])):
    st = f['status'] + (f" `{f['commit']}`" if f.get('commit') else "")
    line = f.get('line', f['what_fails'])
    line = re.sub(r'^KNOWN-FINDING: property=\S+ ', '', line) if f['status'] == 'known' else re.sub(r'^fixed: property=\S+ \S+ ', '', line)
    rows.append(f"| {f['property']} | `{f['signature']}` | {st} | {line.replace('|', '/')[:220]} |")
p = '/verif/DESIGN.md'; s = open(p).read()
a, b = s.index('<!-- FINDINGS-TABLE-BEGIN -->'), s.index('<!-- FINDINGS-TABLE-END -->')
s = s[:a] + '<!-- FINDINGS-TABLE-BEGIN -->\n' + "\n".join(rows) + '\n' + s[b:]
open(p, 'w').write(s)
print(len(rows) - 2, "findings")
