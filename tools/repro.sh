#!/bin/sh
# tools/repro.sh <repo-commit> <property> <run-seed> <name>
# Reverts <repo-commit> in /repo's working tree (not committed), runs exactly <run-seed> of <property>,
# copies the replay files it produces to /verif/findings/<name>-*, and restores /repo.
set -u
SHA=$1; PROP=$2; SEED=$3; NAME=$4
git -C /repo revert --no-commit "$SHA" >/dev/null || exit 2
cd /verif
cargo build --release --offline -q -p verif 2>/dev/null
find /verif/replays -name '*.json' -delete
VERIF_EVIDENCE_DIR=/var/tmp/repro-evidence VERIF_ONLY_SEED=$SEED /verif/target/release/verif "$PROP" 2>&1 | grep -E "VIOLATION|signature" | cut -c1-300
for f in /verif/replays/*.json; do [ -f "$f" ] && cp "$f" "/verif/findings/$NAME-$(basename "$f")"; done
find /verif/replays -name '*.json' -delete
git -C /repo revert --abort 2>/dev/null
git -C /repo checkout -- .
git -C /repo status --short
cargo build --release --offline -q -p verif 2>/dev/null
