#!/usr/bin/env python3
"""Rewrite the seeded-changes table of DESIGN.md (between the SEEDED-TABLE markers) from seeded/*/meta.json,
seeded/*/result.json and seeded/NOTES.json."""
import json, os, glob
notes = json.load(open('/verif/seeded/NOTES.json'))
rows = ["| Id | Change (file) | Needs | Quick check(s) run: detected by | First run / what was strengthened |", "|---|---|---|---|---|"]
n = det = 0
for d in sorted(glob.glob('/verif/seeded/*/')):
    i = os.path.basename(d.rstrip('/'))
    if not os.path.isfile(d + 'meta.json'):
        continue
    m = json.load(open(d + 'meta.json'))
    r = json.load(open(d + 'result.json')) if os.path.isfile(d + 'result.json') else {"runs": [], "detected": None}
    n += 1
    caught = [f"{x['check']} `{x['signatures'].split()[0] if x['signatures'].split() else 'violation'}`" for x in r['runs'] if x['exit'] == 1 and x['violation_lines'] > 0]
    missed = [x['check'] for x in r['runs'] if not (x['exit'] == 1 and x['violation_lines'] > 0)]
    if caught:
        det += 1
    cell = ("; ".join(caught) if caught else "**not detected**") + (f" (not by {', '.join(missed)})" if caught and missed else "")
    files = ", ".join(os.path.basename(f) for f in m.get('files', []))[:60]
    needs = (m.get('needs_to_manifest') or '').replace('|', '/').replace('\n', ' ')
    needs = needs[:200] + ('…' if len(needs) > 200 else '')
    note = notes.get(i, {})
    hist = (note.get('first_run', 'caught') + ('. ' + note['then'] if note.get('then') else '')).replace('|', '/')
    rows.append(f"| {i} | {(m.get('title') or '').replace('|','/')[:110]} ({files}) | {needs} | {cell} | {hist} |")
rows.append("")
rows.append(f"{det} of {n} kept changes are detected by the quick tier of at least one check.")
p = '/verif/DESIGN.md'; s = open(p).read()
a, b = s.index('<!-- SEEDED-TABLE-BEGIN -->'), s.index('<!-- SEEDED-TABLE-END -->')
s = s[:a] + '<!-- SEEDED-TABLE-BEGIN -->\n' + "\n".join(rows) + '\n' + s[b:]
open(p, 'w').write(s)
print(det, "of", n)
