//! Reference for C18: RFC 9000 §7.3, §7.4, §18 / §18.2 (+ RFC 9221 §3, RFC 9287 §3) written as a table
//! and a byte-level judge. Nothing here is derived from the code under test.
use std::collections::BTreeMap;

pub const VMAX: u64 = (1 << 62) - 1;
pub const MAX_STREAMS: u64 = 1 << 60;

#[derive(Clone, Copy, PartialEq, Eq, Debug)]
pub enum Ty {
    /// a single variable-length integer filling the whole value
    Int,
    /// zero-length value
    Flag,
    /// 0..=20 bytes (QUIC v1 connection id)
    Cid,
    /// exactly 16 bytes
    Token,
    /// RFC 9000 figure 22
    PrefAddr,
    /// opaque (gm-quic's private `client_name` extension; no RFC rule applies)
    Bytes,
}

pub struct Def {
    pub id: u64,
    pub name: &'static str,
    pub ty: Ty,
    pub server_only: bool,
    /// inclusive legal range of an `Int`
    pub min: u64,
    pub max: u64,
    /// value assumed when the parameter is absent (`Int` only)
    pub default: u64,
}

const fn int(id: u64, name: &'static str, min: u64, max: u64, default: u64) -> Def {
    Def { id, name, ty: Ty::Int, server_only: false, min, max, default }
}
const fn other(id: u64, name: &'static str, ty: Ty, server_only: bool) -> Def {
    Def { id, name, ty, server_only, min: 0, max: VMAX, default: 0 }
}

pub const ODCID: u64 = 0x00;
pub const MAX_IDLE_TIMEOUT: u64 = 0x01;
pub const RESET_TOKEN: u64 = 0x02;
pub const MAX_UDP_PAYLOAD: u64 = 0x03;
pub const MAX_STREAMS_BIDI: u64 = 0x08;
pub const MAX_STREAMS_UNI: u64 = 0x09;
pub const ACK_DELAY_EXPONENT: u64 = 0x0a;
pub const MAX_ACK_DELAY: u64 = 0x0b;
pub const DISABLE_MIGRATION: u64 = 0x0c;
pub const PREFERRED_ADDRESS: u64 = 0x0d;
pub const ACTIVE_CID_LIMIT: u64 = 0x0e;
pub const ISCID: u64 = 0x0f;
pub const RETRY_SCID: u64 = 0x10;
pub const MAX_DATAGRAM: u64 = 0x20;
pub const GREASE_QUIC_BIT: u64 = 0x2ab2;
pub const CLIENT_NAME: u64 = 0xffee;

/// RFC 9000 §18.2 (ids 0x00..0x10), RFC 9221 (0x20), RFC 9287 (0x2ab2), gm-quic extension (0xffee).
pub const TABLE: [Def; 20] = [
    other(ODCID, "original_destination_connection_id", Ty::Cid, true),
    int(MAX_IDLE_TIMEOUT, "max_idle_timeout", 0, VMAX, 0),
    other(RESET_TOKEN, "stateless_reset_token", Ty::Token, true),
    // "The default for this parameter is the maximum permitted UDP payload of 65527. Values below 1200 are invalid."
    int(MAX_UDP_PAYLOAD, "max_udp_payload_size", 1200, VMAX, 65527),
    int(0x04, "initial_max_data", 0, VMAX, 0),
    int(0x05, "initial_max_stream_data_bidi_local", 0, VMAX, 0),
    int(0x06, "initial_max_stream_data_bidi_remote", 0, VMAX, 0),
    int(0x07, "initial_max_stream_data_uni", 0, VMAX, 0),
    // §4.6: a max_streams transport parameter greater than 2^60 => TRANSPORT_PARAMETER_ERROR
    int(MAX_STREAMS_BIDI, "initial_max_streams_bidi", 0, MAX_STREAMS, 0),
    int(MAX_STREAMS_UNI, "initial_max_streams_uni", 0, MAX_STREAMS, 0),
    // "Values above 20 are invalid."
    int(ACK_DELAY_EXPONENT, "ack_delay_exponent", 0, 20, 3),
    // "Values of 2^14 or greater are invalid."
    int(MAX_ACK_DELAY, "max_ack_delay", 0, (1 << 14) - 1, 25),
    other(DISABLE_MIGRATION, "disable_active_migration", Ty::Flag, false),
    other(PREFERRED_ADDRESS, "preferred_address", Ty::PrefAddr, true),
    // "The value of the active_connection_id_limit parameter MUST be at least 2."
    int(ACTIVE_CID_LIMIT, "active_connection_id_limit", 2, VMAX, 2),
    other(ISCID, "initial_source_connection_id", Ty::Cid, false),
    other(RETRY_SCID, "retry_source_connection_id", Ty::Cid, true),
    int(MAX_DATAGRAM, "max_datagram_frame_size", 0, VMAX, 0),
    other(GREASE_QUIC_BIT, "grease_quic_bit", Ty::Flag, false),
    other(CLIENT_NAME, "client_name", Ty::Bytes, false),
];

pub fn def(id: u64) -> Option<&'static Def> {
    TABLE.iter().find(|d| d.id == id)
}

/// reserved ids of the form 31*N+27 (§18.1)
pub fn is_grease(id: u64) -> bool {
    id >= 27 && (id - 27) % 31 == 0
}

pub fn name_of(id: u64) -> &'static str {
    match def(id) {
        Some(d) => d.name,
        None if is_grease(id) => "grease",
        None => "unknown",
    }
}

/// the parameters a server must not change for the worse when it accepts 0-RTT
/// (RFC 9000 §7.4.1 list + RFC 9221 §3 for max_datagram_frame_size)
pub const ZERO_RTT_LIMITS: [u64; 8] = [0x04, 0x05, 0x06, 0x07, MAX_STREAMS_BIDI, MAX_STREAMS_UNI, ACTIVE_CID_LIMIT, MAX_DATAGRAM];

pub fn min_width(v: u64) -> u8 {
    if v < 1 << 6 {
        1
    } else if v < 1 << 14 {
        2
    } else if v < 1 << 30 {
        4
    } else {
        8
    }
}

/// RFC 9000 §16 encoder; `width` 0 = shortest, else 1/2/4/8 (must be able to hold `v`)
pub fn put_varint(out: &mut Vec<u8>, v: u64, width: u8) {
    debug_assert!(v <= VMAX);
    let w = if width == 0 || width < min_width(v) { min_width(v) } else { width };
    match w {
        1 => out.push(v as u8),
        2 => out.extend_from_slice(&((v as u16) | 0x4000).to_be_bytes()),
        4 => out.extend_from_slice(&((v as u32) | 0x8000_0000).to_be_bytes()),
        _ => out.extend_from_slice(&(v | 0xc000_0000_0000_0000).to_be_bytes()),
    }
}

/// RFC 9000 §16 decoder: (value, bytes consumed)
pub fn get_varint(b: &[u8]) -> Option<(u64, usize)> {
    let first = *b.first()?;
    let n = 1usize << (first >> 6);
    if b.len() < n {
        return None;
    }
    let mut v = (first & 0x3f) as u64;
    for x in &b[1..n] {
        v = (v << 8) | *x as u64;
    }
    Some((v, n))
}

#[derive(Clone, Debug, PartialEq, Eq)]
pub enum RefVal {
    Int(u64),
    Flag,
    Cid(Vec<u8>),
    Token(Vec<u8>),
    /// connection id carried in the preferred address and the whole value
    Pref { cid: Vec<u8>, raw: Vec<u8> },
    Bytes(Vec<u8>),
}

/// `Some(cid)` iff `v` is exactly a figure-22 preferred address (cid length 0..=20 checked by caller)
pub fn split_pref_addr(v: &[u8]) -> Option<&[u8]> {
    // 4+2 + 16+2 + 1 + cid + 16
    if v.len() < 25 {
        return None;
    }
    let l = v[24] as usize;
    if v.len() != 25 + l + 16 {
        return None;
    }
    Some(&v[25..25 + l])
}

#[derive(Default, Debug)]
pub struct Judged {
    /// every reason the set must be refused with TRANSPORT_PARAMETER_ERROR: (parameter name, why), wire order
    pub illegal: Vec<(&'static str, String)>,
    /// names of parameters that occur more than once (§7.4: receiver MAY refuse)
    pub duplicate: Vec<&'static str>,
    /// well-formed values of known ids, all instances in wire order
    pub values: BTreeMap<u64, Vec<RefVal>>,
    pub unknown: usize,
}

impl Judged {
    pub fn first(&self, id: u64) -> Option<&RefVal> {
        self.values.get(&id).and_then(|v| v.first())
    }
    pub fn ints(&self, id: u64) -> Vec<u64> {
        self.values.get(&id).map(|v| v.iter().filter_map(|x| if let RefVal::Int(i) = x { Some(*i) } else { None }).collect()).unwrap_or_default()
    }
    pub fn cids(&self, id: u64) -> Vec<Vec<u8>> {
        self.values.get(&id).map(|v| v.iter().filter_map(|x| if let RefVal::Cid(c) = x { Some(c.clone()) } else { None }).collect()).unwrap_or_default()
    }
    /// value of an integer parameter with the RFC default applied; `None` when duplicated with different values
    pub fn int_or_default(&self, id: u64) -> Option<u64> {
        let v = self.ints(id);
        match v.len() {
            0 => def(id).map(|d| d.default),
            _ if v.iter().all(|x| *x == v[0]) => Some(v[0]),
            _ => None,
        }
    }
}

/// Judge the transport-parameter extension `blob` sent by a peer in role `peer_is_server`.
pub fn judge(peer_is_server: bool, blob: &[u8]) -> Judged {
    let mut j = Judged::default();
    let mut p = 0usize;
    // the sequence itself is cut short: nothing can be said about what the rest would have contained
    let mut truncated = false;
    while p < blob.len() {
        let Some((id, n)) = get_varint(&blob[p..]) else {
            j.illegal.push(("encoding", "parameter id truncated".into()));
            truncated = true;
            break;
        };
        p += n;
        let name = name_of(id);
        let Some((len, n)) = get_varint(&blob[p..]) else {
            j.illegal.push((if def(id).is_some() { name } else { "encoding" }, "parameter length truncated".into()));
            truncated = true;
            break;
        };
        p += n;
        if ((blob.len() - p) as u64) < len {
            j.illegal.push((if def(id).is_some() { name } else { "encoding" }, format!("declared length {len} exceeds the {} bytes left", blob.len() - p)));
            truncated = true;
            break;
        }
        let val = &blob[p..p + len as usize];
        p += len as usize;
        let Some(d) = def(id) else {
            // §7.4.2: unsupported parameters MUST be ignored
            j.unknown += 1;
            continue;
        };
        if d.server_only && !peer_is_server {
            // §18.2: "A client MUST NOT include any server-only transport parameter ... A server MUST treat receipt
            // of any of these transport parameters as a connection error of type TRANSPORT_PARAMETER_ERROR."
            j.illegal.push((name, "server-only parameter sent by a client".into()));
            continue;
        }
        let rv = match d.ty {
            Ty::Int => match get_varint(val) {
                Some((v, n)) if n == val.len() => {
                    if v < d.min || v > d.max {
                        j.illegal.push((name, format!("value {v} outside {}..={}", d.min, d.max)));
                        None
                    } else {
                        Some(RefVal::Int(v))
                    }
                }
                _ => {
                    j.illegal.push((name, format!("value of {} bytes is not exactly one variable-length integer", val.len())));
                    None
                }
            },
            Ty::Flag => {
                if val.is_empty() {
                    Some(RefVal::Flag)
                } else {
                    j.illegal.push((name, format!("zero-length parameter carries {} bytes", val.len())));
                    None
                }
            }
            Ty::Cid => {
                if val.len() <= 20 {
                    Some(RefVal::Cid(val.to_vec()))
                } else {
                    j.illegal.push((name, format!("connection id of {} bytes (version 1 allows at most 20)", val.len())));
                    None
                }
            }
            Ty::Token => {
                if val.len() == 16 {
                    Some(RefVal::Token(val.to_vec()))
                } else {
                    j.illegal.push((name, format!("stateless reset token of {} bytes (must be 16)", val.len())));
                    None
                }
            }
            Ty::PrefAddr => match split_pref_addr(val) {
                Some(cid) if cid.is_empty() => {
                    // "a server MUST NOT include a zero-length connection ID in this transport parameter"
                    j.illegal.push(("preferred_address.zero_length_cid", "preferred_address carries a zero-length connection id".into()));
                    None
                }
                Some(cid) if cid.len() > 20 => {
                    j.illegal.push((name, format!("preferred_address connection id of {} bytes", cid.len())));
                    None
                }
                Some(cid) => Some(RefVal::Pref { cid: cid.to_vec(), raw: val.to_vec() }),
                None => {
                    j.illegal.push((name, format!("preferred_address of {} bytes does not match figure 22", val.len())));
                    None
                }
            },
            Ty::Bytes => Some(RefVal::Bytes(val.to_vec())),
        };
        if let Some(rv) = rv {
            let e = j.values.entry(id).or_default();
            e.push(rv);
            if e.len() == 2 {
                j.duplicate.push(name);
            }
        }
    }
    if !truncated {
        // §7.3: absence of initial_source_connection_id from either endpoint, or of
        // original_destination_connection_id from the server => TRANSPORT_PARAMETER_ERROR.
        // (Only reported when the parameter did not occur at all, not when it occurred malformed.)
        let occurred = |j: &Judged, id: u64| j.values.contains_key(&id) || j.illegal.iter().any(|(n, _)| *n == name_of(id));
        if !occurred(&j, ISCID) {
            j.illegal.push(("initial_source_connection_id", "mandatory parameter absent".into()));
        }
        if peer_is_server && !occurred(&j, ODCID) {
            j.illegal.push(("original_destination_connection_id", "mandatory parameter absent".into()));
        }
    }
    // A duplicated preferred_address with one zero-length-cid instance and one well-formed instance: §7.4 lets the
    // receiver either reject the duplicate or keep one of the two, so the semantic check on the cid is undecided.
    if j.values.contains_key(&PREFERRED_ADDRESS) && j.illegal.iter().any(|(n, _)| *n == "preferred_address.zero_length_cid") {
        j.illegal.retain(|(n, _)| *n != "preferred_address.zero_length_cid");
        if !j.duplicate.contains(&"preferred_address") {
            j.duplicate.push("preferred_address");
        }
    }
    // §18.2 preferred_address: "A server that chooses a zero-length connection ID MUST NOT provide a preferred address."
    if peer_is_server && j.values.contains_key(&PREFERRED_ADDRESS) {
        let iscids = j.cids(ISCID);
        if !iscids.is_empty() && iscids.iter().all(|c| c.is_empty()) {
            j.illegal.push(("preferred_address.server_uses_zero_length_cid", "preferred_address from a server whose own connection id is zero-length".into()));
        }
    }
    j
}

/// RFC 9000 §10.1: minimum of the two advertised values, or the sole non-zero one; `None` = idle timeout disabled
pub fn effective_idle(local_ms: u64, remote_ms: u64) -> Option<u64> {
    match (local_ms, remote_ms) {
        (0, 0) => None,
        (0, r) => Some(r),
        (l, 0) => Some(l),
        (l, r) => Some(l.min(r)),
    }
}

/// RFC 9000 §7.4.1: 0-RTT may only be accepted if no remembered limit exceeds the new one
pub fn zero_rtt_ok(remembered: &dyn Fn(u64) -> u64, new: &dyn Fn(u64) -> u64) -> bool {
    ZERO_RTT_LIMITS.iter().all(|id| remembered(*id) <= new(*id))
}

#[cfg(test)]
mod tests {
    use super::*;
    #[test]
    fn varint_roundtrip() {
        for v in [0u64, 1, 63, 64, 16383, 16384, (1 << 30) - 1, 1 << 30, VMAX] {
            for w in [0u8, 1, 2, 4, 8] {
                let mut b = Vec::new();
                put_varint(&mut b, v, w);
                assert_eq!(get_varint(&b), Some((v, b.len())));
            }
        }
    }
}
