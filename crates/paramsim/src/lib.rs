//! paramsim — C18: peer transport parameters are validated and bound to the on-wire connection ids.
//!
//! One case = one handshake seen from one endpoint: the peer's transport-parameter extension (a byte blob
//! built entry by entry), the source connection id observed in the peer's first packet, the order in which
//! the two arrive, waiters on `remote_ready()`, an optional unrelated connection error, and (client) a set
//! of remembered server parameters for 0-RTT. The real `qbase::param` code is driven the way
//! `qconnection::{tls, space::initial, builder}` drive it; the oracle is the RFC table in [`rfc`].
pub mod exec;
pub mod rfc;

use rfc::{Ty, VMAX};
use serde::{Deserialize, Serialize};
use simcore::{Engine, Outcome, Rng, Tier};

/// one TLV of the peer's transport-parameter extension
#[derive(Clone, Debug, Serialize, Deserialize, PartialEq)]
pub struct Entry {
    pub id: u64,
    /// the value bytes exactly as they go on the wire
    pub value: Vec<u8>,
    /// encoded width of the id / length varints (0 = shortest)
    pub id_width: u8,
    pub len_width: u8,
    /// length field written instead of `value.len()`
    pub declared_len: Option<u64>,
    /// encode with `qbase::param::WriteParameter` when the entry is representable there
    pub real_writer: bool,
}

impl Entry {
    pub fn new(id: u64, value: Vec<u8>) -> Self {
        Entry { id, value, id_width: 0, len_width: 0, declared_len: None, real_writer: false }
    }
}

#[derive(Clone, Copy, Debug, Serialize, Deserialize, PartialEq)]
pub enum Op {
    /// the TLS stack hands over the peer's extension: parse, (client) 0-RTT decision, `recv_remote_params`
    Tls,
    /// the peer's first Initial packet is accepted: `initial_scid_from_peer_need_equal(observed_scid)`
    Initial,
    /// (client) a Retry packet was received: `retry_scid_from_server_need_equal(retry_scid)`
    Retry,
    /// a new task starts waiting on `remote_ready()`
    Wait,
    /// spurious poll of waiter `n % waiters`
    Spurious(u8),
    /// the connection fails for an unrelated reason: `on_conn_error`
    ConnError(u8),
}

#[derive(Clone, Debug, Serialize, Deserialize)]
pub struct Case {
    /// role of the endpoint under test; the peer has the other role
    pub client_under_test: bool,
    /// local max_idle_timeout in ms (0 = not advertised)
    pub local_idle_ms: u64,
    pub entries: Vec<Entry>,
    /// bytes removed from the end of the assembled extension
    pub cut_tail: u16,
    /// source connection id of the peer's first Initial packet
    pub observed_scid: Vec<u8>,
    /// destination connection id of the client's first Initial packet (client under test)
    pub odcid: Vec<u8>,
    /// source connection id of the Retry packet (`Op::Retry`)
    pub retry_scid: Vec<u8>,
    /// (client) remembered server parameters of an earlier connection: (id, value)
    pub remembered: Option<Vec<(u64, u64)>>,
    pub ops: Vec<Op>,
    /// what the generator injected (drives the `fault.*` counters only)
    pub labels: Vec<String>,
}

pub struct ParamSim;

fn rand_bytes(r: &mut Rng, n: usize) -> Vec<u8> {
    let mut v = vec![0u8; n];
    r.fill(&mut v);
    v
}

fn varint_bytes(v: u64, width: u8) -> Vec<u8> {
    let mut b = Vec::new();
    rfc::put_varint(&mut b, v, width);
    b
}

/// legal values at the edges of each integer parameter's range and at the varint width boundaries
fn legal_int(id: u64, r: &mut Rng) -> u64 {
    const W: [u64; 9] = [0, 1, 63, 64, 16383, 16384, (1 << 30) - 1, 1 << 30, VMAX];
    let d = rfc::def(id).expect("known id");
    let special: &[u64] = match id {
        rfc::MAX_IDLE_TIMEOUT => &[0, 1, 999, 1000, 20_000, 30_000],
        rfc::MAX_UDP_PAYLOAD => &[1200, 1201, 1472, 65527, 65527, 1200],
        rfc::MAX_STREAMS_BIDI | rfc::MAX_STREAMS_UNI => &[0, 100, (1 << 60) - 1, 1 << 60, 1 << 60],
        rfc::ACK_DELAY_EXPONENT => &[0, 3, 19, 20, 20],
        rfc::MAX_ACK_DELAY => &[0, 25, (1 << 14) - 1, (1 << 14) - 1],
        rfc::ACTIVE_CID_LIMIT => &[2, 2, 3, 8],
        rfc::MAX_DATAGRAM => &[0, 1200, 65535],
        _ => &[0, 1 << 20],
    };
    for _ in 0..8 {
        let v = if r.one_in(2) { *r.pick(special) } else { *r.pick(&W) };
        // max_udp_payload_size above 65527 is RFC-legal but injected separately (`legal_edge.*`)
        let hi = if id == rfc::MAX_UDP_PAYLOAD { 65527 } else { d.max };
        if v >= d.min && v <= hi {
            return v;
        }
    }
    d.min
}

fn pref_addr(r: &mut Rng, cid: &[u8]) -> Vec<u8> {
    let mut v = rand_bytes(r, 24);
    v.push(cid.len() as u8);
    v.extend_from_slice(cid);
    v.extend(rand_bytes(r, 16));
    v
}

fn different_cid(r: &mut Rng, base: &[u8]) -> Vec<u8> {
    let mut v = base.to_vec();
    match r.below(5) {
        // same bytes plus a zero byte: only the length differs from a zero-padded comparison
        0 if v.len() < 20 => v.push(0),
        1 if !v.is_empty() => {
            v.pop();
        }
        2 if !v.is_empty() => {
            let i = r.usize_below(v.len());
            v[i] ^= 1 << r.below(8);
        }
        3 if !v.is_empty() => v.clear(),
        _ => {
            let n = if v.len() == 8 { 9 } else { 8 };
            v = rand_bytes(r, n);
        }
    }
    v
}

fn legal_value(id: u64, r: &mut Rng, observed_scid: &[u8], odcid: &[u8], retry_scid: &[u8]) -> Vec<u8> {
    let d = rfc::def(id).expect("known id");
    match d.ty {
        Ty::Int => varint_bytes(legal_int(id, r), 0),
        Ty::Flag => Vec::new(),
        Ty::Cid => match id {
            rfc::ISCID => observed_scid.to_vec(),
            rfc::ODCID => odcid.to_vec(),
            _ => retry_scid.to_vec(),
        },
        Ty::Token => rand_bytes(r, 16),
        Ty::PrefAddr => {
            let n = *r.pick(&[1usize, 4, 8, 20]);
            let cid = rand_bytes(r, n);
            pref_addr(r, &cid)
        }
        Ty::Bytes => b"client.example"[..r.usize_below(15)].to_vec(),
    }
}

fn find(entries: &[Entry], id: u64) -> Option<usize> {
    entries.iter().position(|e| e.id == id)
}

fn upsert(entries: &mut Vec<Entry>, r: &mut Rng, id: u64, value: Vec<u8>) {
    match find(entries, id) {
        Some(i) => {
            entries[i].value = value;
            entries[i].declared_len = None;
        }
        None => {
            let at = r.usize_below(entries.len() + 1);
            entries.insert(at, Entry::new(id, value));
        }
    }
}

pub fn generate(seed: u64) -> Case {
    let mut c = Rng::derive(seed, "cfg");
    let client_ut = c.one_in(2);
    let peer_server = client_ut;
    let local_idle_ms = *c.pick(&[0u64, 0, 1, 999, 1000, 20_000, 30_000, 16384, 1 << 30, VMAX]);

    let mut cr = Rng::derive(seed, "cids");
    let n = *cr.pick(&[0usize, 1, 4, 8, 8, 16, 20]);
    let mut observed_scid = rand_bytes(&mut cr, n);
    let n = *cr.pick(&[8usize, 8, 16, 20, 1]);
    let mut odcid = rand_bytes(&mut cr, n);
    let n = *cr.pick(&[4usize, 8, 20]);
    let retry_scid = rand_bytes(&mut cr, n);

    let mut p = Rng::derive(seed, "params");
    let density = *p.pick(&[0.15, 0.5, 0.9]);
    let mut retry_op = client_ut && p.one_in(8);
    let mut labels: Vec<String> = Vec::new();
    let mut entries: Vec<Entry> = Vec::new();
    for d in rfc::TABLE.iter() {
        let required = d.id == rfc::ISCID || (peer_server && d.id == rfc::ODCID);
        if (d.server_only && !peer_server) || (d.id == rfc::CLIENT_NAME && peer_server) {
            continue;
        }
        if d.id == rfc::RETRY_SCID {
            if retry_op {
                entries.push(Entry::new(d.id, retry_scid.clone()));
                labels.push("retry.match".into());
            }
            continue;
        }
        // a server with a zero-length connection id must not send a preferred address: not in the legal baseline
        if d.id == rfc::PREFERRED_ADDRESS && observed_scid.is_empty() {
            continue;
        }
        if !required && !p.chance(density) {
            continue;
        }
        entries.push(Entry::new(d.id, legal_value(d.id, &mut p, &observed_scid, &odcid, &retry_scid)));
    }
    if p.one_in(2) {
        p.shuffle(&mut entries);
    }

    // injections
    let mut f = Rng::derive(seed, "faults");
    let budget = match f.below(20) {
        0..=5 => 0,
        6..=15 => 1,
        16..=18 => 2,
        _ => 3,
    };
    let mut cut_tail = 0u16;
    let mut applied = 0;
    let mut tries = 0;
    while applied < budget && tries < 40 {
        tries += 1;
        let int_ids: Vec<u64> = entries.iter().filter(|e| rfc::def(e.id).is_some_and(|d| d.ty == Ty::Int)).map(|e| e.id).collect();
        let label: String = match f.below(24) {
            0 => {
                let id = if peer_server && f.one_in(2) { rfc::ODCID } else { rfc::ISCID };
                entries.retain(|e| e.id != id);
                format!("absent_required.{}", rfc::name_of(id))
            }
            1 | 2 => {
                let (id, vals): (u64, &[u64]) = match f.below(6) {
                    0 => (rfc::MAX_UDP_PAYLOAD, &[1199, 0, 1, 63]),
                    1 => (rfc::ACK_DELAY_EXPONENT, &[21, 63, 64, VMAX]),
                    2 => (rfc::MAX_ACK_DELAY, &[1 << 14, (1 << 14) + 1, 1 << 30, VMAX]),
                    3 => (rfc::ACTIVE_CID_LIMIT, &[0, 1]),
                    4 => (rfc::MAX_STREAMS_BIDI, &[(1 << 60) + 1, VMAX]),
                    _ => (rfc::MAX_STREAMS_UNI, &[(1 << 60) + 1, VMAX]),
                };
                let v = *f.pick(vals);
                upsert(&mut entries, &mut f, id, varint_bytes(v, 0));
                format!("out_of_range.{}", rfc::name_of(id))
            }
            3 => {
                if peer_server {
                    continue;
                }
                let id = *f.pick(&[rfc::ODCID, rfc::RESET_TOKEN, rfc::PREFERRED_ADDRESS, rfc::RETRY_SCID]);
                let v = legal_value(id, &mut f, &observed_scid, &odcid, &retry_scid);
                upsert(&mut entries, &mut f, id, v);
                format!("wrong_role.{}", rfc::name_of(id))
            }
            4 => {
                if entries.is_empty() {
                    continue;
                }
                let i = f.usize_below(entries.len());
                let mut e = entries[i].clone();
                let same = f.one_in(2);
                if !same {
                    if let Some(d) = rfc::def(e.id) {
                        e.value = match d.ty {
                            Ty::Cid => different_cid(&mut f, &e.value),
                            _ => legal_value(e.id, &mut f, &observed_scid, &odcid, &retry_scid),
                        };
                    }
                }
                let at = f.usize_below(entries.len() + 1);
                entries.insert(at, e);
                if same { "duplicate.same".into() } else { "duplicate.different".into() }
            }
            5 | 6 => {
                let id = loop {
                    let id = *f.pick(&[0x11u64, 0x1f, 0x21, 0x3f, 0x40, 0x2ab1, 0x2ab3, 0xffed, 0xffef, 1 << 30, VMAX - 1]);
                    if rfc::def(id).is_none() && !rfc::is_grease(id) {
                        break id;
                    }
                };
                let n = *f.pick(&[0usize, 1, 8, 63, 64, 300]);
                let v = rand_bytes(&mut f, n);
                let at = f.usize_below(entries.len() + 1);
                entries.insert(at, Entry::new(id, v));
                "unknown_id".into()
            }
            7 | 8 => {
                let nmax = (VMAX - 27) / 31;
                let k = match f.below(4) {
                    0 => 0,
                    1 => f.below(4),
                    2 => nmax,
                    _ => f.below(nmax + 1),
                };
                let n = *f.pick(&[0usize, 1, 3, 16]);
                let v = rand_bytes(&mut f, n);
                let at = f.usize_below(entries.len() + 1);
                entries.insert(at, Entry::new(31 * k + 27, v));
                "grease_id".into()
            }
            9 => {
                let id = if int_ids.is_empty() || f.one_in(3) { *f.pick(&[0x01u64, 0x04, 0x08, 0x0b, 0x0e, 0x20]) } else { *f.pick(&int_ids) };
                let mut v = varint_bytes(legal_int(id, &mut f), 0);
                let extra = f.range(1, 3) as usize;
                v.extend(rand_bytes(&mut f, extra));
                upsert(&mut entries, &mut f, id, v);
                "trailing_bytes".into()
            }
            10 => {
                let id = *f.pick(&[rfc::DISABLE_MIGRATION, rfc::GREASE_QUIC_BIT]);
                let n = f.range(1, 3) as usize;
                let v = rand_bytes(&mut f, n);
                upsert(&mut entries, &mut f, id, v);
                "flag_nonempty".into()
            }
            11 => {
                let id = if peer_server { *f.pick(&[rfc::ISCID, rfc::ISCID, rfc::ODCID, rfc::RETRY_SCID]) } else { rfc::ISCID };
                let n = *f.pick(&[21usize, 21, 22, 24, 255]);
                let v = rand_bytes(&mut f, n);
                upsert(&mut entries, &mut f, id, v);
                "cid_too_long".into()
            }
            12 => {
                let id = if int_ids.is_empty() || f.one_in(3) { *f.pick(&[0x01u64, 0x04, 0x09, 0x0a, 0x20]) } else { *f.pick(&int_ids) };
                let v = if f.one_in(3) {
                    Vec::new()
                } else {
                    let w = *f.pick(&[2u8, 4, 8]);
                    let mut b = varint_bytes(legal_int(id, &mut f).min(63), w);
                    let keep = f.range(1, w as u64 - 1) as usize;
                    b.truncate(keep);
                    b
                };
                upsert(&mut entries, &mut f, id, v);
                "truncated_value".into()
            }
            13 => {
                if !peer_server {
                    continue;
                }
                let n = *f.pick(&[0usize, 1, 15, 17, 32]);
                let v = rand_bytes(&mut f, n);
                upsert(&mut entries, &mut f, rfc::RESET_TOKEN, v);
                "token_len".into()
            }
            14 => {
                if !peer_server {
                    continue;
                }
                let (v, l) = match f.below(4) {
                    0 => (pref_addr(&mut f, &[]), "pref_addr.zero_cid"),
                    1 => {
                        let cid = rand_bytes(&mut f, 21);
                        (pref_addr(&mut f, &cid), "pref_addr.cid_len")
                    }
                    2 => {
                        let cid = rand_bytes(&mut f, 8);
                        let mut v = pref_addr(&mut f, &cid);
                        let cut = *f.pick(&[1usize, 8, 16, 17, 30, 48]);
                        v.truncate(v.len() - cut);
                        (v, "pref_addr.short")
                    }
                    _ => {
                        let cid = rand_bytes(&mut f, 8);
                        let mut v = pref_addr(&mut f, &cid);
                        v.push(0);
                        (v, "pref_addr.trailing")
                    }
                };
                upsert(&mut entries, &mut f, rfc::PREFERRED_ADDRESS, v);
                l.into()
            }
            15 => {
                if !peer_server || find(&entries, rfc::ISCID).is_none() {
                    continue;
                }
                observed_scid.clear();
                let i = find(&entries, rfc::ISCID).unwrap();
                entries[i].value.clear();
                let cid = rand_bytes(&mut f, 8);
                let v = pref_addr(&mut f, &cid);
                upsert(&mut entries, &mut f, rfc::PREFERRED_ADDRESS, v);
                "pref_addr.zero_scid".into()
            }
            16 => {
                cut_tail = f.range(1, 6) as u16;
                "blob_cut".into()
            }
            17 => {
                let Some(last) = entries.last_mut() else { continue };
                last.declared_len = Some(last.value.len() as u64 + *f.pick(&[1u64, 2, 63, 64, 16384]));
                "len_overrun".into()
            }
            18 | 19 => {
                if entries.is_empty() {
                    continue;
                }
                let i = f.usize_below(entries.len());
                let e = &mut entries[i];
                match f.below(3) {
                    0 => e.id_width = *f.pick(&[2u8, 4, 8]),
                    1 => e.len_width = *f.pick(&[2u8, 4, 8]),
                    _ => {
                        if rfc::def(e.id).is_some_and(|d| d.ty == Ty::Int) {
                            if let Some((v, n)) = rfc::get_varint(&e.value) {
                                if n == e.value.len() && n < 8 {
                                    let w = *f.pick(&[2u8, 4, 8]);
                                    e.value = varint_bytes(v, w.max(rfc::min_width(v)));
                                }
                            }
                        } else {
                            e.len_width = 2;
                        }
                    }
                }
                "nonminimal_varint".into()
            }
            20 => {
                // Values above 65527 are not generated: RFC 9000 only calls values below 1200 invalid, but no
                // UDP payload can exceed 65527 and gm-quic refuses larger values; the statement does not
                // settle which is right, so the case is left unjudged (DESIGN §5 C18).
                let v = *f.pick(&[65527u64, 65526, 1200, 1472]);
                upsert(&mut entries, &mut f, rfc::MAX_UDP_PAYLOAD, varint_bytes(v, 0));
                "legal_edge.max_udp_payload_at_bounds".into()
            }
            21 => {
                observed_scid = different_cid(&mut f, &observed_scid);
                "cid_mismatch.initial_source_connection_id".into()
            }
            22 => {
                if !client_ut {
                    continue;
                }
                odcid = different_cid(&mut f, &odcid);
                "cid_mismatch.original_destination_connection_id".into()
            }
            _ => {
                if !client_ut {
                    continue;
                }
                match f.below(3) {
                    0 => {
                        retry_op = false;
                        upsert(&mut entries, &mut f, rfc::RETRY_SCID, retry_scid.clone());
                        "retry.unexpected".into()
                    }
                    1 => {
                        retry_op = true;
                        entries.retain(|e| e.id != rfc::RETRY_SCID);
                        "retry.absent".into()
                    }
                    _ => {
                        retry_op = true;
                        let v = different_cid(&mut f, &retry_scid);
                        upsert(&mut entries, &mut f, rfc::RETRY_SCID, v);
                        "retry.mismatch".into()
                    }
                }
            }
        };
        labels.push(label);
        applied += 1;
    }
    for e in entries.iter_mut() {
        e.real_writer = f.chance(0.6);
    }

    // remembered server parameters (client): related to the new values so that both verdicts are frequent
    let mut z = Rng::derive(seed, "zero_rtt");
    let remembered = if client_ut && z.one_in(2) {
        let reduce = z.one_in(2);
        let mut rem = Vec::new();
        for id in rfc::ZERO_RTT_LIMITS {
            let d = rfc::def(id).unwrap();
            let new = find(&entries, id)
                .and_then(|i| rfc::get_varint(&entries[i].value))
                .map(|(v, _)| v)
                .unwrap_or(d.default)
                .clamp(d.min, d.max);
            let v = match z.below(if reduce { 6 } else { 4 }) {
                0 | 1 => Some(new),
                2 => Some(new.saturating_sub(1).max(d.min)),
                3 => None,
                4 => Some((new + 1).min(d.max)),
                _ => Some(d.max),
            };
            if let Some(v) = v {
                rem.push((id, v));
            }
        }
        Some(rem)
    } else {
        None
    };

    // schedule
    let mut s = Rng::derive(seed, "sched");
    let mut ops = if s.one_in(2) { vec![Op::Tls, Op::Initial] } else { vec![Op::Initial, Op::Tls] };
    if s.one_in(12) {
        let i = s.usize_below(2);
        ops.remove(i);
        labels.push("incomplete_handshake".into());
    }
    let waiters = s.below(4);
    for _ in 0..waiters {
        let at = s.usize_below(ops.len() + 1);
        ops.insert(at, Op::Wait);
    }
    if waiters > 0 {
        for _ in 0..s.below(3) {
            let at = s.usize_below(ops.len() + 1);
            ops.insert(at, Op::Spurious(s.below(4) as u8));
        }
    }
    if s.one_in(7) {
        let at = s.usize_below(ops.len() + 1);
        ops.insert(at, Op::ConnError(s.below(4) as u8));
        labels.push("conn_error".into());
    }
    if retry_op {
        // a Retry can only precede the server's first Initial packet and its TLS messages
        ops.insert(0, Op::Retry);
    }

    Case { client_under_test: client_ut, local_idle_ms, entries, cut_tail, observed_scid, odcid, retry_scid, remembered, ops, labels }
}

impl Engine for ParamSim {
    type Case = Case;
    fn name(&self) -> &'static str {
        "paramsim"
    }
    fn components_real(&self) -> Vec<&'static str> {
        vec![
            "qbase::param::{Parameters, ArcParameters, ClientParameters, ServerParameters}",
            "qbase::param::io::{parse_from_bytes, WriteParameter}",
            "qbase::param::core::{ParameterId::{belong_to, validate}, is_0rtt_accepted}",
            "qbase::time::{ArcIdleConfig, ArcIdleTimer}",
            "tokio paused clock",
        ]
    }
    fn components_stub(&self) -> Vec<&'static str> {
        vec!["TLS (the extension blob is handed over directly)", "packet receive path (observed connection ids are given)", "task executor (counting wakers)"]
    }
    fn generate(&self, _index: u64, seed: u64, _tier: Tier) -> Case {
        generate(seed)
    }
    fn execute(&self, case: &Case) -> Outcome {
        let rt = tokio::runtime::Builder::new_current_thread().enable_time().start_paused(true).build().unwrap();
        rt.block_on(exec::run(case))
    }
    fn shrink(&self, case: &Case) -> Vec<Case> {
        let mut v = Vec::new();
        if case.entries.len() > 2 {
            // keep only the mandatory connection-id parameters
            let mut c = case.clone();
            c.entries.retain(|e| e.id == rfc::ISCID || e.id == rfc::ODCID);
            v.push(c);
        }
        for i in (0..case.entries.len()).rev() {
            let mut c = case.clone();
            c.entries.remove(i);
            v.push(c);
        }
        for i in (0..case.ops.len()).rev() {
            if !matches!(case.ops[i], Op::Tls | Op::Initial) {
                let mut c = case.clone();
                c.ops.remove(i);
                v.push(c);
            }
        }
        if case.cut_tail != 0 {
            v.push(Case { cut_tail: 0, ..case.clone() });
        }
        if case.remembered.is_some() {
            v.push(Case { remembered: None, ..case.clone() });
        }
        if let Some(rem) = &case.remembered {
            for i in 0..rem.len() {
                let mut r = rem.clone();
                r.remove(i);
                v.push(Case { remembered: Some(r), ..case.clone() });
            }
        }
        if case.local_idle_ms != 0 {
            v.push(Case { local_idle_ms: 0, ..case.clone() });
        }
        for i in 0..case.entries.len() {
            let e = &case.entries[i];
            if e.id_width != 0 || e.len_width != 0 || e.real_writer {
                let mut c = case.clone();
                c.entries[i].id_width = 0;
                c.entries[i].len_width = 0;
                c.entries[i].real_writer = false;
                v.push(c);
            }
            if e.declared_len.is_some() {
                let mut c = case.clone();
                c.entries[i].declared_len = None;
                v.push(c);
            }
        }
        for i in (0..case.ops.len()).rev() {
            if matches!(case.ops[i], Op::Tls | Op::Initial) {
                let mut c = case.clone();
                c.ops.remove(i);
                v.push(c);
            }
        }
        if !case.labels.is_empty() {
            v.push(Case { labels: Vec::new(), ..case.clone() });
        }
        // canonical connection ids: rename a connection id everywhere it occurs
        let rename = |from: &Vec<u8>, to: Vec<u8>| -> Option<Case> {
            if *from == to || [&case.observed_scid, &case.odcid, &case.retry_scid].iter().any(|c| ***c == to) {
                return None;
            }
            let mut c = case.clone();
            for e in c.entries.iter_mut() {
                if e.value == *from && rfc::def(e.id).is_some_and(|d| d.ty == Ty::Cid) {
                    e.value = to.clone();
                }
            }
            for f in [&mut c.observed_scid, &mut c.odcid, &mut c.retry_scid] {
                if *f == *from {
                    *f = to.clone();
                }
            }
            Some(c)
        };
        v.extend(rename(&case.observed_scid, vec![1]));
        v.extend(rename(&case.odcid, vec![2]));
        v.extend(rename(&case.retry_scid, vec![3]));
        // shorter / simpler values
        for i in 0..case.entries.len() {
            let val = &case.entries[i].value;
            let mut cands: Vec<Vec<u8>> = Vec::new();
            if val.len() > 1 {
                cands.push(val[..val.len() / 2].to_vec());
                cands.push(val[..val.len() - 1].to_vec());
            }
            if case.entries[i].id == rfc::PREFERRED_ADDRESS && val.len() > 25 {
                // keep only the connection-id length byte
                let mut z = vec![0u8; val.len()];
                z[24] = val[24];
                cands.push(z);
            } else if val.iter().skip(1).any(|b| *b != 0) {
                let mut z = vec![0u8; val.len()];
                z[0] = val[0];
                cands.push(z);
            }
            for nv in cands {
                if nv != *val {
                    let mut c = case.clone();
                    c.entries[i].value = nv;
                    v.push(c);
                }
            }
        }
        v
    }
}
