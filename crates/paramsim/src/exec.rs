//! Execution of one case against the real `qbase::param` code, and the oracle.
use std::{future::Future, pin::Pin, task::Poll, time::Duration};

use bytes::Bytes;
use qbase::{
    cid::ConnectionId,
    error::{Error, ErrorKind, QuicError},
    packet::PacketContent,
    param::{
        ArcParameters, ClientParameters, ParameterId, ParameterValue, ParameterValueType, Parameters, ServerParameters, WriteParameter,
        preferred_address::PreferredAddress,
    },
    time::ArcIdleConfig,
    token::ResetToken,
    varint::VarInt,
};
use simcore::{Outcome, TraceHash, engine::intern, panics::guarded, wake::Task};

use crate::{
    Case, Entry, Op,
    rfc::{self, Judged, RefVal, Ty},
};

/// assemble one TLV with the harness' own writer
fn raw_tlv(e: &Entry, out: &mut Vec<u8>) {
    rfc::put_varint(out, e.id, e.id_width);
    rfc::put_varint(out, e.declared_len.unwrap_or(e.value.len() as u64).min(rfc::VMAX), e.len_width);
    out.extend_from_slice(&e.value);
}

fn pid(id: u64) -> Option<ParameterId> {
    ParameterId::try_from(VarInt::from_u64(id).ok()?).ok()
}

/// the typed value the real writer takes, when the entry is expressible there (shortest encodings, well-formed)
fn typed(e: &Entry) -> Option<(ParameterId, ParameterValue)> {
    if e.id_width != 0 || e.len_width != 0 || e.declared_len.is_some() {
        return None;
    }
    let d = rfc::def(e.id)?;
    let p = pid(e.id)?;
    let v = match d.ty {
        Ty::Int => {
            let (v, n) = rfc::get_varint(&e.value)?;
            if n != e.value.len() || n != rfc::min_width(v) as usize {
                return None;
            }
            if p.value_type() == ParameterValueType::Duration {
                ParameterValue::Duration(Duration::from_millis(v))
            } else {
                ParameterValue::VarInt(VarInt::from_u64(v).ok()?)
            }
        }
        Ty::Flag if e.value.is_empty() => ParameterValue::True,
        Ty::Cid if e.value.len() <= 20 => ParameterValue::ConnectionId(ConnectionId::from_slice(&e.value)),
        Ty::Token if e.value.len() == 16 => ParameterValue::ResetToken(ResetToken::new(&e.value)),
        Ty::PrefAddr => {
            let cid = rfc::split_pref_addr(&e.value)?;
            if cid.len() > 20 {
                return None;
            }
            let v = &e.value;
            let v4 = std::net::SocketAddrV4::new([v[0], v[1], v[2], v[3]].into(), u16::from_be_bytes([v[4], v[5]]));
            let mut a6 = [0u8; 16];
            a6.copy_from_slice(&v[6..22]);
            let v6 = std::net::SocketAddrV6::new(a6.into(), u16::from_be_bytes([v[22], v[23]]), 0, 0);
            let tok = ResetToken::new(&v[25 + cid.len()..]);
            ParameterValue::PreferredAddress(PreferredAddress::new(v4, v6, ConnectionId::from_slice(cid), tok))
        }
        Ty::Bytes => ParameterValue::Bytes(Bytes::copy_from_slice(&e.value)),
        _ => return None,
    };
    Some((p, v))
}

pub fn build_blob(case: &Case, out: &mut Outcome) -> Vec<u8> {
    let mut blob = Vec::new();
    for e in &case.entries {
        let t = if e.real_writer { typed(e) } else { None };
        match t {
            Some((p, v)) => {
                let mut raw = Vec::new();
                raw_tlv(e, &mut raw);
                let mut real: Vec<u8> = Vec::new();
                real.put_parameter(p, &v);
                if real != raw {
                    // both are valid inputs for what follows; counted so that a systematic difference is visible
                    out.stats.bump("probe.real_writer_differs_from_reference_writer");
                }
                out.stats.bump("probe.entry_by_real_writer");
                blob.extend(real);
            }
            None => {
                out.stats.bump("probe.entry_by_raw_writer");
                raw_tlv(e, &mut blob);
            }
        }
    }
    let cut = (case.cut_tail as usize).min(blob.len());
    blob.truncate(blob.len() - cut);
    blob
}

#[derive(Clone, Copy, PartialEq, Eq, Debug)]
enum Tri {
    Yes,
    No,
    Either,
}

fn tri(declared: &[Vec<u8>], observed: &[u8]) -> Tri {
    let m = declared.iter().filter(|c| c.as_slice() == observed).count();
    if m == declared.len() {
        Tri::Yes
    } else if m == 0 {
        Tri::No
    } else {
        Tri::Either
    }
}

/// result of one call into the real code
#[derive(Debug)]
enum Step {
    /// Ok; for the TLS step of a client with remembered parameters, the 0-RTT decision
    Ok(Option<bool>),
    /// the call returned an error
    Err { kind: ErrorKind, reason: String, at: &'static str },
    /// `lock_guard()` refused: the parameters are already in the error state
    Closed(ErrorKind),
    /// the call is not made because its precondition does not hold (mirrors the guards in qconnection)
    NotCalled,
    Panic { site: String, detail: String },
}

struct Real {
    arc: ArcParameters,
    client_ut: bool,
}

fn cid(b: &[u8]) -> ConnectionId {
    ConnectionId::from_slice(&b[..b.len().min(20)])
}

impl Real {
    /// built the way `qconnection::builder` builds it
    fn new(case: &Case) -> Real {
        let idle = Duration::from_millis(case.local_idle_ms);
        let local_scid = ConnectionId::from_slice(&[0x5a; 8]);
        let params = if case.client_under_test {
            let mut c = qbase::param::handy::client_parameters();
            let _ = c.set(ParameterId::MaxIdleTimeout, idle);
            let _ = c.set(ParameterId::InitialSourceConnectionId, local_scid);
            let remembered = case.remembered.as_ref().map(|rem| {
                let mut s = ServerParameters::new();
                for (id, v) in rem {
                    if let (Some(p), Ok(v)) = (pid(*id), VarInt::from_u64(*v)) {
                        let _ = s.set(p, v);
                    }
                }
                s
            });
            Parameters::new_client(c, remembered, cid(&case.odcid))
        } else {
            let mut s = qbase::param::handy::server_parameters();
            let _ = s.set(ParameterId::MaxIdleTimeout, idle);
            let _ = s.set(ParameterId::InitialSourceConnectionId, local_scid);
            let _ = s.set(ParameterId::OriginalDestinationConnectionId, ConnectionId::from_slice(&[0xa5; 8]));
            Parameters::new_server(s)
        };
        Real { arc: ArcParameters::from(params), client_ut: case.client_under_test }
    }

    fn wrap(r: Result<Result<Step, (QuicError, &'static str)>, simcore::panics::PanicRecord>) -> Step {
        match r {
            Ok(Ok(s)) => s,
            Ok(Err((e, at))) => Step::Err { kind: e.kind(), reason: e.reason().to_string(), at },
            Err(rec) => Step::Panic { site: rec.site(), detail: format!("{} at {}", rec.message, rec.location) },
        }
    }

    /// `ArcTlsHandshake::try_process_tls_message` -> `try_process_ee` / `try_process_ch`
    fn tls(&self, blob: &[u8]) -> Step {
        let client_ut = self.client_ut;
        Self::wrap(guarded(|| {
            let mut g = match self.arc.lock_guard() {
                Ok(g) => g,
                Err(e) => return Ok(Step::Closed(e.kind())),
            };
            if g.is_remote_params_received() {
                return Ok(Step::NotCalled);
            }
            if client_ut {
                let remembered = g.remembered().cloned();
                let params = ServerParameters::parse_from_bytes(blob).map_err(|e| (e, "parse_from_bytes"))?;
                let z = remembered.map(|r| r.is_0rtt_accepted(&params));
                g.recv_remote_params(params).map_err(|e| (e, "recv_remote_params"))?;
                Ok(Step::Ok(z))
            } else {
                let params = ClientParameters::parse_from_bytes(blob).map_err(|e| (e, "parse_from_bytes"))?;
                g.recv_remote_params(params).map_err(|e| (e, "recv_remote_params"))?;
                Ok(Step::Ok(None))
            }
        }))
    }

    /// `space::initial`: first Initial packet of the peer accepted
    fn initial(&self, scid: &[u8]) -> Step {
        Self::wrap(guarded(|| {
            let mut g = match self.arc.lock_guard() {
                Ok(g) => g,
                Err(e) => return Ok(Step::Closed(e.kind())),
            };
            if g.initial_scid_from_peer().is_some() {
                return Ok(Step::NotCalled);
            }
            g.initial_scid_from_peer_need_equal(cid(scid)).map_err(|e| (e, "initial_scid_from_peer_need_equal"))?;
            Ok(Step::Ok(None))
        }))
    }

    fn retry(&self, scid: &[u8]) -> Step {
        Self::wrap(guarded(|| {
            let mut g = match self.arc.lock_guard() {
                Ok(g) => g,
                Err(e) => return Ok(Step::Closed(e.kind())),
            };
            g.retry_scid_from_server_need_equal(cid(scid));
            Ok(Step::Ok(None))
        }))
    }

    /// Ok(ready) or the stored connection error
    fn ready(&self) -> Result<bool, ErrorKind> {
        self.arc.lock_guard().map(|g| g.is_remote_params_ready()).map_err(|e| e.kind())
    }
}

/// frame sink of the stream-id allocator (STREAMS_BLOCKED frames are of no interest here)
#[derive(Clone)]
struct NullSink;
impl qbase::frame::io::SendFrame<qbase::frame::StreamsBlockedFrame> for NullSink {
    fn send_frame<I: IntoIterator<Item = qbase::frame::StreamsBlockedFrame>>(&self, _iter: I) {}
}

type WaitFut = Pin<Box<dyn Future<Output = Result<bool, ErrorKind>>>>;

struct Waiter {
    task: Task,
    fut: Option<WaitFut>,
}

fn conn_error(sel: u8) -> Error {
    let kind = match sel % 4 {
        0 => ErrorKind::Internal,
        1 => ErrorKind::NoViablePath,
        2 => ErrorKind::ProtocolViolation,
        _ => ErrorKind::FlowControl,
    };
    Error::Quic(QuicError::with_default_fty(kind, "injected connection error"))
}

#[derive(Clone, Copy, PartialEq, Eq, Debug)]
enum Class {
    Ready,
    Failed,
    Stuck,
    Panic,
}

/// both inputs delivered to a fresh instance in the given order, nothing else
fn plain_run(case: &Case, blob: &[u8], tls_first: bool) -> (Class, String) {
    let real = Real::new(case);
    if case.ops.contains(&Op::Retry) {
        if let Step::Panic { detail, .. } = real.retry(&case.retry_scid) {
            return (Class::Panic, detail);
        }
    }
    for i in 0..2 {
        let step = if (i == 0) == tls_first { real.tls(blob) } else { real.initial(&case.observed_scid) };
        match step {
            Step::Err { kind, reason, at } => return (Class::Failed, format!("{at}: {kind:?} {reason}")),
            Step::Panic { detail, .. } => return (Class::Panic, detail),
            _ => {}
        }
    }
    match real.ready() {
        Ok(true) => (Class::Ready, String::new()),
        _ => (Class::Stuck, String::new()),
    }
}

/// which entry the real parser objects to: the parameter whose removal makes the set acceptable
fn blame(case: &Case, peer_server: bool) -> String {
    for i in 0..case.entries.len() {
        let id = case.entries[i].id;
        if id == rfc::ISCID || id == rfc::ODCID {
            continue;
        }
        let mut c = case.clone();
        c.entries.remove(i);
        let mut scratch = Outcome::default();
        let blob = build_blob(&c, &mut scratch);
        let ok = guarded(|| if peer_server { ServerParameters::parse_from_bytes(&blob).is_ok() } else { ClientParameters::parse_from_bytes(&blob).is_ok() });
        if matches!(ok, Ok(true)) {
            return rfc::name_of(id).to_string();
        }
    }
    "set".to_string()
}

fn is_tp(kind: ErrorKind) -> bool {
    kind == ErrorKind::TransportParameter
}

fn hash_step(th: &mut TraceHash, tag: u64, s: &Step) {
    th.add(tag);
    match s {
        Step::Ok(z) => th.add(1 + z.map(|b| 1 + b as u64).unwrap_or(0)),
        Step::Err { kind, at, .. } => {
            th.add(10);
            th.add_str(&format!("{kind:?}{at}"));
        }
        Step::Closed(k) => {
            th.add(20);
            th.add_str(&format!("{k:?}"));
        }
        Step::NotCalled => th.add(30),
        Step::Panic { site, .. } => {
            th.add(40);
            th.add_str(site);
        }
    }
}

pub async fn run(case: &Case) -> Outcome {
    let mut out = Outcome::default();
    let mut th = TraceHash::default();
    for l in &case.labels {
        out.stats.bump(intern(&format!("fault.{l}")));
    }
    let client_ut = case.client_under_test;
    let peer_server = client_ut;
    let blob = build_blob(case, &mut out);
    th.add_bytes(&blob);
    th.add_bytes(&case.observed_scid);
    th.add_bytes(&case.odcid);

    // ---- reference verdicts --------------------------------------------------------------------
    let j: Judged = rfc::judge(peer_server, &blob);
    let tls_expect = if !j.illegal.is_empty() {
        Tri::No
    } else if !j.duplicate.is_empty() {
        Tri::Either
    } else {
        Tri::Yes
    };
    if j.unknown > 0 {
        out.stats.bump("probe.unknown_ids_in_blob");
    }
    match tls_expect {
        Tri::Yes => out.stats.bump("probe.set_legal"),
        Tri::No => out.stats.bump("probe.set_illegal"),
        Tri::Either => out.stats.bump("probe.set_duplicates_only"),
    }
    let has_retry_op = case.ops.contains(&Op::Retry);
    // §7.3 connection-id authentication, in the order an implementation would naturally report them
    let cid_checks: Vec<(&'static str, Tri)> = {
        let mut v = vec![("initial_source_connection_id", tri(&j.cids(rfc::ISCID), &case.observed_scid))];
        if client_ut {
            v.push(("original_destination_connection_id", tri(&j.cids(rfc::ODCID), &case.odcid)));
            let declared = j.cids(rfc::RETRY_SCID);
            let t = match (has_retry_op, declared.is_empty()) {
                (false, true) => ("retry_source_connection_id", Tri::Yes),
                (false, false) => ("retry_source_connection_id.unexpected", Tri::No),
                (true, true) => ("retry_source_connection_id.absent", Tri::No),
                (true, false) => ("retry_source_connection_id.mismatch", tri(&declared, &case.retry_scid)),
            };
            v.push(t);
        }
        v
    };
    let cid_expect = if let Some((_, _)) = cid_checks.iter().find(|(_, t)| *t == Tri::No) {
        Tri::No
    } else if cid_checks.iter().all(|(_, t)| *t == Tri::Yes) {
        Tri::Yes
    } else {
        Tri::Either
    };
    let cid_fail_site = cid_checks.iter().find(|(_, t)| *t == Tri::No).map(|(n, _)| *n).unwrap_or("");

    // ---- the run -------------------------------------------------------------------------------
    let real = Real::new(case);
    let mut waiters: Vec<Waiter> = Vec::new();
    let mut tls_done = false; // TLS step returned Ok
    let mut initial_done = false;
    let mut model_ready = false;
    let mut model_err: Option<ErrorKind> = None;
    let mut undecidable = false; // duplicated connection-id parameter with differing values: the RFC lets the receiver choose
    let mut post_done = false;
    let mut progress = 0u32;

    'ops: for (step, op) in case.ops.iter().enumerate() {
        let step = step as u64;
        match op {
            Op::Tls | Op::Initial | Op::Retry => {
                let is_tls = *op == Op::Tls;
                let res = match op {
                    Op::Tls => real.tls(&blob),
                    Op::Initial => real.initial(&case.observed_scid),
                    _ => real.retry(&case.retry_scid),
                };
                let tag = match op {
                    Op::Tls => 1,
                    Op::Initial => 2,
                    _ => 3,
                };
                hash_step(&mut th, step << 8 | tag, &res);
                let call = match op {
                    Op::Tls => "tls-extension",
                    Op::Initial => "initial-packet",
                    _ => "retry-packet",
                };
                // is this the call at which the connection ids get compared?
                let other_done = if is_tls { initial_done } else { tls_done };
                let authenticating = *op != Op::Retry && other_done;
                match res {
                    Step::Panic { site, detail } => {
                        out.violate("panic", site, format!("{call}: {detail}"), step);
                        break 'ops;
                    }
                    Step::Closed(k) => {
                        out.stats.bump("probe.input_after_conn_error");
                        if model_err != Some(k) {
                            out.violate("waiter", "error-state", format!("lock_guard() reports {k:?} but the connection error was {model_err:?}"), step);
                        }
                    }
                    Step::NotCalled => {
                        out.stats.bump("probe.repeated_input_not_delivered");
                    }
                    Step::Ok(z) => {
                        progress += 1;
                        if *op == Op::Retry {
                            continue;
                        }
                        if is_tls {
                            out.stats.bump(if initial_done { "probe.order.initial_then_tls" } else { "probe.order.tls_then_initial" });
                            if tls_expect == Tri::No {
                                let (name, why) = &j.illegal[0];
                                out.violate("accepted-illegal", *name, format!("peer {} parameters accepted although {name}: {why}", if peer_server { "server" } else { "client" }), step);
                                break 'ops;
                            }
                            if tls_expect == Tri::Either {
                                out.stats.bump("probe.duplicate_accepted");
                            }
                            tls_done = true;
                            // 0-RTT decision (qconnection::tls::try_process_ee)
                            if let (Some(real_z), Some(rem)) = (z, case.remembered.as_ref()) {
                                let old = |id: u64| rem.iter().find(|(i, _)| *i == id).map(|(_, v)| *v).unwrap_or(rfc::def(id).unwrap().default);
                                let news: Vec<Option<u64>> = rfc::ZERO_RTT_LIMITS.iter().map(|id| j.int_or_default(*id)).collect();
                                if news.iter().all(|n| n.is_some()) {
                                    let new = |id: u64| news[rfc::ZERO_RTT_LIMITS.iter().position(|i| *i == id).unwrap()].unwrap();
                                    let want = rfc::zero_rtt_ok(&old, &new);
                                    out.stats.bump(if want { "probe.zero_rtt.acceptable" } else { "probe.zero_rtt.reduced" });
                                    if real_z != want {
                                        let site = rfc::ZERO_RTT_LIMITS.iter().find(|id| old(**id) > new(**id)).map(|id| rfc::name_of(*id)).unwrap_or("refused-without-reduction");
                                        out.violate(
                                            "zero-rtt-remembered",
                                            site,
                                            format!("is_0rtt_accepted = {real_z}, reference = {want}; remembered {:?}, new {:?}", rfc::ZERO_RTT_LIMITS.map(|i| old(i)), rfc::ZERO_RTT_LIMITS.map(|i| new(i))),
                                            step,
                                        );
                                        break 'ops;
                                    }
                                }
                            }
                        } else {
                            initial_done = true;
                        }
                        if authenticating {
                            match cid_expect {
                                // no declared instance matches: must fail whatever the receiver does with duplicates
                                Tri::No => {
                                    out.violate("cid-binding", cid_fail_site, format!("{call} completed the handshake although {cid_fail_site} does not match: {cid_checks:?}"), step);
                                    break 'ops;
                                }
                                Tri::Yes => model_ready = true,
                                // duplicated connection-id parameter, one instance matches: receiver's choice
                                Tri::Either => undecidable = true,
                            }
                        }
                    }
                    Step::Err { kind, reason, at } => {
                        progress += 1;
                        // expected failure?
                        let illegal_set = is_tls && tls_expect != Tri::Yes;
                        let cid_fail = authenticating && cid_expect != Tri::Yes;
                        if is_tls && tls_expect == Tri::No {
                            out.stats.bump("probe.illegal_set_refused");
                        } else if is_tls && tls_expect == Tri::Either {
                            out.stats.bump("probe.duplicate_refused");
                        }
                        if !illegal_set && !cid_fail && !undecidable {
                            if is_tls && !(authenticating && at == "recv_remote_params") {
                                let who = if at == "parse_from_bytes" { blame(case, peer_server) } else { "set".to_string() };
                                out.violate("rejected-legal", who, format!("{at} refused a legal parameter set: {kind:?} {reason}"), step);
                            } else {
                                out.violate("cid-binding", "false-mismatch", format!("{at} failed although every declared connection id matches: {kind:?} {reason}; {cid_checks:?}"), step);
                            }
                            break 'ops;
                        }
                        let kind_ok = if is_tls && tls_expect == Tri::No && at == "parse_from_bytes" {
                            is_tp(kind)
                        } else {
                            // §7.3 allows TRANSPORT_PARAMETER_ERROR or PROTOCOL_VIOLATION for connection-id mismatches
                            is_tp(kind) || (cid_fail && kind == ErrorKind::ProtocolViolation)
                        };
                        if !kind_ok {
                            out.violate("error-kind", call, format!("{at} failed with {kind:?} ({reason}) instead of TRANSPORT_PARAMETER_ERROR"), step);
                            break 'ops;
                        }
                        if cid_fail && !illegal_set {
                            out.stats.bump("probe.cid_mismatch_refused");
                        }
                        // Between the failing call and the moment the error has travelled up to the connection (which
                        // then calls on_conn_error) other tasks run: the parameters must not look usable in that window
                        // and nobody waiting for them may have been released with success.
                        if !undecidable {
                            if let Ok(true) = real.ready() {
                                out.violate("cid-binding", "ready-after-refusal", format!("{at} refused the input ({kind:?}) and yet is_remote_params_ready() is true before the connection error is recorded: {cid_checks:?}"), step);
                                break 'ops;
                            }
                        }
                        let e = Error::Quic(QuicError::with_default_fty(kind, reason));
                        real.arc.on_conn_error(&e);
                        if model_err.is_none() {
                            model_err = Some(kind);
                        }
                    }
                }
            }
            Op::ConnError(sel) => {
                let e = conn_error(*sel);
                let kind = e.kind();
                if let Err(rec) = guarded(|| real.arc.on_conn_error(&e)) {
                    out.violate("panic", rec.site(), format!("on_conn_error: {} at {}", rec.message, rec.location), step);
                    break 'ops;
                }
                th.add(step << 8 | 0xee);
                if model_err.is_none() {
                    model_err = Some(kind);
                    out.stats.bump(if model_ready { "probe.conn_error_after_ready" } else { "probe.conn_error_before_ready" });
                }
            }
            Op::Wait => {
                let p = real.arc.clone();
                let fut: WaitFut = Box::pin(async move { p.remote_ready().await.map(|g| g.is_remote_params_ready()).map_err(|e| e.kind()) });
                let mut w = Waiter { task: Task::new(), fut: Some(fut) };
                poll_waiter(&mut w, model_ready, model_err, undecidable, "first-poll", step, &mut out, &mut th);
                waiters.push(w);
            }
            Op::Spurious(n) => {
                if !waiters.is_empty() {
                    let i = *n as usize % waiters.len();
                    if waiters[i].fut.is_some() {
                        out.stats.bump("probe.spurious_poll");
                        waiters[i].task.take_woken();
                        poll_waiter(&mut waiters[i], model_ready, model_err, undecidable, "spurious-poll", step, &mut out, &mut th);
                    }
                }
            }
        }
        if out.failed() {
            break;
        }

        // ---- state after the step ----------------------------------------------------------------
        let observed = real.ready();
        th.add(match observed {
            Ok(b) => b as u64,
            Err(_) => 2,
        });
        match (observed, model_err) {
            (Err(k), Some(m)) if k == m => {}
            (Err(k), m) => {
                out.violate("waiter", "error-state", format!("parameters are in error state {k:?}, expected {m:?}"), step);
                break;
            }
            (Ok(_), Some(m)) => {
                out.violate("waiter", "error-state", format!("on_conn_error({m:?}) did not put the parameters into the error state"), step);
                break;
            }
            (Ok(r), None) => {
                if r && !(tls_done && initial_done) {
                    out.violate("cid-binding", "ready-before-both-inputs", format!("is_remote_params_ready() with tls_done={tls_done} initial_done={initial_done}"), step);
                    break;
                }
                if !undecidable && r != model_ready {
                    if r {
                        out.violate("cid-binding", cid_fail_site, format!("parameters ready although the reference says not: {cid_checks:?}"), step);
                    } else {
                        out.violate("rejected-legal", "never-ready", "both inputs were accepted without error but the parameters did not become ready", step);
                    }
                    break;
                }
                if undecidable && r {
                    model_ready = true;
                    undecidable = false;
                }
                if r && model_ready && !post_done {
                    post_done = true;
                    out.stats.bump("probe.ready");
                    post_ready(case, &real, &j, step, &mut out, &mut th).await;
                    if out.failed() {
                        break;
                    }
                }
            }
        }
        // woken tasks run
        for w in waiters.iter_mut() {
            if w.fut.is_some() && w.task.take_woken() {
                poll_waiter(w, model_ready, model_err, undecidable, "woken", step, &mut out, &mut th);
            }
        }
        if out.failed() {
            break;
        }
    }

    // ---- audit poll (quiescence) ---------------------------------------------------------------
    if !out.failed() {
        let end = case.ops.len() as u64;
        let decided = model_ready || model_err.is_some();
        for (i, w) in waiters.iter_mut().enumerate() {
            if w.fut.is_none() {
                continue;
            }
            let woken = w.task.take_woken();
            let fut = w.fut.as_mut().unwrap();
            match guarded(|| w.task.poll_pin(fut.as_mut())) {
                Err(rec) => out.violate("panic", rec.site(), format!("remote_ready poll: {} at {}", rec.message, rec.location), end),
                Ok(Poll::Ready(r)) => {
                    if !woken {
                        out.violate("waiter", "lost-wakeup", format!("waiter {i} was never woken but completes with {r:?} when polled again"), end);
                    }
                }
                Ok(Poll::Pending) => {
                    if decided && !undecidable {
                        out.violate("waiter", "pending-after-decision", format!("waiter {i} still pending although ready={model_ready} error={model_err:?}"), end);
                    } else {
                        out.stats.bump("probe.waiter_pending_at_end_undecided");
                    }
                }
            }
        }
    }

    // ---- arrival-order differential --------------------------------------------------------------
    if !out.failed() && case.ops.contains(&Op::Tls) && case.ops.contains(&Op::Initial) {
        let (a, da) = plain_run(case, &blob, true);
        let (b, db) = plain_run(case, &blob, false);
        th.add(a as u64 * 8 + b as u64);
        out.stats.bump("probe.order_differential");
        if a != b {
            out.violate("order-dependence", "", format!("TLS extension first => {a:?} {da}; Initial packet first => {b:?} {db}"), case.ops.len() as u64);
        }
    }

    out.trace_hash = th.get();
    out.nontrivial = !case.labels.is_empty() && progress > 0;
    out
}

#[allow(clippy::too_many_arguments)]
fn poll_waiter(w: &mut Waiter, model_ready: bool, model_err: Option<ErrorKind>, undecidable: bool, when: &'static str, step: u64, out: &mut Outcome, th: &mut TraceHash) {
    let Some(fut) = w.fut.as_mut() else { return };
    let r = match guarded(|| w.task.poll_pin(fut.as_mut())) {
        Ok(r) => r,
        Err(rec) => {
            out.violate("panic", rec.site(), format!("remote_ready poll: {} at {}", rec.message, rec.location), step);
            w.fut = None;
            return;
        }
    };
    match r {
        Poll::Pending => {
            th.add(0x77_00);
            if (model_ready || model_err.is_some()) && !undecidable {
                out.violate("waiter", "pending-after-decision", format!("{when}: remote_ready() pending although ready={model_ready} error={model_err:?}"), step);
            }
        }
        Poll::Ready(res) => {
            w.fut = None;
            match res {
                Ok(is_ready) => {
                    th.add(0x77_01);
                    out.stats.bump("probe.waiter_resolved_ok");
                    if model_err.is_some() {
                        out.violate("waiter", "ok-after-error", format!("{when}: remote_ready() resolved Ok after the connection error {model_err:?}"), step);
                    } else if !is_ready || (!model_ready && !undecidable) {
                        out.violate("waiter", "ok-before-ready", format!("{when}: remote_ready() resolved Ok (is_remote_params_ready={is_ready}) while the reference says ready={model_ready}"), step);
                    }
                }
                Err(k) => {
                    th.add(0x77_02);
                    out.stats.bump("probe.waiter_resolved_err");
                    if model_err != Some(k) {
                        out.violate("waiter", "wrong-error", format!("{when}: remote_ready() resolved Err({k:?}), connection error was {model_err:?}"), step);
                    }
                }
            }
        }
    }
}

/// checks made once, at the moment the parameters become ready
async fn post_ready(case: &Case, real: &Real, j: &Judged, step: u64, out: &mut Outcome, th: &mut TraceHash) {
    // (1) the values handed to the rest of the stack are the ones on the wire (or the RFC defaults)
    let stored = guarded(|| {
        let g = real.arc.lock_guard().map_err(|e| format!("{e:?}"))?;
        let mut bad: Vec<(&'static str, String)> = Vec::new();
        for d in rfc::TABLE.iter() {
            let Some(p) = pid(d.id) else { continue };
            let inst = j.values.get(&d.id).cloned().unwrap_or_default();
            match d.ty {
                Ty::Int => {
                    let got: Option<u64> = if p.value_type() == ParameterValueType::Duration {
                        g.get_remote::<Duration>(p).map(|d| d.as_millis().min(u64::MAX as u128) as u64)
                    } else {
                        g.get_remote::<u64>(p)
                    };
                    let want: Vec<u64> = if inst.is_empty() { vec![d.default] } else { j.ints(d.id) };
                    if !got.is_some_and(|g| want.contains(&g)) {
                        bad.push((d.name, format!("get_remote = {got:?}, on the wire / default {want:?}")));
                    }
                }
                Ty::Flag => {
                    let got = g.get_remote::<bool>(p).unwrap_or(false);
                    if got != !inst.is_empty() {
                        bad.push((d.name, format!("get_remote = {got}, present on the wire = {}", !inst.is_empty())));
                    }
                }
                Ty::Cid => {
                    let got = g.get_remote::<ConnectionId>(p).map(|c| c.to_vec());
                    let want = j.cids(d.id);
                    let ok = match &got {
                        None => want.is_empty(),
                        Some(c) => want.contains(c),
                    };
                    if !ok {
                        bad.push((d.name, format!("get_remote = {got:?}, on the wire {want:?}")));
                    }
                }
                Ty::Token => {
                    let got = g.get_remote::<ResetToken>(p).map(|t| t.to_vec());
                    let ok = match &got {
                        None => inst.is_empty(),
                        Some(t) => inst.contains(&RefVal::Token(t.clone())),
                    };
                    if !ok {
                        bad.push((d.name, format!("get_remote = {got:?}, on the wire {inst:?}")));
                    }
                }
                Ty::PrefAddr => {
                    let got = g.get_remote::<PreferredAddress>(p).map(|a| a.connection_id().to_vec());
                    let ok = match &got {
                        None => inst.is_empty(),
                        Some(c) => inst.iter().any(|v| matches!(v, RefVal::Pref { cid, .. } if cid == c)),
                    };
                    if !ok {
                        bad.push((d.name, format!("get_remote(connection id) = {got:?}, on the wire {inst:?}")));
                    }
                }
                Ty::Bytes => {
                    let got = g.get_remote::<Bytes>(p).map(|b| b.to_vec());
                    let ok = match &got {
                        // the derive gives client_name a (non-bytes) default: absence reads as None
                        None => inst.is_empty(),
                        Some(b) => inst.contains(&RefVal::Bytes(b.clone())),
                    };
                    if !ok {
                        bad.push((d.name, format!("get_remote = {got:?}, on the wire {inst:?}")));
                    }
                }
            }
        }
        let idle = g.negotiated_max_idle_timeout();
        let remote_idle = g.get_remote::<Duration>(ParameterId::MaxIdleTimeout);
        Ok::<_, String>((bad, idle, remote_idle))
    });
    let (bad, idle, remote_idle) = match stored {
        Err(rec) => {
            out.violate("panic", rec.site(), format!("reading ready parameters: {} at {}", rec.message, rec.location), step);
            return;
        }
        Ok(Err(e)) => {
            out.violate("waiter", "error-state", format!("lock_guard failed right after ready: {e}"), step);
            return;
        }
        Ok(Ok(x)) => x,
    };
    if let Some((name, detail)) = bad.into_iter().next() {
        out.violate("stored-value", name, detail, step);
        return;
    }

    // (1b) the stream limits are applied the way `qconnection::builder::apply_parameters` ->
    // `DataStreams::revise_params` -> `ArcLocalStreamIds::revise_max_streams` applies them when the handshake
    // completes (the only consumer of the two ranged stream-count parameters)
    let applied = guarded(|| {
        let (bidi, uni) = {
            let g = real.arc.lock_guard().ok()?;
            (g.get_remote::<u64>(ParameterId::InitialMaxStreamsBidi)?, g.get_remote::<u64>(ParameterId::InitialMaxStreamsUni)?)
        };
        let role = if case.client_under_test { qbase::role::Role::Client } else { qbase::role::Role::Server };
        let ids = qbase::sid::ArcLocalStreamIds::new(role, 0, 0, NullSink, qbase::net::tx::ArcSendWakers::default());
        ids.revise_max_streams(false, bidi, uni);
        Some((bidi, uni))
    });
    match applied {
        Err(rec) => {
            let v = (j.int_or_default(rfc::MAX_STREAMS_BIDI), j.int_or_default(rfc::MAX_STREAMS_UNI));
            out.violate("panic", rec.site(), format!("applying the accepted stream limits {v:?}: {} at {}", rec.message, rec.location), step);
            return;
        }
        Ok(Some((b, u))) => {
            if b == rfc::MAX_STREAMS || u == rfc::MAX_STREAMS {
                out.stats.bump("probe.max_streams_2pow60_applied");
            }
        }
        Ok(None) => {}
    }

    // (2) effective idle timeout = the smaller non-zero of the two advertised values
    let remotes = j.ints(rfc::MAX_IDLE_TIMEOUT);
    let remote_ms = match remotes.len() {
        0 => 0,
        _ if remotes.iter().all(|v| *v == remotes[0]) => remotes[0],
        _ => return, // duplicated with different values: receiver's choice
    };
    let want = rfc::effective_idle(case.local_idle_ms, remote_ms);
    out.stats.bump(match (case.local_idle_ms, remote_ms) {
        (0, 0) => "probe.idle.both_zero",
        (0, _) => "probe.idle.remote_only",
        (_, 0) => "probe.idle.local_only",
        (l, r) if l < r => "probe.idle.local_smaller",
        (l, r) if l > r => "probe.idle.remote_smaller",
        _ => "probe.idle.equal",
    });
    let got_ok = match (want, idle) {
        // "disabled" is exposed as an unbounded duration
        (None, Some(d)) => d == Duration::MAX || d == Duration::ZERO,
        (Some(ms), Some(d)) => d == Duration::from_millis(ms),
        (_, None) => false,
    };
    th.add(want.unwrap_or(u64::MAX));
    if !got_ok {
        out.violate("idle-negotiation", "negotiated_max_idle_timeout", format!("local {} ms, remote {remote_ms} ms: negotiated_max_idle_timeout() = {idle:?}, expected {want:?} ms", case.local_idle_ms), step);
        return;
    }

    // (3) the same through ArcIdleConfig, as qconnection::builder applies it, measured on the virtual clock
    let Some(remote_idle) = remote_idle else { return };
    let local = Duration::from_millis(case.local_idle_ms);
    let timer = match guarded(|| {
        let cfg = ArcIdleConfig::new(local, Duration::ZERO);
        cfg.negotiate_max_idle_timeout(remote_idle);
        let t = cfg.timer();
        t.on_rcvd(PacketContent::EffectivePayload);
        t
    }) {
        Ok(t) => t,
        Err(rec) => {
            out.violate("panic", rec.site(), format!("ArcIdleConfig: {} at {}", rec.message, rec.location), step);
            return;
        }
    };
    // the idle period starts at the first health check after `defer_idle_timeout` (0 here) has passed
    tokio::time::advance(Duration::from_millis(1)).await;
    let h0 = guarded(|| timer.health().is_ok());
    // probes one millisecond inside and outside the expected value; very large values are probed at a capped distance
    const CAP_MS: u64 = 1 << 40;
    let mut verdict: Result<(), String> = Ok(());
    if !matches!(h0, Ok(true)) {
        verdict = Err(format!("health() right after the last packet: {h0:?}"));
    } else {
        match want {
            None => {
                tokio::time::advance(Duration::from_millis(CAP_MS)).await;
                if !matches!(guarded(|| timer.health().is_ok()), Ok(true)) {
                    verdict = Err(format!("idle timeout disabled by both sides, but the path timed out after {CAP_MS} ms"));
                }
            }
            Some(ms) if ms >= 2 => {
                let before = (ms - 1).min(CAP_MS);
                tokio::time::advance(Duration::from_millis(before)).await;
                if !matches!(guarded(|| timer.health().is_ok()), Ok(true)) {
                    verdict = Err(format!("timed out {before} ms into the idle period, effective idle timeout should be {ms} ms"));
                } else if ms < CAP_MS {
                    tokio::time::advance(Duration::from_millis(2)).await;
                    if !matches!(guarded(|| timer.health().is_err()), Ok(true)) {
                        verdict = Err(format!("no timeout {} ms into the idle period, effective idle timeout should be {ms} ms", ms + 1));
                    }
                    out.stats.bump("probe.idle.timer_fired");
                } else {
                    out.stats.bump("probe.idle.timer_capped");
                }
            }
            Some(ms) => {
                tokio::time::advance(Duration::from_millis(ms + 1)).await;
                if !matches!(guarded(|| timer.health().is_err()), Ok(true)) {
                    verdict = Err(format!("no timeout {} ms into the idle period, effective idle timeout should be {ms} ms", ms + 1));
                }
                out.stats.bump("probe.idle.timer_fired");
            }
        }
    }
    if let Err(e) = verdict {
        out.violate("idle-negotiation", "ArcIdleConfig", format!("local {} ms, remote {remote_ms} ms: {e}", case.local_idle_ms), step);
    }
}
