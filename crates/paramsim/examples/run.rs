//! Stand-alone runner.
//! `run [runs]`            — `runs` seeded cases (default 20000); exit code 1 if anything was reported
//! `run replay <file>...`  — re-execute the `case` of replay files (or bare case files) and print the outcome
#[global_allocator]
static A: simcore::alloc::CountingAlloc = simcore::alloc::CountingAlloc;

fn main() {
    let args: Vec<String> = std::env::args().skip(1).collect();
    if args.first().map(|s| s.as_str()) == Some("replay") {
        let mut bad = 0;
        for f in &args[1..] {
            let text = std::fs::read_to_string(f).expect("read replay file");
            let v: serde_json::Value = serde_json::from_str(&text).expect("json");
            let case_v = if v.get("case").is_some() { v["case"].clone() } else { v.clone() };
            let case: paramsim::Case = serde_json::from_value(case_v).expect("case");
            let out = simcore::engine::execute_case(&paramsim::ParamSim, &case, v["run_seed"].as_u64().unwrap_or(0));
            println!("{f}: trace {:016x} harness_error={:?}", out.trace_hash, out.harness_error);
            for x in &out.violations {
                println!("  {} — {} (at {})", x.signature(), x.detail, x.at);
            }
            if out.violations.is_empty() {
                println!("  no violation");
            }
            if let Some(want) = v["violation"]["signature"].as_str() {
                if !out.violations.iter().any(|x| x.signature() == want) {
                    println!("  NOT REPRODUCED: wanted {want}");
                    bad += 1;
                }
            }
        }
        std::process::exit(if bad > 0 { 2 } else { 0 });
    }
    let runs: u64 = args.first().and_then(|s| s.parse().ok()).unwrap_or(20000);
    let n = simcore::selftest::run(&paramsim::ParamSim, "C18", runs, simcore::Tier::Quick);
    if n > 0 {
        std::process::exit(1);
    }
}
