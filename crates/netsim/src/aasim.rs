//! aasim — the anti-amplification budget of one unvalidated path at component level (C15).
//! The real `AntiAmplifier` and its `ArcSendWaker` are driven by a generated history of datagram arrivals, send
//! bursts, grants and aborts; the burst loop is scripted the way `Burst`/`Path::send_packets` use the type (credit
//! read before a datagram is assembled, bytes charged afterwards). Reference model: a signed integer budget.
use std::{future::Future, pin::pin, task::Poll};

use qbase::net::tx::{ArcSendWaker, Signals};
use qconnection::path::{AntiAmplifier, Constraints};
use serde::{Deserialize, Serialize};
use simcore::{Engine, Outcome, Rng, Tier, TraceHash, panics::guarded, wake::Task};

#[derive(Serialize, Deserialize, Clone, Debug, PartialEq)]
pub enum AaOp {
    /// a packet of `size` bytes arrives from the unvalidated address
    Rcvd { size: u32 },
    /// the send loop runs: up to `sizes.len()` datagrams, each cut to the credit read for it; `charge_each` =
    /// bytes are fed back before the next credit read (the documented contract), otherwise after the whole burst
    /// (what `Path::send_packets` does with a multi-datagram burst)
    Burst { sizes: Vec<u16>, charge_each: bool },
    /// one datagram assembled from several coalesced packets under the real `Constraints` (credit read once for the
    /// datagram, `constrain` before and `commit` after every packet): `parts` = (bytes the packet wants, whether it
    /// counts as in flight); the datagram must fit the credit whatever the packets carry
    Coalesced { parts: Vec<(u16, bool)>, quota: u32 },
    Grant,
    Abort,
    /// the send task parks on CREDIT if the budget is exhausted
    Park,
}

#[derive(Serialize, Deserialize, Clone, Debug)]
pub struct AaCase {
    pub ops: Vec<AaOp>,
}

pub struct AaSim;

#[derive(PartialEq, Clone, Copy, Debug)]
enum St {
    Normal,
    Granted,
    Aborted,
}

pub fn run(case: &AaCase) -> Outcome {
    let mut out = Outcome::default();
    let mut th = TraceHash::default();
    let waker = ArcSendWaker::new();
    let aa = AntiAmplifier::<3>::new(waker.clone());
    let (mut rcvd, mut sent): (i128, i128) = (0, 0);
    let mut st = St::Normal;
    let mut task = Task::new();
    let mut parked = false;
    // what `balance()` must answer
    let expect = |st: St, rcvd: i128, sent: i128| -> Result<Option<usize>, ()> {
        match st {
            St::Granted => Ok(Some(usize::MAX)),
            St::Aborted => Ok(None),
            St::Normal => {
                let c = 3 * rcvd - sent;
                if c > 0 { Ok(Some(c as usize)) } else { Err(()) }
            }
        }
    };
    let check_balance = |out: &mut Outcome, st: St, rcvd: i128, sent: i128, at: u64, whence: &str| -> Option<Result<Option<usize>, Signals>> {
        let got = match guarded(|| aa.balance()) {
            Ok(g) => g,
            Err(rec) => {
                out.violate("no-panic", rec.site(), format!("balance(): {} at {}", rec.message, rec.location), at);
                return None;
            }
        };
        let want = expect(st, rcvd, sent);
        let same = match (&got, &want) {
            (Ok(a), Ok(b)) => a == b,
            (Err(s), Err(())) => *s == Signals::CREDIT,
            _ => false,
        };
        if !same {
            let budget = 3 * rcvd - sent;
            let clause = match (&got, st) {
                (Ok(Some(g)), St::Normal) if (*g as i128) > budget.max(0) => "budget-exceeds-3x",
                (Ok(Some(_)), St::Normal) | (Err(_), St::Normal) => "budget-below-3x",
                _ => "state-answer",
            };
            out.violate(clause, whence.to_string(), format!("balance() = {got:?} with {rcvd} bytes received and {sent} sent in state {st:?} (3·rcvd − sent = {budget})"), at);
            return None;
        }
        Some(got)
    };

    for (step, op) in case.ops.iter().enumerate() {
        let at = step as u64;
        th.add(at);
        match op {
            AaOp::Rcvd { size } => {
                aa.on_rcvd(*size as usize);
                if st == St::Normal {
                    rcvd += *size as i128;
                }
                if parked && *size > 0 && st == St::Normal {
                    if !task.take_woken() {
                        out.violate("resume", "on-rcvd", "a send task parked on CREDIT was not woken by an arriving packet".to_string(), at);
                    }
                    parked = false;
                }
                out.stats.bump("op.rcvd");
            }
            AaOp::Grant | AaOp::Abort => {
                let grant = *op == AaOp::Grant;
                if grant { aa.grant() } else { aa.abort() }
                if st == St::Normal {
                    st = if grant { St::Granted } else { St::Aborted };
                    if parked {
                        if !task.take_woken() {
                            out.violate("resume", if grant { "grant" } else { "abort" }, "a send task parked on CREDIT was not woken".to_string(), at);
                        }
                        parked = false;
                    }
                    out.stats.bump(if grant { "fault.grant" } else { "fault.abort" });
                }
            }
            AaOp::Park => {
                let Some(b) = check_balance(&mut out, st, rcvd, sent, at, "park") else { break };
                if b.is_err() {
                    let mut f = pin!(waker.wait_for(Signals::CREDIT));
                    match task.poll_pin(f.as_mut()) {
                        Poll::Pending => {
                            parked = true;
                            task.take_woken();
                            out.stats.bump("probe.parked_on_credit");
                        }
                        Poll::Ready(()) => {
                            // a signal left over from an earlier arrival: the loop simply re-evaluates
                            out.stats.bump("probe.stale_credit_signal");
                        }
                    }
                }
            }
            AaOp::Coalesced { parts, quota } => {
                let Some(b) = check_balance(&mut out, st, rcvd, sent, at, "coalesced") else { break };
                let credit = match b {
                    Err(_) | Ok(None) => continue,
                    Ok(Some(c)) => c,
                };
                let mut c = Constraints::new(credit, *quota as usize);
                let mut datagram = 0usize;
                for (want, in_flight) in parts {
                    if !c.is_available() {
                        break;
                    }
                    // a packet that is not in flight (ACK / padding only) is not bound by the congestion quota
                    // what `Constraints` lets this packet have: an in-flight packet is bound by credit and congestion
                    // quota, one that only carries ACK / padding by the credit alone (burst.rs asks `is_available`)
                    let room = if *in_flight {
                        let mut buf = vec![0u8; 1500];
                        c.constrain(&mut buf[..]).len()
                    } else {
                        // the remaining credit is not exposed: probe it through a copy with an unlimited quota
                        let mut probe = c;
                        probe.commit(0, false);
                        let mut lo = 0usize;
                        let mut hi = 1500usize;
                        // largest n such that committing n leaves the constraints available or exactly uses them up
                        while lo < hi {
                            let mid = (lo + hi + 1) / 2;
                            let mut t = c;
                            t.commit(mid - 1, false);
                            if t.is_available() { lo = mid } else { hi = mid - 1 }
                        }
                        lo
                    };
                    let len = (*want as usize).min(room);
                    if len == 0 {
                        continue;
                    }
                    c.commit(len, *in_flight);
                    datagram += len;
                }
                th.add(datagram as u64);
                if datagram > credit && st == St::Normal {
                    out.violate("budget-exceeds-3x", "coalesced-datagram", format!("a datagram of {datagram} bytes was assembled from {parts:?} against {credit} bytes of credit"), at);
                    break;
                }
                if datagram > 0 {
                    aa.on_sent(datagram);
                    if st == St::Normal {
                        sent += datagram as i128;
                    }
                    out.stats.bump("op.coalesced_datagram_sent");
                }
            }
            AaOp::Burst { sizes, charge_each } => {
                let mut total: i128 = 0;
                let mut budget_at_start: Option<i128> = None;
                let mut stop = false;
                for want in sizes {
                    let Some(b) = check_balance(&mut out, st, rcvd, sent, at, "burst") else {
                        stop = true;
                        break;
                    };
                    let credit = match b {
                        Err(_) | Ok(None) => break,
                        Ok(Some(c)) => c,
                    };
                    if budget_at_start.is_none() && st == St::Normal {
                        budget_at_start = Some(credit as i128);
                    }
                    let len = (*want as usize).min(credit).max(1).min(credit);
                    if len == 0 {
                        break;
                    }
                    th.add(len as u64);
                    if *charge_each {
                        aa.on_sent(len);
                        if st == St::Normal {
                            sent += len as i128;
                        }
                    } else {
                        total += len as i128;
                    }
                    out.stats.bump("op.datagram_sent");
                }
                if stop {
                    break;
                }
                if !*charge_each && total > 0 {
                    aa.on_sent(total as usize);
                    if st == St::Normal {
                        let budget = budget_at_start.unwrap_or(0);
                        if total > budget {
                            // the burst overdrew the budget; what must never happen now is an unlimited allowance
                            out.stats.bump("probe.burst_overdrew_budget");
                            match guarded(|| aa.balance()) {
                                Ok(Ok(Some(c))) if (c as i128) > 3 * rcvd => {
                                    out.violate("budget-underflow", "on_sent", format!("after a burst of {total} bytes against a budget of {budget}, balance() = Some({c}): the subtraction wrapped into an effectively unlimited allowance ({rcvd} bytes received in total)"), at);
                                    break;
                                }
                                Ok(Ok(Some(c))) => {
                                    out.violate("budget-exceeds-3x", "after-overdraw", format!("after a burst of {total} bytes against a budget of {budget}, balance() = Some({c})"), at);
                                    break;
                                }
                                Ok(_) => {}
                                Err(rec) => {
                                    out.violate("no-panic", rec.site(), format!("balance(): {} at {}", rec.message, rec.location), at);
                                    break;
                                }
                            }
                            // a saturating implementation: the debt is forgiven, the model follows
                            sent = 3 * rcvd;
                        } else {
                            sent += total;
                        }
                    }
                }
            }
        }
    }
    if !out.failed() {
        let _ = check_balance(&mut out, st, rcvd, sent, case.ops.len() as u64, "final");
    }
    th.add(rcvd as u64);
    th.add(sent as u64);
    out.trace_hash = th.get();
    out.nontrivial = out.stats.get("op.datagram_sent") > 0 && out.stats.get("op.rcvd") > 1;
    out
}

impl Engine for AaSim {
    type Case = AaCase;
    fn name(&self) -> &'static str {
        "aasim"
    }
    fn components_real(&self) -> Vec<&'static str> {
        vec!["qconnection::path::AntiAmplifier<3>", "qbase::net::tx::ArcSendWaker (CREDIT signal)"]
    }
    fn components_stub(&self) -> Vec<&'static str> {
        vec!["the burst loop (scripted: credit read per datagram, bytes charged per datagram or per burst)", "the receive path (sizes handed over directly)", "the send task (manual polling with a counting waker)"]
    }
    fn generate(&self, _index: u64, seed: u64, _tier: Tier) -> AaCase {
        let mut r = Rng::derive(seed, "aa");
        let n = r.range(1, 30) as usize;
        let overdraw = r.one_in(4);
        let mut ops = Vec::new();
        for _ in 0..n {
            ops.push(match r.below(10) {
                0..=3 => AaOp::Rcvd { size: match r.below(6) { 0 => 0, 1 => 1, 2 => 1200, 3 => r.range(1, 100) as u32, _ => r.range(20, 1452) as u32 } },
                4..=6 => {
                    let k = r.range(1, 5) as usize;
                    AaOp::Burst { sizes: (0..k).map(|_| *r.pick(&[1u16, 40, 300, 1200, 1452])).collect(), charge_each: !(overdraw && r.one_in(2)) }
                }
                7 => AaOp::Park,
                8 => {
                    if r.one_in(2) {
                        AaOp::Park
                    } else {
                        let k = r.range(1, 3) as usize;
                        AaOp::Coalesced { parts: (0..k).map(|_| (*r.pick(&[29u16, 45, 150, 600, 1200]), !r.one_in(3))).collect(), quota: *r.pick(&[0u32, 100, 1200, 12_000]) }
                    }
                }
                _ => {
                    if r.one_in(4) {
                        if r.one_in(3) { AaOp::Abort } else { AaOp::Grant }
                    } else {
                        AaOp::Rcvd { size: r.range(1, 1452) as u32 }
                    }
                }
            });
        }
        AaCase { ops }
    }
    fn execute(&self, case: &AaCase) -> Outcome {
        run(case)
    }
    fn shrink(&self, case: &AaCase) -> Vec<AaCase> {
        let mut v = Vec::new();
        let n = case.ops.len();
        if n > 1 {
            v.push(AaCase { ops: case.ops[..n / 2].to_vec() });
            v.push(AaCase { ops: case.ops[n / 2..].to_vec() });
        }
        for i in 0..n {
            let mut c = case.clone();
            c.ops.remove(i);
            v.push(c);
        }
        v
    }
}

#[allow(dead_code)]
fn _assert_future<F: Future>(_: &F) {}
