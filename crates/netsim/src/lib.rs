//! netsim — the whole client/server stack (dquic → qconnection → qrecovery/qcongestion/qbase,
//! rustls+ring) on tokio's paused clock over `SimNet`. One seed = one execution.
pub mod app;
pub mod net;
pub mod oracles;
pub mod qlogcap;
pub mod aasim;
pub mod pathsim;
pub mod protsim;

use std::{
    collections::BTreeMap,
    sync::{Arc, Mutex, Once},
};

use serde::{Deserialize, Serialize};
use simcore::{Engine, Outcome, Rng, Tier, TraceHash};

pub use crate::net::{Fault, NetCfg, Tape};

#[derive(Clone, Copy, Debug, Serialize, Deserialize, PartialEq, Eq)]
pub enum Side {
    Client,
    Server,
}

#[derive(Clone, Copy, Debug, Serialize, Deserialize, PartialEq)]
pub enum Profile {
    /// faults stop at a drawn ordinal and are survivable by construction: liveness is judged
    Bounded,
    /// faults never stop (up to blackhole): safety + bounded failure are judged
    Unbounded,
}

#[derive(Clone, Debug, Serialize, Deserialize)]
pub struct ParamCfg {
    pub max_data: u32,
    pub stream_bidi_local: u32,
    pub stream_bidi_remote: u32,
    pub stream_uni: u32,
    pub streams_bidi: u32,
    pub streams_uni: u32,
    pub idle_ms: u32,
    pub max_datagram: u32,
    pub active_cid_limit: u32,
}

#[derive(Clone, Debug, Serialize, Deserialize)]
pub struct StreamSpec {
    pub opener: Side,
    pub bidi: bool,
    pub size: u32,
    pub chunk: u32,
    /// bidi only: the acceptor's response
    pub resp_size: u32,
    pub resp_chunk: u32,
    pub read_buf: u32,
    /// opener resets the stream after writing this many bytes
    pub reset_after: Option<u32>,
    /// acceptor stops reading (STOP_SENDING) after this many bytes
    pub stop_after: Option<u32>,
    /// an interactive writer: virtual milliseconds it waits between two chunks (0 = writes as fast as it can), so that
    /// its data leaves in many small frames spread over time instead of a few full packets
    #[serde(default)]
    pub gap_ms: u32,
}

#[derive(Clone, Debug, Serialize, Deserialize)]
pub struct DgramSpec {
    pub side: Side,
    pub sizes: Vec<u32>,
    /// virtual ms between sends
    pub gap_ms: u32,
}

#[derive(Clone, Copy, Debug, Serialize, Deserialize, PartialEq)]
pub enum CloseKind {
    /// after the workload completed the client closes (default)
    AfterWorkload,
    /// `who` calls close() at `at_ms` of virtual time, whatever is pending
    At { who: Side, at_ms: u32 },
    /// both sides call close() at the same virtual instant
    Both { at_ms: u32 },
    /// nobody closes: the connection has to idle out
    Idle,
}

#[derive(Clone, Copy, Debug, Serialize, Deserialize, PartialEq)]
pub enum QlogMode {
    Noop,
    Capture,
    CaptureRaw,
    Filtered,
    DiscardAll,
    Legacy,
    /// the shipped LegacySeqLogger writing to a sink that fails (short write, then errors) after a seed-drawn number
    /// of bytes: the logger's writer task ends mid-connection, events keep being emitted
    LegacyFailing,
}

#[derive(Clone, Debug, Serialize, Deserialize)]
pub struct Case {
    pub seed: u64,
    pub profile: Profile,
    pub net: NetCfg,
    pub tape: Tape,
    pub client: ParamCfg,
    pub server: ParamCfg,
    pub streams: Vec<StreamSpec>,
    pub dgrams: Vec<DgramSpec>,
    pub close: CloseKind,
    pub qlog: QlogMode,
    /// hard cap on virtual time, ms
    pub cap_ms: u32,
    /// serve the RSA chain (first server flight larger than 3 x 1200 bytes)
    #[serde(default)]
    pub big_cert: bool,
    /// operations parked on the connection when it closes or fails (C17)
    #[serde(default)]
    pub hangers: Vec<Hanger>,
}

#[derive(Clone, Copy, Debug, Serialize, Deserialize, PartialEq)]
pub enum HangKind {
    AcceptBi,
    AcceptUni,
    DgramRecv,
    Handshaked,
    Terminated,
    /// open streams until the peer's limit blocks
    OpenBiUntilBlocked,
    OpenUniUntilBlocked,
}

#[derive(Clone, Copy, Debug, Serialize, Deserialize, PartialEq)]
pub struct Hanger {
    pub side: Side,
    pub kind: HangKind,
}

#[derive(Clone, Copy, Debug, PartialEq)]
pub enum Mode {
    C02,
    C06,
    C07,
    C15,
    C17,
    C19,
    C20,
}

impl Mode {
    /// oracle clauses judged by the property this mode serves
    pub fn clauses(&self) -> &'static [&'static str] {
        match self {
            Mode::C02 => &["no-panic", "read-implies-written", "eof-only-at-final-size", "write-accounting", "unexpected-conn-error", "liveness-handshake", "liveness-transfer", "bounded-failure", "no-progress", "tampered-not-accepted", "no-duplicate-pn-accepted"],
            Mode::C07 => &["no-panic", "pn-reuse", "pn-not-increasing"],
            Mode::C06 => &["no-panic", "roundtrip-frames", "corrupt-accepted", "replay-accepted", "liveness-handshake", "liveness-transfer", "unexpected-conn-error"],
            Mode::C15 => &["no-panic", "over-3x", "resume"],
            Mode::C17 => &["no-panic", "pending-not-released", "ok-after-close", "error-changed", "state-regressed", "data-after-close", "idle-early", "idle-late", "idle-disabled-fired", "close-not-terminated"],
            Mode::C20 => &["no-panic", "observational", "schema", "roundtrip"],
            Mode::C19 => &["no-panic", "refusal", "frame-count", "payload", "order", "oversize-accepted", "not-on-wire", "unexpected-conn-error"],
        }
    }
}

pub struct NetSim {
    pub mode: Mode,
}

thread_local! {
    /// (wire hash, application trace hash) of the last execution on this thread
    pub static LAST_HASHES: std::cell::Cell<(u64, u64)> = const { std::cell::Cell::new((0, 0)) };
    /// application trace without completion times: per actor the sequence of (operation, result class, bytes)
    pub static LAST_UNTIMED: std::cell::Cell<u64> = const { std::cell::Cell::new(0) };
}

static INIT: Once = Once::new();

pub fn process_init_pub() {
    process_init()
}

fn process_init() {
    INIT.call_once(|| {
        // Everything here runs on a throw-away thread, so that the thread-local state of the calling thread (its seeded
        // entropy stream, std's RandomState keys) is exactly what it is for every later run.
        let _ = std::thread::Builder::new().stack_size(8 << 20).spawn(|| {
            simcore::entropy::seed_thread_entropy(0x5eed_0000_0000_0001);
            // Devices::global() spawns a 5 s interval task on the current runtime and starts an OS watcher
            // thread: force it once on a throw-away runtime so no simulated runtime ever hosts its timer.
            let rt = tokio::runtime::Builder::new_current_thread().enable_all().build().unwrap();
            rt.block_on(async {
                let _ = dquic::qinterface::device::Devices::global();
            });
            drop(rt);
            // One throw-away simulated connection: everything that initialises itself once per process on first use
            // (ring's and getrandom's availability probes, which draw from the seeded entropy of whichever thread comes
            // first; rustls' provider; lazy statics of the stack) has then done so before any judged run. Without it the
            // first run of a process could differ from every later run of the same seed (DESIGN 11.6).
            let warm = NetSim { mode: Mode::C02 }.generate(0, 0x5eed_0000_0000_0001, simcore::Tier::Quick);
            let _ = run_case(&warm, Mode::C02);
        }).map(|h| h.join());
    });
}

pub fn default_params(idle_ms: u32) -> ParamCfg {
    ParamCfg {
        max_data: 1 << 20,
        stream_bidi_local: 1 << 20,
        stream_bidi_remote: 1 << 20,
        stream_uni: 1 << 20,
        streams_bidi: 100,
        streams_uni: 100,
        idle_ms,
        max_datagram: 0,
        active_cid_limit: 10,
    }
}

fn gen_params(r: &mut Rng, idle_choices: &[u32], need_bidi: u32, need_uni: u32) -> ParamCfg {
    let win = [100u32, 1200, 4096, 65536, 1 << 20];
    let cnt = |r: &mut Rng, need: u32| {
        if need == 0 { *r.pick(&[0u32, 1, 3, 100]) } else { *r.pick(&[1u32, 2, 3, 100]) }
    };
    if r.one_in(3) {
        let mut p = default_params(*r.pick(idle_choices));
        p.max_datagram = *r.pick(&[0u32, 1200, 65535]);
        return p;
    }
    ParamCfg {
        max_data: *r.pick(&win),
        stream_bidi_local: *r.pick(&win),
        stream_bidi_remote: *r.pick(&win),
        stream_uni: *r.pick(&win),
        streams_bidi: cnt(r, need_bidi),
        streams_uni: cnt(r, need_uni),
        idle_ms: *r.pick(idle_choices),
        max_datagram: *r.pick(&[0u32, 100, 1200, 65535]),
        active_cid_limit: *r.pick(&[2u32, 4, 8, 10]),
    }
}

/// Cap the number of consecutive destroyed datagrams per direction at `max_run` (survivable profiles).
fn cap_destruction_runs(entries: &mut BTreeMap<u32, Fault>, max_run: u32) {
    let destroys = |f: &Fault| matches!(f, Fault::Drop | Fault::Truncate { .. } | Fault::FlipBit { .. });
    let keys: Vec<u32> = entries.keys().copied().collect();
    let mut run = 0;
    let mut prev: Option<u32> = None;
    for k in keys {
        let d = destroys(&entries[&k]);
        if d && prev.is_some_and(|p| p + 1 == k) {
            run += 1;
        } else if d {
            run = 1;
        } else {
            run = 0;
        }
        if d && run > max_run {
            entries.remove(&k);
            run = 0;
            prev = None;
            continue;
        }
        prev = if d { Some(k) } else { None };
    }
}

pub fn gen_tape(r: &mut Rng, profile: Profile, allow_sweep: bool) -> Tape {
    let mut tape = Tape::default();
    // swarm: each fault kind enabled with p = 0.5, log-uniform rate
    let rate = |r: &mut Rng, hi: f64| if r.one_in(2) { r.log_uniform(0.002, hi) } else { 0.0 };
    let (p_drop, p_dup, p_delay, p_trunc, p_flip, p_garb) = match profile {
        Profile::Bounded => (rate(r, 0.3), rate(r, 0.2), rate(r, 0.3), rate(r, 0.05), rate(r, 0.05), rate(r, 0.05)),
        Profile::Unbounded => (rate(r, 0.9), rate(r, 0.5), rate(r, 0.5), rate(r, 0.5), rate(r, 0.5), rate(r, 0.3)),
    };
    let horizon = match profile {
        Profile::Bounded => r.range(5, 400) as u32,
        Profile::Unbounded => 6000,
    };
    for dir in 0..2 {
        for ord in 0..horizon {
            let f = if r.chance(p_drop) {
                Fault::Drop
            } else if r.chance(p_dup) {
                Fault::Dup { copies: r.range(1, 3) as u8, gap_ms: *r.pick(&[0u32, 1, 20, 300]) }
            } else if r.chance(p_delay) {
                Fault::Delay { ms: *r.pick(&[1u32, 5, 30, 120, 500, 2000]) }
            } else if r.chance(p_trunc) {
                Fault::Truncate { len: r.below(1300) as u16 }
            } else if r.chance(p_flip) {
                Fault::FlipBit { pos: r.next_u64() as u32 }
            } else if r.chance(p_garb) {
                // a corrupted copy of the client's first Initial racing the original from *another* address can wedge
                // the handshake (RFC 9000 21.2 accepts handshake disruption by on-path attackers): unbounded only
                Fault::Garbage { kind: if profile == Profile::Bounded { *r.pick(&[0u8, 1, 3]) } else { r.below(4) as u8 } }
            } else {
                continue;
            };
            tape.entries[dir].insert(ord, f);
        }
        if profile == Profile::Bounded {
            cap_destruction_runs(&mut tape.entries[dir], 2);
        }
    }
    if profile == Profile::Bounded && r.one_in(6) {
        // one short outage: a burst of delays (not drops) in one direction
        let dir = r.usize_below(2);
        let from = r.below(horizon as u64) as u32;
        for o in from..from + r.range(2, 6) as u32 {
            tape.entries[dir].insert(o, Fault::Delay { ms: r.range(200, 1000) as u32 });
        }
    }
    if profile == Profile::Bounded && r.one_in(3) {
        // a stall: one direction holds 5..40 consecutive datagrams for 150..1500 ms (a queue that builds up and
        // drains, a route change). Everything in flight towards it is declared lost by time although it arrives:
        // spurious loss reports, merged retransmissions, then late acknowledgements of the originals — the histories
        // in which send-buffer recolouring and loss/ack bookkeeping interact. Entries already on the tape (drops,
        // duplicates) stay, so some originals and some retransmissions are really lost.
        let dir = r.usize_below(2);
        let from = r.below(horizon as u64 + 20) as u32;
        let hold = r.range(150, 1500) as u32;
        // half of the stalls also lose every other datagram or so of the held ones (never two in a row, so the
        // profile stays survivable): the late acknowledgements then have holes
        let lossy = r.one_in(2);
        for o in from..from + r.range(5, 40) as u32 {
            let f = if lossy && (o - from) % 2 == 1 && r.one_in(2) { Fault::Drop } else { Fault::Delay { ms: hold } };
            tape.entries[dir].entry(o).or_insert(f);
        }
        if lossy {
            cap_destruction_runs(&mut tape.entries[dir], 2);
        }
    }
    if allow_sweep && r.one_in(4) {
        let dir = r.usize_below(2);
        tape.entries[dir].insert(r.below(12) as u32, Fault::FlipSweep);
    }
    if profile == Profile::Unbounded {
        match r.below(4) {
            0 => tape.blackhole_from[r.usize_below(2)] = Some(r.below(60) as u32),
            1 => {
                let at = r.below(60) as u32;
                tape.blackhole_from = [Some(at), Some(at)];
            }
            _ => {}
        }
    }
    tape
}

/// Number of window round trips the workload needs in the worse direction: with a window of W bytes the
/// receiver re-opens it at best once per RTT, so `bytes / W` round trips are unavoidable.
pub fn window_rounds(case_streams: &[StreamSpec], client: &ParamCfg, server: &ParamCfg) -> u64 {
    let mut rounds = [0u64; 2]; // data flowing client->server, server->client
    let mut conn_bytes = [0u64; 2];
    for s in case_streams {
        // (bytes, direction, window advertised by the receiver for that stream kind)
        let (fwd_dir, rcv, snd) = if s.opener == Side::Client { (0, server, client) } else { (1, client, server) };
        let fwd_win = if s.bidi { rcv.stream_bidi_remote } else { rcv.stream_uni };
        rounds[fwd_dir] += (s.size as u64).div_ceil(fwd_win.max(1) as u64);
        conn_bytes[fwd_dir] += s.size as u64;
        if s.bidi {
            let back_win = snd.stream_bidi_local;
            rounds[1 - fwd_dir] += (s.resp_size as u64).div_ceil(back_win.max(1) as u64);
            conn_bytes[1 - fwd_dir] += s.resp_size as u64;
        }
    }
    let conn = [conn_bytes[0].div_ceil(server.max_data.max(1) as u64), conn_bytes[1].div_ceil(client.max_data.max(1) as u64)];
    rounds[0].max(rounds[1]).max(conn[0]).max(conn[1])
}

pub fn gen_streams(r: &mut Rng, max_streams: u64, max_size: u32) -> Vec<StreamSpec> {
    let n = r.range(0, max_streams);
    let size = |r: &mut Rng| match r.below(10) {
        0 => 0,
        1 => 1,
        2..=4 => r.range(1, 4096) as u32,
        5..=7 => r.range(1, 30_000) as u32,
        _ => r.range(1, max_size as u64) as u32,
    };
    // byte-wise writes make SendBuf::written() (linear in the number of buffered chunks) quadratic: keep
    // tiny chunks and tiny read buffers for small streams only, the simulator explores schedules, not speed
    let chunk = |r: &mut Rng, sz: u32| if sz <= 2000 { *r.pick(&[1u32, 100, 1200, 4096, 65536]) } else { *r.pick(&[100u32, 1200, 4096, 65536]) };
    (0..n)
        .map(|_| {
            let sz = size(r);
            let rsz = size(r);
            StreamSpec {
                opener: if r.one_in(2) { Side::Client } else { Side::Server },
                bidi: !r.one_in(3),
                size: sz,
                chunk: chunk(r, sz),
                resp_size: rsz,
                resp_chunk: chunk(r, rsz),
                read_buf: if sz.max(rsz) <= 4000 { *r.pick(&[1u32, 7, 1000, 4096, 65536]) } else { *r.pick(&[1000u32, 4096, 65536]) },
                reset_after: None,
                stop_after: None,
                gap_ms: 0,
            }
        })
        .collect()
}

/// one stream in four of those written in at most 200 chunks of at most 1200 bytes becomes an interactive writer
pub fn pace_streams(r: &mut Rng, streams: &mut [StreamSpec]) {
    for s in streams.iter_mut() {
        let chunks = s.size.div_ceil(s.chunk.max(1)).max(s.resp_size.div_ceil(s.resp_chunk.max(1)));
        if s.chunk <= 1200 && s.resp_chunk <= 1200 && chunks <= 200 && chunks >= 3 && r.one_in(4) {
            s.gap_ms = *r.pick(&[1u32, 5, 20, 100]);
        }
    }
}

/// virtual time the interactive writers spend waiting (added to every liveness budget)
pub fn paced_ms(streams: &[StreamSpec]) -> u64 {
    streams.iter().map(|s| (s.size.div_ceil(s.chunk.max(1)) as u64 + s.resp_size.div_ceil(s.resp_chunk.max(1)) as u64) * s.gap_ms as u64).sum()
}

impl Engine for NetSim {
    type Case = Case;
    fn name(&self) -> &'static str {
        match self.mode {
            Mode::C02 => "netsim",
            Mode::C06 => "netsim-sweep",
            Mode::C07 => "netsim-pn",
            Mode::C15 => "netsim-amplification",
            Mode::C17 => "netsim-close",
            Mode::C19 => "netsim-datagram",
            Mode::C20 => "netsim-qlog-differential",
        }
    }
    fn fresh_thread(&self) -> bool {
        true
    }
    fn wall_limit(&self) -> std::time::Duration {
        std::time::Duration::from_secs(240)
    }
    fn components_real(&self) -> Vec<&'static str> {
        vec![
            "dquic::{QuicClient, QuicListeners}", "qconnection (spaces, paths, burst, tls, termination)", "qrecovery (streams, journals, crypto)",
            "qcongestion (NewReno, RTT, pacer, loss detection, PTO)", "qbase (frames, packets, cids, flow, params)",
            "qinterface (InterfaceManager, QuicRouter, components)", "qtraversal::route receive loop", "rustls + ring", "tokio current_thread runtime, paused clock, seeded select!",
        ]
    }
    fn components_stub(&self) -> Vec<&'static str> {
        vec!["UDP sockets (SimIo/SimNet)", "DNS (connected_to_with_source)", "device monitor (inert for inet:// URIs)", "STUN / NAT traversal (off)"]
    }

    fn generate(&self, _index: u64, seed: u64, _tier: Tier) -> Case {
        let mut r = Rng::derive(seed, "cfg");
        let profile = match self.mode {
            Mode::C02 | Mode::C07 => if r.one_in(4) { Profile::Unbounded } else { Profile::Bounded },
            Mode::C06 | Mode::C15 | Mode::C19 => Profile::Bounded,
            Mode::C20 => if r.one_in(4) { Profile::Unbounded } else { Profile::Bounded },
            Mode::C17 => if r.one_in(5) { Profile::Unbounded } else { Profile::Bounded },
        };
        let mut w = Rng::derive(seed, "workload");
        let big = w.one_in(4);
        let streams = gen_streams(&mut w, 6, if big { 262_144 } else { 40_000 });
        let need = |side: Side, bidi: bool| streams.iter().filter(|s| s.opener == side && s.bidi == bidi).count() as u32;
        // the *peer* of the opener advertises the limit
        let idle: &[u32] = match profile {
            Profile::Bounded => &[30_000, 60_000],
            Profile::Unbounded => &[1_000, 5_000, 30_000],
        };
        let client = gen_params(&mut r, idle, need(Side::Server, true), need(Side::Server, false));
        let server = gen_params(&mut r, idle, need(Side::Client, true), need(Side::Client, false));
        // keep the unavoidable number of flow-control round trips bounded so runs stay short
        let mut streams = streams;
        while window_rounds(&streams, &client, &server) > 120 {
            for s in streams.iter_mut() {
                s.size /= 2;
                s.resp_size /= 2;
            }
        }
        {
            let mut pr = Rng::derive(seed, "pacing");
            pace_streams(&mut pr, &mut streams);
        }
        let lat = [r.range(1, 200) as u32, r.range(1, 200) as u32];
        let net = NetCfg {
            latency_ms: lat,
            jitter_ms: *r.pick(&[0u32, 0, 1, 10, 50]),
            bandwidth: *r.pick(&[0u32, 0, 20, 125, 1250]),
            queue_bytes: *r.pick(&[8_000u32, 30_000, 200_000]),
            jitter_seed: r.next_u64(),
        };
        let mut f = Rng::derive(seed, "faults");
        let mut tape = gen_tape(&mut f, profile, false);
        let mut big_cert = false;
        let mut close = CloseKind::AfterWorkload;
        let mut hangers = Vec::new();
        let mut dgrams = Vec::new();
        let mut client = client;
        let mut server = server;
        match self.mode {
            Mode::C02 | Mode::C07 => {}
            Mode::C20 => {
                // lifetimes with handshake, transfer, loss, close at a drawn time or idle expiry, path loss
                close = match f.below(4) {
                    0 => CloseKind::At { who: if f.one_in(2) { Side::Client } else { Side::Server }, at_ms: f.below(3_000) as u32 },
                    1 => CloseKind::Idle,
                    _ => CloseKind::AfterWorkload,
                };
                if close == CloseKind::Idle {
                    client.idle_ms = *f.pick(&[1_000u32, 5_000]);
                }
            }
            Mode::C17 => {
                // idle timeouts drawn small so that idle expiry is reachable; 0 = disabled
                let idle = [0u32, 1_000, 5_000, 30_000];
                client.idle_ms = *f.pick(&idle);
                server.idle_ms = *f.pick(&idle);
                if profile == Profile::Unbounded {
                    // path loss: everything from a drawn ordinal on is dropped, in one or both directions
                    tape = Tape::default();
                    let at = f.below(80) as u32;
                    match f.below(3) {
                        0 => tape.blackhole_from = [Some(at), Some(at)],
                        1 => tape.blackhole_from[0] = Some(at),
                        _ => tape.blackhole_from[1] = Some(at),
                    }
                    if client.idle_ms == 0 && server.idle_ms == 0 {
                        client.idle_ms = 5_000;
                    }
                } else if f.one_in(2) {
                    tape = Tape::default();
                }
                let at = match f.below(6) {
                    0 => 0,
                    1 => f.below(50) as u32,
                    2 => f.below(400) as u32,
                    3 => f.below(2_000) as u32,
                    _ => f.below(10_000) as u32,
                };
                close = match f.below(10) {
                    0..=3 => CloseKind::At { who: if f.one_in(2) { Side::Client } else { Side::Server }, at_ms: at },
                    4..=5 => CloseKind::Both { at_ms: at },
                    6..=7 => CloseKind::Idle,
                    _ => CloseKind::AfterWorkload,
                };
                if profile == Profile::Unbounded {
                    close = CloseKind::Idle;
                }
                let kinds = [HangKind::AcceptBi, HangKind::AcceptUni, HangKind::DgramRecv, HangKind::Handshaked, HangKind::Terminated, HangKind::OpenBiUntilBlocked, HangKind::OpenUniUntilBlocked];
                for side in [Side::Client, Side::Server] {
                    for k in kinds {
                        if f.one_in(2) {
                            hangers.push(Hanger { side, kind: k });
                        }
                    }
                }
                client.max_datagram = *f.pick(&[0u32, 1200]);
                server.max_datagram = *f.pick(&[0u32, 1200]);
            }
            Mode::C19 => {
                client.max_datagram = *f.pick(&[0u32, 1, 2, 100, 1200, 65535]);
                server.max_datagram = *f.pick(&[0u32, 1, 2, 100, 1200, 65535]);
                let loss_free = f.one_in(2);
                if loss_free {
                    tape = Tape::default();
                }
                for side in [Side::Client, Side::Server] {
                    if f.one_in(4) {
                        continue;
                    }
                    let peer_max = if side == Side::Client { server.max_datagram } else { client.max_datagram };
                    let n = f.range(1, 12);
                    let sizes = (0..n)
                        .map(|_| match f.below(6) {
                            0 => 0,
                            1 => peer_max.saturating_sub(1).min(1300),
                            2 => peer_max.min(1300),
                            3 => (peer_max + 1).min(1300),
                            4 => f.below(1300) as u32,
                            _ => f.below(200) as u32,
                        })
                        .collect();
                    dgrams.push(DgramSpec { side, sizes, gap_ms: *f.pick(&[0u32, 1, 20, 300]) });
                }
                // leave the datagrams time to travel before anybody closes
                close = CloseKind::At { who: Side::Client, at_ms: 12_000 };
            }
            Mode::C06 => {
                // 1..3 sweeps on drawn in-flight datagrams: early ordinals hit Initial / Handshake / coalesced
                // datagrams, later ones 1-RTT packets of whatever pn length the encoder picked
                for _ in 0..f.range(1, 3) {
                    let dir = f.usize_below(2);
                    let ord = if f.one_in(2) { f.below(6) } else { f.below(60) } as u32;
                    tape.entries[dir].insert(ord, Fault::FlipSweep);
                }
                big_cert = f.one_in(3);
            }
            Mode::C15 => {
                // the server must have to retransmit while the client's address is still unvalidated: lose the
                // client's second flight a drawn number of times, vary what the server has received so far
                big_cert = !f.one_in(4);
                let losses = f.range(0, 6) as u32;
                for o in 1..=losses {
                    tape.entries[net::C2S].insert(o, if f.one_in(3) { Fault::Truncate { len: f.below(1200) as u16 } } else { Fault::Drop });
                }
                if f.one_in(2) {
                    tape.entries[net::C2S].insert(0, Fault::Dup { copies: f.range(1, 2) as u8, gap_ms: *f.pick(&[0u32, 5, 100]) });
                }
                if f.one_in(3) {
                    tape.entries[net::S2C].insert(f.below(4) as u32, Fault::Drop);
                }
                // a NAT rebinding after the handshake: the server sees the connection's packets arrive from a new
                // address, which it must treat as unvalidated (3x) until path validation completes
                if f.one_in(2) {
                    tape.rebind_from = Some(f.range(12, 80) as u32);
                    // the server has bulk data to send after the rebinding
                    let n_uni = streams.iter().filter(|s| s.opener == Side::Server && !s.bidi).count() as u32;
                    client.streams_uni = client.streams_uni.max(n_uni + 1);
                    client.stream_uni = client.stream_uni.max(65_536);
                    client.max_data = client.max_data.max(65_536);
                    streams.push(StreamSpec { opener: Side::Server, bidi: false, size: 60_000, chunk: 1200, resp_size: 0, resp_chunk: 1200, read_buf: 4096, reset_after: None, stop_after: None, gap_ms: 0 });
                }
            }
        }
        Case {
            seed,
            profile,
            net,
            tape,
            client,
            server,
            streams,
            dgrams,
            close,
            qlog: if !matches!(self.mode, Mode::C02 | Mode::C19) || std::env::var("NETSIM_FORCE_CAPTURE").is_ok() { QlogMode::Capture } else { QlogMode::Noop },
            cap_ms: 300_000,
            big_cert,
            hangers,
        }
    }

    fn execute(&self, case: &Case) -> Outcome {
        process_init();
        let mut out = if self.mode == Mode::C20 { run_differential(case) } else { run_case(case, self.mode) };
        let clauses = self.mode.clauses();
        if std::env::var("NETSIM_ALL_CLAUSES").is_err() {
            out.violations.retain(|v| clauses.contains(&v.clause.as_str()));
        }
        out
    }

    fn shrink(&self, case: &Case) -> Vec<Case> {
        let mut v = Vec::new();
        if case.tape.rebind_from.is_some() {
            let mut c = case.clone();
            c.tape.rebind_from = None;
            v.push(c);
        }
        // 1. drop halves of the tape, then single entries
        for dir in 0..2 {
            let keys: Vec<u32> = case.tape.entries[dir].keys().copied().collect();
            if keys.len() > 1 {
                for half in 0..2 {
                    let mut c = case.clone();
                    for (i, k) in keys.iter().enumerate() {
                        if (i < keys.len() / 2) == (half == 0) {
                            c.tape.entries[dir].remove(k);
                        }
                    }
                    v.push(c);
                }
            }
        }
        for dir in 0..2 {
            for k in case.tape.entries[dir].keys().rev().take(40) {
                let mut c = case.clone();
                c.tape.entries[dir].remove(k);
                v.push(c);
            }
        }
        // 1b. simpler fault kinds
        for dir in 0..2 {
            for (k, f) in case.tape.entries[dir].iter().rev().take(20) {
                let simpler: Vec<Fault> = match f {
                    Fault::FlipSweep => (0..16).map(|i| Fault::FlipBit { pos: i * 13 + (i % 8) }).chain([Fault::Truncate { len: 20 }, Fault::Truncate { len: 1 }, Fault::Dup { copies: 1, gap_ms: 1 }, Fault::Drop]).collect(),
                    Fault::Garbage { .. } | Fault::Truncate { .. } | Fault::FlipBit { .. } => vec![Fault::Drop],
                    Fault::Dup { copies, gap_ms } if *copies > 1 => vec![Fault::Dup { copies: 1, gap_ms: *gap_ms }],
                    _ => vec![],
                };
                for nf in simpler {
                    let mut c = case.clone();
                    c.tape.entries[dir].insert(*k, nf);
                    v.push(c);
                }
            }
        }
        // 2. fewer / smaller streams
        for i in 0..case.streams.len() {
            let mut c = case.clone();
            c.streams.remove(i);
            v.push(c);
        }
        for i in 0..case.streams.len() {
            if case.streams[i].size > 1 || case.streams[i].resp_size > 1 {
                let mut c = case.clone();
                c.streams[i].size /= 2;
                c.streams[i].resp_size /= 2;
                v.push(c);
            }
        }
        for i in 0..case.dgrams.len() {
            let mut c = case.clone();
            c.dgrams.remove(i);
            v.push(c);
        }
        // 3. simpler network
        if case.net.bandwidth != 0 || case.net.jitter_ms != 0 {
            let mut c = case.clone();
            c.net.bandwidth = 0;
            c.net.jitter_ms = 0;
            v.push(c);
        }
        v
    }

    fn sample(&self, case: &Case) -> serde_json::Value {
        serde_json::json!({
            "profile": format!("{:?}", case.profile), "net": case.net, "client": case.client, "server": case.server,
            "streams": case.streams.iter().take(4).collect::<Vec<_>>(), "n_streams": case.streams.len(),
            "dgrams": case.dgrams.iter().map(|d| d.sizes.len()).collect::<Vec<_>>(), "close": format!("{:?}", case.close),
            "qlog": format!("{:?}", case.qlog),
            "tape_first_20": case.tape.entries.iter().enumerate().flat_map(|(d, m)| m.iter().take(10).map(move |(k, f)| format!("dir{d}#{k}:{f:?}"))).collect::<Vec<_>>(),
            "tape_entries": case.tape.len(), "blackhole_from": case.tape.blackhole_from,
        })
    }
}

/// Shared record of what the application actors saw.
#[derive(Default)]
pub struct RunLog {
    pub events: Vec<(u64, String, String, u64)>,
    pub violations: Vec<simcore::Violation>,
    pub started: BTreeMap<String, u64>,
    pub finished: BTreeMap<String, (u64, bool, String)>,
    pub bytes_read: u64,
    pub handshaked_at: [Option<u64>; 2],
    pub terminated_at: [Option<(u64, String)>; 2],
    pub term_detail: [String; 2],
    pub close_called_at: [Option<u64>; 2],
    /// (side, index, len, time)
    pub dgram_sent: Vec<(Side, u32, u32, u64)>,
    pub dgram_rcvd: Vec<(Side, u32, u32, u64)>,
}

impl RunLog {
    pub fn release_memory(&mut self) {
        self.events = Vec::new();
        self.started = BTreeMap::new();
        self.finished = BTreeMap::new();
        self.dgram_sent = Vec::new();
        self.dgram_rcvd = Vec::new();
    }
}

pub type Log = Arc<Mutex<RunLog>>;

pub fn run_case(case: &Case, _mode: Mode) -> Outcome {
    use tokio::runtime::{Builder, RngSeed};
    let rt = Builder::new_current_thread()
        .enable_time()
        .start_paused(true)
        .rng_seed(RngSeed::from_bytes(&case.seed.to_le_bytes()))
        .build()
        .unwrap();
    let _ = simcore::panics::take();
    let t0 = std::time::Instant::now();
    let mut out = rt.block_on(app::drive(case));
    if std::env::var("NETSIM_SLOW").is_ok() && t0.elapsed().as_millis() > 1500 {
        eprintln!("SLOW seed={} wall_ms={} sim_s={:.1} stats={:?}", case.seed, t0.elapsed().as_millis(), out.sim_seconds, out.stats.0);
    }
    // task panics are swallowed by tokio into JoinErrors: the hook recorded them
    for rec in simcore::panics::take() {
        if rec.in_harness {
            out.harness_error = Some(format!("harness panic: {} at {}", rec.message, rec.location));
        } else {
            out.violate("no-panic", rec.site(), format!("{} at {}", rec.message, rec.location), 0);
        }
    }
    drop(rt);
    out
}

/// C20 oracle A: the same seeded case under every exporter configuration must behave identically.
pub fn run_differential(case: &Case) -> Outcome {
    // The no-op configuration runs twice. A handful of seeds in ten thousand are sensitive to where in the life of the
    // process a run executes (two events at the same virtual instant whose order follows allocation addresses): if the
    // two no-op executions disagree with each other the case cannot tell anything about logging and is not judged.
    let modes = [QlogMode::Noop, QlogMode::Noop, QlogMode::DiscardAll, QlogMode::Capture, QlogMode::CaptureRaw, QlogMode::Filtered, QlogMode::Legacy, QlogMode::LegacyFailing];
    let mut second_noop = true;
    let mut base: Option<(u64, u64)> = None;
    let mut base_untimed = 0u64;
    let mut merged = Outcome::default();
    for m in modes {
        let mut c = case.clone();
        c.qlog = m;
        // every configuration runs on a fresh OS thread, like every case of a batch: thread-local state of the code
        // under test (rand's ThreadRng, std's RandomState keys) then starts from the run seed for each of them instead
        // of being carried from one configuration to the next
        let (out, (wire, app, untimed)) = std::thread::scope(|sc| {
            std::thread::Builder::new()
                .stack_size(8 << 20)
                .spawn_scoped(sc, || {
                    simcore::entropy::seed_thread_entropy(case.seed);
                    // a panic of the code under test is a finding (logging must never panic), not a harness fault
                    let out = match simcore::panics::guarded(|| run_case(&c, Mode::C20)) {
                        Ok(o) => o,
                        Err(rec) => {
                            let mut o = Outcome::default();
                            if rec.in_harness {
                                o.harness_error = Some(format!("harness panic: {} at {}", rec.message, rec.location));
                            } else {
                                o.violate("no-panic", rec.site(), format!("{} at {} (exporter configuration {:?})", rec.message, rec.location, c.qlog), 0);
                            }
                            o
                        }
                    };
                    let (w, a) = LAST_HASHES.with(|h| h.get());
                    (out, (w, a, LAST_UNTIMED.with(|h| h.get())))
                })
                .expect("spawn")
                .join()
                .unwrap_or_else(|_| {
                    let mut o = Outcome::default();
                    o.harness_error = Some("configuration thread died".into());
                    (o, (0, 0, 0))
                })
        });
        if let Some(e) = out.harness_error {
            merged.harness_error = Some(e);
            return merged;
        }
        for v in out.violations {
            merged.violate(&v.clause, v.site, v.detail, v.at);
        }
        merged.stats.merge(&out.stats);
        merged.sim_seconds += out.sim_seconds;
        match base {
            None => {
                base_untimed = untimed;
                base = Some((wire, app));
                merged.trace_hash = out.trace_hash;
                merged.nontrivial = out.nontrivial;
            }
            Some((w0, a0)) if m == QlogMode::Noop && second_noop => {
                second_noop = false;
                if (w0, a0) != (wire, app) {
                    merged.stats.bump("probe.position_sensitive_case_not_judged");
                    merged.violations.retain(|v| v.clause != "observational");
                    return merged;
                }
            }
            Some((w0, a0)) => {
                // the legacy logger spawns its own writer task per connection: only the application trace
                // is compared for it (DESIGN C20)
                // the legacy logger spawns its own writer task per connection, which permutes what runs first at one
                // virtual instant: for it the application trace is compared without completion times (per actor: the
                // sequence of operations, result classes and byte counts)
                // Its traces are therefore not compared at all (an earlier version compared the application trace without
                // completion times; a run in which the server learns of the client's close through the CONNECTION_CLOSE
                // with one interleaving and through its idle timer with another showed that this too is a property of
                // the schedule, not of logging). What the legacy configurations decide: no panic, also when the sink
                // fails mid-connection, and well-formed records. The purely observational clause rests on the four
                // exporters that run inside the emitting task.
                let _ = (base_untimed, untimed);
                let same = if matches!(m, QlogMode::Legacy | QlogMode::LegacyFailing) { true } else { w0 == wire && a0 == app };
                if !same {
                    merged.violate("observational", format!("{m:?}"), format!("exporter configuration {m:?} changed the behaviour of the run: wire {w0:016x}->{wire:016x}, application {a0:016x}->{app:016x}"), 0);
                }
            }
        }
    }
    merged
}

pub fn hash_wire(net: &net::SimNet, th: &mut TraceHash) {
    let g = net.inner.lock().unwrap();
    for e in &g.log {
        th.add(e.at_ms);
        th.add((e.dir as u64) << 40 | (e.ordinal as u64) << 8 | e.first as u64);
        th.add(e.len as u64);
    }
}
