//! Capturing qlog exporter (filled in by the C06 / C20 oracles).
use std::sync::{Arc, Mutex};

use qevent::{
    Event, GroupID, VantagePointType,
    telemetry::{ExportEvent, QLog, Span},
};

/// Events per vantage point, each tagged with the ordinal of the trace (= connection object) that emitted it.
#[derive(Default)]
pub struct Captured {
    pub client: Mutex<Vec<(u32, Event)>>,
    pub server: Mutex<Vec<(u32, Event)>>,
    pub traces: std::sync::atomic::AtomicU32,
}

impl Captured {
    pub fn side(&self, server: bool) -> std::sync::MutexGuard<'_, Vec<(u32, Event)>> {
        if server { self.server.lock().unwrap() } else { self.client.lock().unwrap() }
    }
    /// the events of one vantage point grouped by trace, in emission order
    pub fn by_trace(&self, server: bool) -> Vec<Vec<Event>> {
        let g = self.side(server);
        let mut ids: Vec<u32> = g.iter().map(|(t, _)| *t).collect();
        ids.sort();
        ids.dedup();
        ids.iter().map(|id| g.iter().filter(|(t, _)| t == id).map(|(_, e)| e.clone()).collect()).collect()
    }
}

pub struct CaptureExporter {
    pub sink: Arc<Captured>,
    pub server: bool,
    pub trace: u32,
    pub raw: bool,
    /// None = accept all; Some(mask) = accept schemes whose hash bit is set
    pub filter: Option<u64>,
    pub discard: bool,
    pub on_event: Option<Arc<dyn Fn(bool, &Event) + Send + Sync>>,
}

impl ExportEvent for CaptureExporter {
    fn emit(&self, event: Event) {
        if let Some(f) = &self.on_event {
            f(self.server, &event);
        }
        if self.discard {
            return;
        }
        let v = if self.server { &self.sink.server } else { &self.sink.client };
        v.lock().unwrap().push((self.trace, event));
    }
    fn filter_event(&self, scheme: &'static str) -> bool {
        match self.filter {
            None => true,
            Some(mask) => (mask >> (simcore::rng::hash_str(scheme) % 64)) & 1 == 1,
        }
    }
    fn filter_raw_data(&self) -> bool {
        self.raw
    }
}

pub struct CaptureLog {
    pub sink: Arc<Captured>,
    pub raw: bool,
    pub filter: Option<u64>,
    pub discard: bool,
    pub on_event: Option<Arc<dyn Fn(bool, &Event) + Send + Sync>>,
}

impl QLog for CaptureLog {
    fn new_trace(&self, vantage_point: VantagePointType, group_id: GroupID) -> Span {
        let server = matches!(vantage_point, VantagePointType::Server);
        let exporter: Arc<dyn ExportEvent> = Arc::new(CaptureExporter {
            sink: self.sink.clone(),
            server,
            trace: self.sink.traces.fetch_add(1, std::sync::atomic::Ordering::Relaxed),
            raw: self.raw,
            filter: self.filter,
            discard: self.discard,
            on_event: self.on_event.clone(),
        });
        qevent::span!(exporter, group_id = group_id)
    }
}

/// In-memory `TelemetryStorage` for the shipped `LegacySeqLogger` (JSON-SEQ text per connection).
#[derive(Clone, Default)]
pub struct MemStorage {
    pub files: Arc<Mutex<Vec<(String, Arc<Mutex<Vec<u8>>>)>>>,
    /// the sink fails (disk full) once a file holds this many bytes: a short write up to the limit, then errors
    pub fail_after: Option<usize>,
}

pub struct MemFile(Arc<Mutex<Vec<u8>>>, Option<usize>);

impl tokio::io::AsyncWrite for MemFile {
    fn poll_write(self: std::pin::Pin<&mut Self>, _cx: &mut std::task::Context<'_>, buf: &[u8]) -> std::task::Poll<std::io::Result<usize>> {
        let mut g = self.0.lock().unwrap();
        if let Some(limit) = self.1 {
            let room = limit.saturating_sub(g.len());
            if room == 0 {
                return std::task::Poll::Ready(Err(std::io::Error::other("simulated sink failure: no space left")));
            }
            let n = room.min(buf.len());
            g.extend_from_slice(&buf[..n]);
            return std::task::Poll::Ready(Ok(n));
        }
        g.extend_from_slice(buf);
        std::task::Poll::Ready(Ok(buf.len()))
    }
    fn poll_flush(self: std::pin::Pin<&mut Self>, _cx: &mut std::task::Context<'_>) -> std::task::Poll<std::io::Result<()>> {
        std::task::Poll::Ready(Ok(()))
    }
    fn poll_shutdown(self: std::pin::Pin<&mut Self>, _cx: &mut std::task::Context<'_>) -> std::task::Poll<std::io::Result<()>> {
        std::task::Poll::Ready(Ok(()))
    }
}

impl qevent::telemetry::handy::TelemetryStorage for MemStorage {
    fn join(&self, file_name: &str) -> impl std::future::Future<Output = impl tokio::io::AsyncWrite + Send + Unpin + 'static> + Send + 'static {
        let buf = Arc::new(Mutex::new(Vec::new()));
        self.files.lock().unwrap().push((file_name.to_string(), buf.clone()));
        let limit = self.fail_after;
        async move { MemFile(buf, limit) }
    }
}
