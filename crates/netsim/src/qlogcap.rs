//! Capturing qlog exporter (filled in by the C06 / C20 oracles).
use std::sync::{Arc, Mutex};

use qevent::{
    Event, GroupID, VantagePointType,
    telemetry::{ExportEvent, QLog, Span},
};

#[derive(Default)]
pub struct Captured {
    pub client: Mutex<Vec<Event>>,
    pub server: Mutex<Vec<Event>>,
}

impl Captured {
    pub fn side(&self, server: bool) -> std::sync::MutexGuard<'_, Vec<Event>> {
        if server { self.server.lock().unwrap() } else { self.client.lock().unwrap() }
    }
}

pub struct CaptureExporter {
    pub sink: Arc<Captured>,
    pub server: bool,
    pub raw: bool,
    /// None = accept all; Some(mask) = accept schemes whose hash bit is set
    pub filter: Option<u64>,
    pub discard: bool,
    pub on_event: Option<Arc<dyn Fn(bool, &Event) + Send + Sync>>,
}

impl ExportEvent for CaptureExporter {
    fn emit(&self, event: Event) {
        if let Some(f) = &self.on_event {
            f(self.server, &event);
        }
        if self.discard {
            return;
        }
        let v = if self.server { &self.sink.server } else { &self.sink.client };
        v.lock().unwrap().push(event);
    }
    fn filter_event(&self, scheme: &'static str) -> bool {
        match self.filter {
            None => true,
            Some(mask) => (mask >> (simcore::rng::hash_str(scheme) % 64)) & 1 == 1,
        }
    }
    fn filter_raw_data(&self) -> bool {
        self.raw
    }
}

pub struct CaptureLog {
    pub sink: Arc<Captured>,
    pub raw: bool,
    pub filter: Option<u64>,
    pub discard: bool,
    pub on_event: Option<Arc<dyn Fn(bool, &Event) + Send + Sync>>,
}

impl QLog for CaptureLog {
    fn new_trace(&self, vantage_point: VantagePointType, group_id: GroupID) -> Span {
        let server = matches!(vantage_point, VantagePointType::Server);
        let exporter: Arc<dyn ExportEvent> = Arc::new(CaptureExporter {
            sink: self.sink.clone(),
            server,
            raw: self.raw,
            filter: self.filter,
            discard: self.discard,
            on_event: self.on_event.clone(),
        });
        qevent::span!(exporter, group_id = group_id)
    }
}
