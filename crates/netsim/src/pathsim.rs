//! pathsim — validation of a peer-opened path at component level (C15).
//!
//! One real `qconnection::path::Path` over an I/O that swallows what is sent (built as `get_or_try_create_path` builds
//! a probed path: anti-amplification limited, not validated), its real `validate()` task on tokio's paused clock, and a
//! generated history of packet arrivals, sends, PATH_RESPONSE frames (matching the outstanding challenge, random, one
//! bit off) and time. Observed through hook H4 (`Path::verif_state`). Reference: the path is validated iff a matching
//! PATH_RESPONSE arrived while validation was running; until then its credit is `3·received − sent`; from then on it is
//! unlimited and a send task parked on the credit is woken.
use std::{
    io,
    net::SocketAddr,
    sync::Arc,
    task::{Context, Poll},
    time::Duration,
};

use bytes::BytesMut;
use qbase::{
    Epoch,
    frame::{PathChallengeFrame, PathResponseFrame, io::ReceiveFrame},
    net::{
        route::{Link, Pathway, Route},
        tx::{ArcSendWakers, Signals},
    },
    packet::PacketContent,
    time::ArcIdleConfig,
};
use qcongestion::{Feedback, HandshakeStatus};
use qconnection::{ArcReliableFrameDeque, ArcRemoteCids, path::Path};
use qevent::quic::recovery::PacketLostTrigger;
use qinterface::{
    bind_uri::BindUri,
    io::{IO, ProductIO},
    manager::InterfaceManager,
};
use serde::{Deserialize, Serialize};
use simcore::{Engine, Outcome, Rng, Tier, TraceHash, wake::Task};

#[derive(Serialize, Deserialize, Clone, Debug, PartialEq)]
pub enum POp {
    /// a packet of `size` bytes arrives on the path; `content`: 0 = carries data, 1 = only a PING, 2 = only ACK / padding
    /// (not ack-eliciting) — every byte received from the address earns credit, whatever the packet carries
    Rcvd { size: u16, #[serde(default)] content: u8 },
    /// the send loop wants to send `size` bytes: cut to the credit, charged through `Path::send_packets`
    Send { size: u16 },
    /// the connection starts validating the path (`Path::validate`)
    StartValidate,
    /// a PATH_RESPONSE arrives: 0 = echo of the outstanding challenge, 1 = random data, 2 = the challenge with one bit flipped
    Respond { kind: u8 },
    Advance { ms: u16 },
    /// the send task parks on CREDIT if there is none
    Park,
}

#[derive(Serialize, Deserialize, Clone, Debug)]
pub struct PCase {
    pub seed: u64,
    pub ops: Vec<POp>,
}

struct NullIo(BindUri);

impl IO for NullIo {
    fn bind_uri(&self) -> BindUri {
        self.0.clone()
    }
    fn bound_addr(&self) -> io::Result<SocketAddr> {
        Ok("127.0.0.1:4434".parse().unwrap())
    }
    fn max_segment_size(&self) -> io::Result<usize> {
        Ok(1500)
    }
    fn max_segments(&self) -> io::Result<usize> {
        Ok(1)
    }
    fn poll_send(&self, _: &mut Context, pkts: &[io::IoSlice], _: Route) -> Poll<io::Result<usize>> {
        Poll::Ready(Ok(pkts.len()))
    }
    fn poll_recv(&self, _: &mut Context, _: &mut [BytesMut], _: &mut [Route]) -> Poll<io::Result<usize>> {
        Poll::Pending
    }
    fn poll_close(&mut self, _: &mut Context) -> Poll<io::Result<()>> {
        Poll::Ready(Ok(()))
    }
}

struct NoFeedback;

impl Feedback for NoFeedback {
    fn may_loss(&self, _: PacketLostTrigger, _: &mut dyn Iterator<Item = u64>) {}
}

async fn settle() {
    for _ in 0..8 {
        tokio::task::yield_now().await;
    }
}

pub async fn run(case: &PCase) -> Outcome {
    let mut out = Outcome::default();
    let mut th = TraceHash::default();
    let bind_uri = BindUri::from("inet://127.0.0.1:4434");
    let factory: Arc<dyn ProductIO> = Arc::new(|u: BindUri| NullIo(u));
    let manager = Arc::new(InterfaceManager::new());
    let bind_iface = manager.bind(bind_uri, factory).await;
    let local: SocketAddr = "127.0.0.1:4434".parse().unwrap();
    let remote: SocketAddr = "127.0.0.1:50001".parse().unwrap();
    let remote_cids = ArcRemoteCids::new(8, ArcReliableFrameDeque::with_capacity_and_wakers(8, ArcSendWakers::new()));
    let path = Arc::new(Path::new(
        bind_iface.borrow(),
        Link::new(local, remote),
        Pathway::new(local.into(), remote.into()),
        remote_cids.apply_dcid(),
        Duration::from_millis(25),
        ArcIdleConfig::new(Duration::from_secs(30), Duration::ZERO).timer(),
        [Arc::new(NoFeedback), Arc::new(NoFeedback), Arc::new(NoFeedback)],
        Arc::new(HandshakeStatus::new(true)),
    ));
    let tx_waker = path.verif_tx_waker();

    let (mut rcvd, mut sent): (i128, i128) = (0, 0);
    let mut validated_model = false;
    let mut validating: Option<tokio::task::JoinHandle<bool>> = None;
    let mut challenge: Option<PathChallengeFrame> = None;
    let mut stask = Task::new();
    let mut parked = false;
    let mut pn = 0u64;
    let mut r = Rng::derive(case.seed, "pathsim-bytes");

    for (step, op) in case.ops.iter().enumerate() {
        let at = step as u64;
        th.add(at);
        match op {
            POp::Rcvd { size, content } => {
                let pc = match content {
                    0 => PacketContent::EffectivePayload,
                    1 => PacketContent::JustPing,
                    _ => PacketContent::NonAckEliciting,
                };
                path.on_packet_rcvd(Epoch::Data, pn, *size as usize, pc);
                pn += 1;
                rcvd += *size as i128;
            }
            POp::Send { size } => {
                let credit = match path.verif_state().balance {
                    Ok(Some(c)) => c,
                    Ok(None) => 0,
                    Err(_) => 0,
                };
                let n = (*size as usize).min(credit);
                if n > 0 {
                    let buf = vec![0u8; n];
                    let _ = path.send_packets(&[io::IoSlice::new(&buf)]).await;
                    sent += n as i128;
                    out.stats.bump("op.sent");
                }
            }
            POp::StartValidate => {
                if validating.is_none() && !validated_model {
                    let p = path.clone();
                    validating = Some(tokio::spawn(async move { p.validate().await.is_ok() }));
                    settle().await;
                    challenge = path.verif_state().pending_challenge;
                    if challenge.is_none() {
                        out.harness_error = Some("validate() wrote no PATH_CHALLENGE".into());
                        return out;
                    }
                    out.stats.bump("op.validation_started");
                }
            }
            POp::Respond { kind } => {
                let Some(ch) = challenge else { continue };
                let running = validating.as_ref().is_some_and(|h| !h.is_finished());
                let frame: PathResponseFrame = match kind {
                    0 => ch.into(),
                    1 => {
                        let mut d = [0u8; 8];
                        for b in d.iter_mut() {
                            *b = r.next_u64() as u8;
                        }
                        if d == *ch {
                            d[0] ^= 1;
                        }
                        PathChallengeFrame::from_slice(&d).into()
                    }
                    _ => {
                        let mut d = *ch;
                        let bit = r.below(64) as usize;
                        d[bit / 8] ^= 1 << (bit % 8);
                        PathChallengeFrame::from_slice(&d).into()
                    }
                };
                let _ = path.recv_frame(frame);
                settle().await;
                if *kind == 0 && running {
                    validated_model = true;
                    out.stats.bump("probe.matching_response_while_validating");
                } else if *kind != 0 {
                    out.stats.bump("fault.wrong_path_response");
                }
            }
            POp::Advance { ms } => {
                tokio::time::advance(Duration::from_millis(*ms as u64)).await;
                settle().await;
                out.sim_seconds += *ms as f64 / 1000.0;
            }
            POp::Park => {
                if !parked && path.verif_state().balance.is_err() {
                    let mut fut = Box::pin(tx_waker.wait_for(Signals::CREDIT));
                    stask.take_woken();
                    if stask.poll_pin(fut.as_mut()).is_pending() {
                        parked = true;
                        out.stats.bump("probe.sender_parked_on_credit");
                    }
                }
            }
        }
        // a validation task that gave up (30 probe timeouts) leaves the path unvalidated for good
        if validating.as_ref().is_some_and(|h| h.is_finished()) && !validated_model {
            out.stats.bump("probe.validation_gave_up");
        }
        // ---- oracle -----------------------------------------------------------------------------
        let st = path.verif_state();
        th.add(st.validated as u64);
        if st.validated && !validated_model {
            out.violate("over-3x", "path-validated-without-matching-response", format!("the path counts as validated although no PATH_RESPONSE echoing the outstanding challenge {:02x?} arrived while validation was running (op {op:?})", challenge.map(|c| *c)), at);
            break;
        }
        if validated_model && !st.validated {
            out.violate("resume", "not-validated-after-matching-response", format!("a PATH_RESPONSE echoing the outstanding challenge arrived while validation was running, the path is still unvalidated (op {op:?})"), at);
            break;
        }
        if validated_model {
            let unlimited = matches!(st.balance, Ok(Some(c)) if c > (1usize << 40));
            if !unlimited {
                out.violate("resume", "still-capped-after-validation", format!("the path is validated and its anti-amplification balance is still {:?} (received {rcvd}, sent {sent})", st.balance), at);
                break;
            }
            if parked {
                if !stask.take_woken() {
                    out.violate("resume", "parked-sender-not-woken-by-validation", "a send task parked on CREDIT was not woken when the path was validated".to_string(), at);
                    break;
                }
                parked = false;
                out.stats.bump("probe.parked_sender_woken_by_validation");
            }
        } else {
            let c = 3 * rcvd - sent;
            let ok = match st.balance {
                Ok(Some(b)) => c > 0 && b as i128 == c,
                Ok(None) => false,
                Err(_) => c <= 0,
            };
            if !ok {
                // more credit than three times what arrived is the safety half, less is the "sending resumes as soon as
                // more is received" half
                let real: i128 = match st.balance {
                    Ok(Some(b)) => b as i128,
                    _ => 0,
                };
                if real > c.max(0) {
                    out.violate("over-3x", "path-credit-exceeds-3x", format!("unvalidated path: balance {:?}, model 3*{rcvd} - {sent} = {c}", st.balance), at);
                } else {
                    out.violate("resume", "path-credit-withheld", format!("unvalidated path: balance {:?} although 3*{rcvd} - {sent} = {c} bytes may be sent (op {op:?})", st.balance), at);
                }
                break;
            }
            if parked && c > 0 {
                // credit appeared while the send task was parked on it: it must have been woken
                if !stask.take_woken() {
                    out.violate("resume", "parked-sender-not-woken-by-arrival", format!("a send task parked on CREDIT was not woken although a packet arrived and the credit is now {c} (op {op:?})"), at);
                    break;
                }
                parked = false;
                out.stats.bump("probe.parked_sender_woken_by_arrival");
            }
        }
    }
    if let Some(h) = validating {
        h.abort();
    }
    out.trace_hash = th.get();
    out.nontrivial = out.stats.get("op.validation_started") > 0 && rcvd > 0;
    drop(path);
    let _ = bind_iface.close().await;
    out
}

pub struct PathSim;

impl Engine for PathSim {
    type Case = PCase;
    fn name(&self) -> &'static str {
        "pathsim"
    }
    fn fresh_thread(&self) -> bool {
        true
    }
    fn components_real(&self) -> Vec<&'static str> {
        vec!["qconnection::path::Path (validate, recv_frame(PATH_RESPONSE), on_packet_rcvd, send_packets, AntiAmplifier, ArcSendWaker) through hook H4", "qcongestion::ArcCC (PTO for the validation timeouts)", "tokio paused clock"]
    }
    fn components_stub(&self) -> Vec<&'static str> {
        vec!["the interface (an IO that swallows what is sent)", "the burst loop and the frame dispatcher (scripted)", "the peer"]
    }
    fn generate(&self, _index: u64, seed: u64, _tier: Tier) -> PCase {
        let mut r = Rng::derive(seed, "workload");
        let n = r.range(3, 40);
        let mut ops = Vec::new();
        let start_at = r.below(n / 2 + 1);
        for i in 0..n {
            if i == start_at {
                ops.push(POp::StartValidate);
            }
            ops.push(match r.below(12) {
                0..=2 => POp::Rcvd { size: *r.pick(&[0u16, 29, 49, 100, 400, 1200, 1452]), content: *r.pick(&[0u8, 0, 1, 2, 2]) },
                3..=5 => POp::Send { size: *r.pick(&[29u16, 105, 1200, 1200, 1452]) },
                6 => POp::Respond { kind: 0 },
                7 => POp::Respond { kind: 1 + r.below(2) as u8 },
                8 => POp::Park,
                9 => POp::StartValidate,
                _ => POp::Advance { ms: *r.pick(&[1u16, 10, 40, 200, 1000, 5000]) },
            });
        }
        PCase { seed, ops }
    }
    fn execute(&self, case: &PCase) -> Outcome {
        crate::process_init_pub();
        let rt = tokio::runtime::Builder::new_current_thread().enable_time().start_paused(true).build().unwrap();
        rt.block_on(run(case))
    }
    fn shrink(&self, case: &PCase) -> Vec<PCase> {
        let mut v = Vec::new();
        let n = case.ops.len();
        if n > 1 {
            v.push(PCase { seed: case.seed, ops: case.ops[..n - 1].to_vec() });
        }
        for i in (0..n).rev() {
            let mut ops = case.ops.clone();
            ops.remove(i);
            v.push(PCase { seed: case.seed, ops });
        }
        v
    }
}
