//! Oracles over the captured qlog of both endpoints and over the network ledger.
use std::collections::{BTreeMap, BTreeSet};

use serde_json::Value;
use simcore::Outcome;

use crate::{net::SimNet, qlogcap::Captured};

pub struct PacketLog {
    /// (packet type, packet number) -> frames as logged
    pub sent: BTreeMap<(String, u64), Value>,
    pub rcvd: Vec<(String, u64, Value)>,
    pub states: Vec<String>,
    pub events: usize,
}

pub fn packet_log(events: &[qevent::Event]) -> PacketLog {
    let mut pl = PacketLog { sent: BTreeMap::new(), rcvd: Vec::new(), states: Vec::new(), events: events.len() };
    for e in events {
        let v = serde_json::to_value(e).unwrap_or_default();
        let name = v["name"].as_str().unwrap_or("");
        let d = &v["data"];
        if name.ends_with(":packet_sent") || name.ends_with(":packet_received") {
            let ty = d["header"]["packet_type"].as_str().unwrap_or("?").to_string();
            let Some(pn) = d["header"]["packet_number"].as_u64() else { continue };
            if name.ends_with(":packet_sent") {
                pl.sent.insert((ty, pn), d["frames"].clone());
            } else {
                pl.rcvd.push((ty, pn, d["frames"].clone()));
            }
        } else if name.ends_with(":connection_state_updated") {
            let st = d["new"].as_str().unwrap_or("?").to_string();
            // in the closing / draining states packets are only inspected for a CONNECTION_CLOSE frame and
            // nothing is delivered: what is logged there is not "accepted"
            if matches!(st.as_str(), "closing" | "draining" | "closed") {
                pl.states.push(st);
                break;
            }
            pl.states.push(st);
        }
    }
    pl
}

/// frame lists compare on what both vantage points must agree on: kind, stream/offset/length, ack ranges
fn norm_frames(frames: &Value) -> Vec<String> {
    let mut out = Vec::new();
    for f in frames.as_array().map(|a| a.as_slice()).unwrap_or(&[]) {
        let ty = f["frame_type"].as_str().unwrap_or("?");
        if ty == "padding" {
            continue;
        }
        let mut s = ty.to_string();
        let sized = matches!(ty, "stream" | "crypto" | "datagram");
        for k in ["stream_id", "offset", "fin", "acked_ranges", "maximum", "error_code", "final_size", "sequence_number", "retire_prior_to", "connection_id", "stream_type", "limit", "data", "reason"] {
            if !f[k].is_null() {
                s.push_str(&format!(" {k}={}", f[k]));
            }
        }
        if sized && !f["length"].is_null() {
            s.push_str(&format!(" length={}", f["length"]));
        }
        out.push(s);
    }
    out
}

/// C06 (system level): what one endpoint assembled is what the other recovered, nothing else is accepted.
pub fn check_packet_roundtrip(out: &mut Outcome, cap: &Captured) {
    let client = packet_log(&cap.side(false));
    let server = packet_log(&cap.side(true));
    out.stats.add("qlog_events", (client.events + server.events) as u64);
    for (who, snd, rcv) in [("server", &client, &server), ("client", &server, &client)] {
        let mut seen: BTreeSet<(String, u64)> = BTreeSet::new();
        for (ty, pn, frames) in &rcv.rcvd {
            let key = (ty.clone(), *pn);
            if !seen.insert(key.clone()) {
                out.violate("replay-accepted", ty.clone(), format!("{who} processed {ty} packet number {pn} twice"), *pn);
                continue;
            }
            match snd.sent.get(&key) {
                None => {
                    out.violate("corrupt-accepted", format!("{ty}:never-sent"), format!("{who} accepted a {ty} packet with number {pn} that its peer never sent; frames {frames}"), *pn);
                }
                Some(sent_frames) => {
                    let (a, b) = (norm_frames(sent_frames), norm_frames(frames));
                    if a != b {
                        out.violate("roundtrip-frames", ty.clone(), format!("{ty} packet {pn}: assembled frames {a:?}, {who} recovered {b:?}"), *pn);
                    }
                    out.stats.bump("packets_roundtripped");
                }
            }
        }
    }
}

/// C15: the byte ledger kept by the network while the client's address was unvalidated.
pub fn check_amplification(out: &mut Outcome, net: &SimNet) {
    let g = net.inner.lock().unwrap();
    if let Some((sent, rcvd, at)) = g.amp_violation {
        out.violate("over-3x", "", format!("server had sent {sent} bytes to the unvalidated client address after receiving {rcvd} from it (limit {}), at {at} ms", 3 * rcvd), at);
    }
    if g.server_validated_at.is_some() {
        out.stats.bump("probe.address_validated");
    }
    if g.amp_blocked_sends > 0 {
        out.stats.add("probe.sends_at_amplification_limit", g.amp_blocked_sends);
    }
}
