//! Oracles over the captured qlog of both endpoints and over the network ledger.
use std::collections::{BTreeMap, BTreeSet};

use serde_json::Value;
use simcore::Outcome;

use crate::{Case, CloseKind, Profile, RunLog, Side, net::SimNet, qlogcap::Captured};

pub struct PacketLog {
    /// (packet type, packet number) -> frames as logged
    pub sent: BTreeMap<(String, u64), Value>,
    pub rcvd: Vec<(String, u64, Value)>,
    pub states: Vec<String>,
    pub events: usize,
}

pub fn packet_log(events: &[qevent::Event]) -> PacketLog {
    let mut pl = PacketLog { sent: BTreeMap::new(), rcvd: Vec::new(), states: Vec::new(), events: events.len() };
    for e in events {
        let v = serde_json::to_value(e).unwrap_or_default();
        let name = v["name"].as_str().unwrap_or("");
        let d = &v["data"];
        if name.ends_with(":packet_sent") || name.ends_with(":packet_received") {
            let ty = d["header"]["packet_type"].as_str().unwrap_or("?").to_string();
            let Some(pn) = d["header"]["packet_number"].as_u64() else { continue };
            if name.ends_with(":packet_sent") {
                pl.sent.insert((ty, pn), d["frames"].clone());
            } else {
                pl.rcvd.push((ty, pn, d["frames"].clone()));
            }
        } else if name.ends_with(":connection_state_updated") {
            let st = d["new"].as_str().unwrap_or("?").to_string();
            // in the closing / draining states packets are only inspected for a CONNECTION_CLOSE frame and
            // nothing is delivered: what is logged there is not "accepted"
            if matches!(st.as_str(), "closing" | "draining" | "closed") {
                pl.states.push(st);
                break;
            }
            pl.states.push(st);
        }
    }
    pl
}

/// frame lists compare on what both vantage points must agree on: kind, stream/offset/length, ack ranges
fn norm_frames(frames: &Value) -> Vec<String> {
    let mut out = Vec::new();
    for f in frames.as_array().map(|a| a.as_slice()).unwrap_or(&[]) {
        let ty = f["frame_type"].as_str().unwrap_or("?");
        if ty == "padding" {
            continue;
        }
        let mut s = ty.to_string();
        let sized = matches!(ty, "stream" | "crypto" | "datagram");
        for k in ["stream_id", "offset", "fin", "acked_ranges", "maximum", "error_code", "final_size", "sequence_number", "retire_prior_to", "connection_id", "stream_type", "limit", "data", "reason"] {
            if !f[k].is_null() {
                s.push_str(&format!(" {k}={}", f[k]));
            }
        }
        if sized && !f["length"].is_null() {
            s.push_str(&format!(" length={}", f["length"]));
        }
        out.push(s);
    }
    out
}

/// C06 (system level): what one endpoint assembled is what the other recovered, nothing else is accepted.
pub fn check_packet_roundtrip(out: &mut Outcome, cap: &Captured) {
    // the peer's sent packets (all its connection objects together) vs what each connection object processed
    let all = |server: bool| -> Vec<qevent::Event> { cap.side(server).iter().map(|(_, e)| e.clone()).collect() };
    let client_all = packet_log(&all(false));
    let server_all = packet_log(&all(true));
    out.stats.add("qlog_events", (client_all.events + server_all.events) as u64);
    let client_traces: Vec<PacketLog> = cap.by_trace(false).iter().map(|t| packet_log(t)).collect();
    let server_traces: Vec<PacketLog> = cap.by_trace(true).iter().map(|t| packet_log(t)).collect();
    if server_traces.len() > 1 {
        out.stats.bump("probe.second_server_connection_object");
    }
    let pairs: Vec<(&str, &PacketLog, &PacketLog)> = server_traces.iter().map(|r| ("server", &client_all, r)).chain(client_traces.iter().map(|r| ("client", &server_all, r))).collect();
    for (who, snd, rcv) in pairs {
        let mut seen: BTreeSet<(String, u64)> = BTreeSet::new();
        for (ty, pn, frames) in &rcv.rcvd {
            let key = (ty.clone(), *pn);
            if !seen.insert(key.clone()) {
                out.violate("replay-accepted", ty.clone(), format!("{who} processed {ty} packet number {pn} twice"), *pn);
                continue;
            }
            match snd.sent.get(&key) {
                None => {
                    out.violate("corrupt-accepted", format!("{ty}:never-sent"), format!("{who} accepted a {ty} packet with number {pn} that its peer never sent; frames {frames}"), *pn);
                }
                Some(sent_frames) => {
                    let (a, b) = (norm_frames(sent_frames), norm_frames(frames));
                    if a != b {
                        out.violate("roundtrip-frames", ty.clone(), format!("{ty} packet {pn}: assembled frames {a:?}, {who} recovered {b:?}"), *pn);
                    }
                    out.stats.bump("packets_roundtripped");
                }
            }
        }
    }
}

/// C07 (whole-stack share): within one connection object and packet-number space, the numbers of the packets that
/// leave the endpoint strictly increase in the order they are assembled (0-RTT and 1-RTT share a space).
pub fn check_pn_monotone(out: &mut Outcome, cap: &Captured) {
    for server in [false, true] {
        for trace in cap.by_trace(server) {
            let mut last: BTreeMap<&'static str, u64> = BTreeMap::new();
            let mut seen: BTreeSet<(&'static str, u64)> = BTreeSet::new();
            for e in trace.iter() {
                let v = serde_json::to_value(e).unwrap_or_default();
                if !v["name"].as_str().unwrap_or("").ends_with(":packet_sent") {
                    continue;
                }
                let h = &v["data"]["header"];
                let Some(pn) = h["packet_number"].as_u64() else { continue };
                let space = match h["packet_type"].as_str().unwrap_or("?") {
                    "initial" => "initial",
                    "handshake" => "handshake",
                    "0RTT" | "1RTT" => "data",
                    _ => continue,
                };
                out.stats.bump("packets_sent_checked");
                if !seen.insert((space, pn)) {
                    out.violate("pn-reuse", space, format!("{} sent two {space} packets with number {pn}", if server { "server" } else { "client" }), pn);
                } else if let Some(l) = last.get(space) {
                    if pn <= *l {
                        out.violate("pn-not-increasing", space, format!("{} sent {space} packet {pn} after {l}", if server { "server" } else { "client" }), pn);
                    }
                }
                let l = last.entry(space).or_insert(pn);
                *l = (*l).max(pn);
            }
        }
    }
}

/// C15: the byte ledger kept by the network while the client's address was unvalidated.
pub fn check_amplification(out: &mut Outcome, net: &SimNet) {
    let g = net.inner.lock().unwrap();
    if let Some((sent, rcvd, at)) = g.amp_violation {
        out.violate("over-3x", "", format!("server had sent {sent} bytes to the unvalidated client address after receiving {rcvd} from it (limit {}), at {at} ms", 3 * rcvd), at);
    }
    if let Some((sent, rcvd, at, short)) = g.amp_violation_rebound {
        // Three mechanisms are told apart, so that each can be listed without hiding the others: (1) what exceeds the
        // budget are datagrams that ignore it altogether — long-header packets padded to full size and padded
        // PATH_CHALLENGE probes — while the 1-RTT packets carrying anything else stayed within it; (2) those packets
        // overdraw it by less than one burst (the credit is read once per burst and charged after it); (3) anything
        // beyond: ordinary data flows to the unvalidated address.
        let data_excess = g.alt_data_excess.map(|(d, r)| d - 3 * r).unwrap_or(0);
        let _ = short;
        let site = if data_excess == 0 {
            "rebound-path:probes-and-long-header-datagrams-ignore-credit"
        } else if data_excess <= 6000 {
            "rebound-path:burst-overdraw"
        } else {
            "rebound-path"
        };
        out.violate("over-3x", site, format!("after a NAT rebinding the server had sent {sent} bytes to the new, not yet validated client address after receiving {rcvd} from it (limit {}; {short} of them in short-header datagrams), at {at} ms", 3 * rcvd), at);
    }
    if g.nat_real.is_some() {
        out.stats.bump("probe.nat_rebinding_happened");
        if g.alt_validated_at.is_some() {
            out.stats.bump("probe.rebound_address_validated");
        }
    }
    if g.server_validated_at.is_some() {
        out.stats.bump("probe.address_validated");
    }
    if g.amp_blocked_sends > 0 {
        out.stats.add("probe.sends_at_amplification_limit", g.amp_blocked_sends);
    }
}

fn side_of(actor: &str) -> Option<usize> {
    let a = actor.strip_prefix("bg.").unwrap_or(actor);
    if a.starts_with("c.") {
        Some(0)
    } else if a.starts_with("s.") {
        Some(1)
    } else {
        None
    }
}

fn op_class(actor: &str) -> String {
    let a = actor.strip_prefix("bg.").unwrap_or(actor);
    let op = a.split('.').nth(1).unwrap_or("op");
    op.trim_end_matches(|c: char| c.is_ascii_digit()).to_string()
}

/// C17: closing or failing a connection ends every pending operation; idle timeout.
pub fn check_termination(out: &mut Outcome, case: &Case, l: &RunLog, net: &SimNet, who_closes: &[usize], release_bound_ms: u64, now_ms: u64) {
    let names = ["client", "server"];
    let fault_free = case.tape.is_empty() && case.tape.blackhole_from == [None, None];
    let idle_eff = [case.client.idle_ms, case.server.idle_ms].into_iter().filter(|i| *i > 0).min().unwrap_or(0) as u64;
    let rtt = (case.net.latency_ms[0] + case.net.latency_ms[1] + 2 * case.net.jitter_ms) as u64;
    // (a) a local close terminates at once
    for &i in who_closes {
        if let Some(tc) = l.close_called_at[i] {
            match &l.terminated_at[i] {
                Some((t, _)) if *t <= tc + 100 => {}
                other => out.violate("close-not-terminated", "local", format!("{}: close() called at {tc} ms, terminated() {:?}", names[i], other), tc),
            }
            // the peer learns through the CONNECTION_CLOSE (fault-free network) or through its idle timer
            let p = 1 - i;
            let peer_exists = if p == 1 { l.finished.contains_key("s.accept_conn") } else { true };
            if peer_exists && l.close_called_at[p].is_none() {
                let deadline = if fault_free { Some(tc + 5_000 + 4 * rtt) } else if idle_eff > 0 { Some(tc + idle_eff + 30_000) } else { None };
                if let Some(d) = deadline {
                    if d < now_ms {
                        match &l.terminated_at[p] {
                            Some((t, _)) if *t <= d => {}
                            other => out.violate("close-not-terminated", "peer", format!("{} closed at {tc} ms; {} terminated() {:?}, expected by {d} ms (fault-free {fault_free}, idle {idle_eff} ms)", names[i], names[p], other), tc),
                        }
                    }
                }
            }
        }
    }
    // (b) every operation of an endpoint is released within the bound after it terminated
    for i in 0..2 {
        let Some((t_term, kind)) = &l.terminated_at[i] else { continue };
        if t_term + release_bound_ms >= now_ms {
            continue; // not enough time observed
        }
        for (actor, started) in &l.started {
            if side_of(actor) != Some(i) || actor == "s.accept_conn" {
                continue;
            }
            let released = l.finished.get(actor).map(|(t, _, _)| *t);
            let late = match released {
                None => true,
                Some(t) => t > t_term + release_bound_ms && *started <= *t_term,
            };
            if late {
                out.violate("pending-not-released", op_class(actor), format!("{}: connection terminated at {t_term} ms ({kind}) but {actor} (started at {started} ms) was released at {released:?} (bound {release_bound_ms} ms)", names[i]), *t_term);
            }
        }
        // (c) the terminating error is fixed: parked operations report the same kind
        for (actor, (_, _, detail)) in &l.finished {
            if side_of(actor) != Some(i) || !actor.contains("hang_") {
                continue;
            }
            if actor.contains("Handshaked") && detail == "ok" {
                continue;
            }
            if detail != kind && detail != "exhausted" {
                out.violate("error-changed", op_class(actor), format!("{}: terminated() reported {kind} but {actor} failed with {detail}", names[i]), *t_term);
            }
        }
    }
    // (f) idle timeout
    if case.close == CloseKind::Idle && fault_free && case.profile == Profile::Bounded && l.handshaked_at[0].is_some() && l.handshaked_at[1].is_some() {
        let g = net.inner.lock().unwrap();
        if idle_eff == 0 {
            for i in 0..2 {
                if let Some((t, k)) = &l.terminated_at[i] {
                    out.violate("idle-disabled-fired", "", format!("{}: both sides advertise max_idle_timeout 0 but the connection terminated at {t} ms ({k})", names[i]), *t);
                }
            }
        } else {
            // the endpoint that gives up first does so because of its own timer
            let first = (0..2).filter_map(|i| l.terminated_at[i].as_ref().map(|(t, k)| (*t, i, k.clone()))).min();
            match first {
                None => out.violate("idle-late", "never", format!("no traffic after {} ms, negotiated idle timeout {idle_eff} ms, but neither endpoint terminated by {now_ms} ms", g.last_activity_ms[0].max(g.last_activity_ms[1])), now_ms),
                Some((t, i, k)) => {
                    let last_rx = g.last_delivered_ms[i];
                    let last_any = g.last_activity_ms[i].min(t);
                    if t + 20 < last_rx + idle_eff {
                        out.violate("idle-early", "", format!("{}: terminated at {t} ms ({k}), last packet received at {last_rx} ms, negotiated idle timeout {idle_eff} ms", names[i]), t);
                    }
                    if t > last_any + idle_eff + 15_000 + 6 * rtt {
                        out.violate("idle-late", "", format!("{}: terminated at {t} ms ({k}), last activity at {last_any} ms, negotiated idle timeout {idle_eff} ms", names[i]), t);
                    }
                    out.stats.bump("probe.idle_timeout_observed");
                }
            }
        }
    }
    if l.close_called_at.iter().any(|c| c.is_some()) {
        out.stats.bump("probe.close_called");
    }
    if l.finished.keys().any(|k| k.contains("hang_")) {
        out.stats.bump("probe.parked_op_released");
    }
}

/// C17 over the captured qlog: state order and silence after closing.
pub fn check_close_qlog(out: &mut Outcome, cap: &Captured) {
    fn rank(s: &str) -> u32 {
        match s {
            "attempted" => 1,
            "peer_validated" => 2,
            "handshake_started" => 3,
            "early_write" => 4,
            "handshake_complete" | "handshake_completed" => 5,
            "handshake_confirmed" => 6,
            "closing" => 7,
            "draining" => 8,
            "closed" => 9,
            _ => 0,
        }
    }
    for (who, server) in [("client", false), ("server", true)] {
      for trace in cap.by_trace(server) {
        let mut last = 0;
        let mut closing = false;
        for e in trace.iter() {
            let v = serde_json::to_value(e).unwrap_or_default();
            let name = v["name"].as_str().unwrap_or("");
            if name.ends_with(":connection_state_updated") {
                let st = v["data"]["new"].as_str().unwrap_or("?");
                let r = rank(st);
                if r != 0 && r <= last {
                    out.violate("state-regressed", st.to_string(), format!("{who}: connection state moved to {st} after a state of rank {last}"), 0);
                }
                if r != 0 {
                    last = r;
                }
                closing |= r >= 7;
            } else if closing && name.ends_with(":packet_sent") {
                for f in v["data"]["frames"].as_array().map(|a| a.as_slice()).unwrap_or(&[]) {
                    let ty = f["frame_type"].as_str().unwrap_or("?");
                    // the statement speaks of application data: stream and datagram payload
                    if matches!(ty, "stream" | "datagram") {
                        out.violate("data-after-close", ty.to_string(), format!("{who}: sent a {ty} frame after entering the closing state"), 0);
                    }
                }
            }
        }
      }
    }
}

/// C19: datagrams are carried whole or not at all; an accepted datagram is put on the wire.
pub fn check_datagrams(out: &mut Outcome, case: &Case, l: &RunLog, _net: &SimNet) {
    if case.dgrams.is_empty() {
        return;
    }
    let fault_free = case.tape.is_empty() && case.tape.blackhole_from == [None, None] && case.net.bandwidth == 0;
    let rtt = (case.net.latency_ms[0] + case.net.latency_ms[1] + 2 * case.net.jitter_ms) as u64;
    out.stats.add("datagrams_accepted", l.dgram_sent.len() as u64);
    out.stats.add("datagrams_delivered", l.dgram_rcvd.len() as u64);
    if fault_free {
        for (side, idx, len, t) in &l.dgram_sent {
            let peer = if *side == Side::Client { Side::Server } else { Side::Client };
            let pi = (peer == Side::Server) as usize;
            // only judge datagrams that had time to arrive before either endpoint went away
            let end = [l.terminated_at[0].as_ref().map(|x| x.0), l.terminated_at[1].as_ref().map(|x| x.0), l.close_called_at[0], l.close_called_at[1]].into_iter().flatten().min().unwrap_or(u64::MAX);
            let hs = l.handshaked_at[pi].unwrap_or(u64::MAX);
            if t.max(&hs).saturating_add(3_000 + 3 * rtt) >= end {
                continue;
            }
            let got = l.dgram_rcvd.iter().any(|(s, i, _, _)| *s == peer && i == idx);
            if !got {
                out.violate("not-on-wire", "", format!("loss-free uncongested run: datagram {idx} ({len} bytes) accepted from the {side:?} at {t} ms was never received by the peer (connection alive until {end} ms)"), *t);
            } else {
                out.stats.bump("probe.datagram_roundtrip");
            }
        }
    }
}

/// C20 oracle B: every captured event serialises to a JSON object with the mandatory qlog fields, parses
/// back to an equal event, and converts to the legacy (qlog 0.3) form without panicking.
pub fn check_event_wellformed(out: &mut Outcome, cap: &Captured) {
    for server in [false, true] {
        for (_, e) in cap.side(server).iter() {
            out.stats.bump("events_checked");
            let v = match serde_json::to_value(e) {
                Ok(v) => v,
                Err(err) => {
                    out.violate("schema", "serialize", format!("event does not serialise: {err}; {e:?}"), 0);
                    continue;
                }
            };
            let name = v["name"].as_str().unwrap_or("").to_string();
            let site = name.clone();
            if !v.is_object() || !v["time"].is_number() || name.is_empty() || !name.contains(':') || !v["data"].is_object() {
                out.violate("schema", site.clone(), format!("event lacks time / name (category:event) / data: {v}"), 0);
                continue;
            }
            if v["group_id"].is_null() {
                out.violate("schema", format!("{site}:group_id"), format!("connection event without group_id: {v}"), 0);
            }
            let text = serde_json::to_string(e).unwrap_or_default();
            match serde_json::from_str::<qevent::Event>(&text) {
                Ok(back) => {
                    // the time stamp is wall-clock (content only) and a float: excluded from the comparison
                    let mut v2 = serde_json::to_value(&back).unwrap_or_default();
                    let mut v1 = v.clone();
                    for x in [&mut v1, &mut v2] {
                        if let Some(o) = x.as_object_mut() {
                            o.remove("time");
                        }
                    }
                    if v2 != v1 {
                        out.violate("roundtrip", site.clone(), format!("event changes when parsed back: {v} -> {v2}"), 0);
                    }
                }
                Err(err) => out.violate("roundtrip", site.clone(), format!("serialised event does not parse back ({err}): {text}"), 0),
            }
            // legacy conversion may refuse (Err) but must not panic; what it yields must serialise
            if let Ok(le) = qevent::legacy::Event::try_from(e.clone()) {
                if serde_json::to_string(&le).is_err() {
                    out.violate("schema", format!("{site}:legacy"), "legacy form does not serialise".to_string(), 0);
                }
                out.stats.bump("legacy_converted");
            }
        }
    }
}

/// The text the shipped LegacySeqLogger wrote: JSON-SEQ records, each a JSON object.
pub fn check_legacy_text(out: &mut Outcome, files: &[(String, std::sync::Arc<std::sync::Mutex<Vec<u8>>>)]) {
    for (name, buf) in files {
        let b = buf.lock().unwrap();
        for rec in b.split(|c| *c == 0x1e).filter(|r| !r.is_empty()) {
            out.stats.bump("legacy_records");
            match serde_json::from_slice::<serde_json::Value>(rec) {
                Ok(v) if v.is_object() => {}
                other => {
                    out.violate("schema", "legacy-record", format!("{name}: JSON-SEQ record is not a JSON object: {:?} ({:?})", String::from_utf8_lossy(&rec[..rec.len().min(120)]), other.err()), 0);
                    break;
                }
            }
        }
    }
}
