//! Application actors and the run driver.
use std::{
    net::SocketAddr,
    sync::{Arc, Mutex},
};

use dquic::{
    prelude::{handy::*, *},
    qbase::param::{ClientParameters, ServerParameters},
    qinterface::{
        component::{location::Locations, route::QuicRouter},
        io::ProductIO,
        manager::InterfaceManager,
    },
    qresolve::Source,
};
use rustls::pki_types::{CertificateDer, pem::PemObject};
use simcore::{Outcome, TraceHash, prf};
use tokio::{
    io::{AsyncReadExt, AsyncWriteExt},
    task::JoinHandle,
    time::{Duration, Instant},
};

use crate::{Case, CloseKind, Log, ParamCfg, Profile, RunLog, Side, StreamSpec, net::SimNet};

pub const CA_CERT: &[u8] = include_bytes!("../../../certs/ca.cert");
pub const SERVER_CERT: &[u8] = include_bytes!("../../../certs/server.cert");
pub const SERVER_KEY: &[u8] = include_bytes!("../../../certs/server.key");
pub const BIG_CA_CERT: &[u8] = include_bytes!("../../../certs/big/ca.cert");
pub const BIG_SERVER_CERT: &[u8] = include_bytes!("../../../certs/big/server.cert");
pub const BIG_SERVER_KEY: &[u8] = include_bytes!("../../../certs/big/server.key");

fn client_params(p: &ParamCfg) -> ClientParameters {
    let mut c = ClientParameters::default();
    for (id, v) in param_list(p) {
        c.set(id, v).expect("legal client parameter");
    }
    c.set(ParameterId::MaxIdleTimeout, Duration::from_millis(p.idle_ms as u64)).unwrap();
    c
}

fn server_params(p: &ParamCfg) -> ServerParameters {
    let mut c = ServerParameters::default();
    for (id, v) in param_list(p) {
        c.set(id, v).expect("legal server parameter");
    }
    c.set(ParameterId::MaxIdleTimeout, Duration::from_millis(p.idle_ms as u64)).unwrap();
    c
}

fn param_list(p: &ParamCfg) -> Vec<(ParameterId, u32)> {
    vec![
        (ParameterId::InitialMaxStreamsBidi, p.streams_bidi),
        (ParameterId::InitialMaxStreamsUni, p.streams_uni),
        (ParameterId::InitialMaxData, p.max_data),
        (ParameterId::InitialMaxStreamDataBidiLocal, p.stream_bidi_local),
        (ParameterId::InitialMaxStreamDataBidiRemote, p.stream_bidi_remote),
        (ParameterId::InitialMaxStreamDataUni, p.stream_uni),
        (ParameterId::ActiveConnectionIdLimit, p.active_cid_limit),
        (ParameterId::MaxDatagramFrameSize, p.max_datagram),
    ]
}

pub struct Ctx {
    pub case: Case,
    pub log: Log,
    pub start: Instant,
}

impl Ctx {
    pub fn now_ms(&self) -> u64 {
        Instant::now().saturating_duration_since(self.start).as_millis() as u64
    }
    fn start_actor(&self, name: &str) {
        let t = self.now_ms();
        self.log.lock().unwrap().started.insert(name.to_string(), t);
    }
    fn finish_actor(&self, name: &str, ok: bool, detail: impl Into<String>) {
        let t = self.now_ms();
        let d = detail.into();
        let mut l = self.log.lock().unwrap();
        l.events.push((t, name.to_string(), if ok { "done".into() } else { format!("failed: {d}") }, 0));
        l.finished.insert(name.to_string(), (t, ok, d));
    }
    fn violate(&self, clause: &str, site: &str, detail: String) {
        let t = self.now_ms();
        let mut l = self.log.lock().unwrap();
        let v = simcore::Violation::new(clause, site, detail, t);
        if !l.violations.iter().any(|x| x.signature() == v.signature()) {
            l.violations.push(v);
        }
    }
    fn event(&self, actor: &str, what: &str, n: u64) {
        let t = self.now_ms();
        self.log.lock().unwrap().events.push((t, actor.to_string(), what.to_string(), n));
    }
}

/// content key of the byte stream flowing on `sid` in the direction opener->acceptor (resp = false)
/// or acceptor->opener (resp = true)
fn stream_key(sid: StreamId, resp: bool) -> u64 {
    let role_bit = matches!(sid.role(), Role::Server) as u64;
    let dir_bit = matches!(sid.dir(), dquic::qbase::sid::Dir::Uni) as u64;
    (sid.id() << 3) | (dir_bit << 2) | (role_bit << 1) | resp as u64
}

async fn write_stream(ctx: &Ctx, name: &str, mut w: StreamWriter, key: u64, size: u32, chunk: u32, reset_after: Option<u32>, gap_ms: u32) -> Result<(), String> {
    let seed = ctx.case.seed;
    let mut pos: u64 = 0;
    let size = size as u64;
    while pos < size {
        if gap_ms > 0 && pos > 0 {
            tokio::time::sleep(Duration::from_millis(gap_ms as u64)).await;
        }
        if let Some(r) = reset_after {
            if pos >= r as u64 {
                w.cancel(7);
                ctx.event(name, "reset", pos);
                return Ok(());
            }
        }
        let n = (chunk as u64).min(size - pos) as usize;
        let buf: Vec<u8> = (0..n as u64).map(|k| prf(seed, key, pos + k)).collect();
        match AsyncWriteExt::write(&mut w, &buf).await {
            Ok(0) => return Err(format!("write returned 0 at {pos}")),
            Ok(m) => {
                if m > n {
                    ctx.violate("write-accounting", "", format!("{name}: write of {n} bytes reported {m} accepted"));
                }
                pos += m as u64;
            }
            Err(e) => return Err(format!("write at {pos}: {e}")),
        }
    }
    ctx.event(name, "written", pos);
    w.shutdown().await.map_err(|e| format!("shutdown: {e}"))?;
    ctx.event(name, "shutdown", pos);
    Ok(())
}

async fn read_stream(ctx: &Ctx, name: &str, mut r: StreamReader, key: u64, size: u32, read_buf: u32, peer_may_reset: bool, stop_after: Option<u32>) -> Result<(), String> {
    let seed = ctx.case.seed;
    let mut pos: u64 = 0;
    let mut buf = vec![0u8; read_buf.max(1) as usize];
    loop {
        if let Some(s) = stop_after {
            if pos >= s as u64 {
                r.stop(9);
                ctx.event(name, "stop_sending", pos);
                return Ok(());
            }
        }
        match r.read(&mut buf).await {
            Ok(0) => {
                // end of stream only after the last byte
                if pos != size as u64 {
                    ctx.violate("eof-only-at-final-size", "", format!("{name}: EOF after {pos} bytes of a {size}-byte stream"));
                    return Err("short eof".into());
                }
                ctx.event(name, "eof", pos);
                return Ok(());
            }
            Ok(n) => {
                for (i, b) in buf[..n].iter().enumerate() {
                    let p = pos + i as u64;
                    if p >= size as u64 || *b != prf(seed, key, p) {
                        ctx.violate("read-implies-written", "stream", format!("{name}: byte {p} read as {b:#x}, the peer wrote {:?} (stream size {size})", (p < size as u64).then(|| prf(seed, key, p))));
                        return Err("corrupt".into());
                    }
                }
                pos += n as u64;
                ctx.log.lock().unwrap().bytes_read += n as u64;
            }
            Err(e) => {
                if peer_may_reset {
                    ctx.event(name, "reset_seen", pos);
                    return Ok(());
                }
                return Err(format!("read at {pos}: {e}"));
            }
        }
    }
}

fn spec_for(ctx: &Ctx, sid: StreamId) -> Option<(usize, StreamSpec)> {
    let opener = if matches!(sid.role(), Role::Client) { Side::Client } else { Side::Server };
    let bidi = matches!(sid.dir(), dquic::qbase::sid::Dir::Bi);
    ctx.case
        .streams
        .iter()
        .enumerate()
        .filter(|(_, s)| s.opener == opener && s.bidi == bidi)
        .nth(sid.id() as usize)
        .map(|(i, s)| (i, s.clone()))
}

/// One endpoint's application: opens its streams in order, accepts the peer's, moves the bytes.
pub async fn run_side(ctx: Arc<Ctx>, side: Side, conn: Connection) {
    let tag = if side == Side::Client { "c" } else { "s" };
    let mut tasks: Vec<JoinHandle<()>> = Vec::new();
    let mine: Vec<(usize, StreamSpec)> = ctx.case.streams.iter().cloned().enumerate().filter(|(_, s)| s.opener == side).collect();
    let theirs_bi = ctx.case.streams.iter().filter(|s| s.opener != side && s.bidi).count();
    let theirs_uni = ctx.case.streams.iter().filter(|s| s.opener != side && !s.bidi).count();

    // opener: sequential opens so that the k-th stream of a kind is spec k of that kind
    {
        let (ctx, conn) = (ctx.clone(), conn.clone());
        let name = format!("{tag}.opener");
        ctx.start_actor(&name);
        tasks.push(tokio::spawn(async move {
            let mut subs = Vec::new();
            for (i, spec) in mine {
                if spec.bidi {
                    match conn.open_bi_stream().await {
                        Ok(Some((sid, (r, w)))) => {
                            ctx.event(&name, "opened_bi", sid.id());
                            let (c1, c2) = (ctx.clone(), ctx.clone());
                            let (n1, n2) = (format!("{tag}.w{i}"), format!("{tag}.r{i}"));
                            ctx.start_actor(&n1);
                            ctx.start_actor(&n2);
                            let sp = spec.clone();
                            subs.push(tokio::spawn(async move {
                                let res = write_stream(&c1, &n1, w, stream_key(sid, false), sp.size, sp.chunk, sp.reset_after, sp.gap_ms).await;
                                c1.finish_actor(&n1, res.is_ok() || sp.stop_after.is_some(), res.err().unwrap_or_default());
                            }));
                            let sp = spec.clone();
                            subs.push(tokio::spawn(async move {
                                let res = read_stream(&c2, &n2, r, stream_key(sid, true), sp.resp_size, sp.read_buf, false, None).await;
                                c2.finish_actor(&n2, res.is_ok(), res.err().unwrap_or_default());
                            }));
                        }
                        Ok(None) => {
                            ctx.finish_actor(&name, false, "open_bi_stream returned None (stream ids exhausted)");
                            return;
                        }
                        Err(e) => {
                            ctx.finish_actor(&name, false, format!("open_bi_stream: {e}"));
                            return;
                        }
                    }
                } else {
                    match conn.open_uni_stream().await {
                        Ok(Some((sid, w))) => {
                            ctx.event(&name, "opened_uni", sid.id());
                            let c1 = ctx.clone();
                            let n1 = format!("{tag}.w{i}");
                            ctx.start_actor(&n1);
                            let sp = spec.clone();
                            subs.push(tokio::spawn(async move {
                                let res = write_stream(&c1, &n1, w, stream_key(sid, false), sp.size, sp.chunk, sp.reset_after, sp.gap_ms).await;
                                c1.finish_actor(&n1, res.is_ok() || sp.stop_after.is_some(), res.err().unwrap_or_default());
                            }));
                        }
                        Ok(None) => {
                            ctx.finish_actor(&name, false, "open_uni_stream returned None");
                            return;
                        }
                        Err(e) => {
                            ctx.finish_actor(&name, false, format!("open_uni_stream: {e}"));
                            return;
                        }
                    }
                }
            }
            ctx.finish_actor(&name, true, "");
            for s in subs {
                let _ = s.await;
            }
        }));
    }
    // acceptors
    if theirs_bi > 0 {
        let (ctx, conn) = (ctx.clone(), conn.clone());
        let name = format!("{tag}.accept_bi");
        ctx.start_actor(&name);
        tasks.push(tokio::spawn(async move {
            let mut subs = Vec::new();
            for _ in 0..theirs_bi {
                match conn.accept_bi_stream().await {
                    Ok((sid, (r, w))) => {
                        ctx.event(&name, "accepted_bi", sid.id());
                        let Some((i, spec)) = spec_for(&ctx, sid) else {
                            ctx.violate("read-implies-written", "unknown-stream", format!("{name}: accepted bidi stream {sid:?} the peer never opened"));
                            continue;
                        };
                        let (c1, c2) = (ctx.clone(), ctx.clone());
                        let (n1, n2) = (format!("{tag}.r{i}"), format!("{tag}.w{i}"));
                        ctx.start_actor(&n1);
                        ctx.start_actor(&n2);
                        let sp = spec.clone();
                        subs.push(tokio::spawn(async move {
                            let res = read_stream(&c1, &n1, r, stream_key(sid, false), sp.size, sp.read_buf, sp.reset_after.is_some(), sp.stop_after).await;
                            c1.finish_actor(&n1, res.is_ok(), res.err().unwrap_or_default());
                        }));
                        let sp = spec.clone();
                        subs.push(tokio::spawn(async move {
                            let res = write_stream(&c2, &n2, w, stream_key(sid, true), sp.resp_size, sp.resp_chunk, None, sp.gap_ms).await;
                            c2.finish_actor(&n2, res.is_ok(), res.err().unwrap_or_default());
                        }));
                    }
                    Err(e) => {
                        ctx.finish_actor(&name, false, format!("accept_bi_stream: {e}"));
                        return;
                    }
                }
            }
            ctx.finish_actor(&name, true, "");
            for s in subs {
                let _ = s.await;
            }
        }));
    }
    if theirs_uni > 0 {
        let (ctx, conn) = (ctx.clone(), conn.clone());
        let name = format!("{tag}.accept_uni");
        ctx.start_actor(&name);
        tasks.push(tokio::spawn(async move {
            let mut subs = Vec::new();
            for _ in 0..theirs_uni {
                match conn.accept_uni_stream().await {
                    Ok((sid, r)) => {
                        ctx.event(&name, "accepted_uni", sid.id());
                        let Some((i, spec)) = spec_for(&ctx, sid) else {
                            ctx.violate("read-implies-written", "unknown-stream", format!("{name}: accepted uni stream {sid:?} the peer never opened"));
                            continue;
                        };
                        let c1 = ctx.clone();
                        let n1 = format!("{tag}.r{i}");
                        ctx.start_actor(&n1);
                        subs.push(tokio::spawn(async move {
                            let res = read_stream(&c1, &n1, r, stream_key(sid, false), spec.size, spec.read_buf, spec.reset_after.is_some(), spec.stop_after).await;
                            c1.finish_actor(&n1, res.is_ok(), res.err().unwrap_or_default());
                        }));
                    }
                    Err(e) => {
                        ctx.finish_actor(&name, false, format!("accept_uni_stream: {e}"));
                        return;
                    }
                }
            }
            ctx.finish_actor(&name, true, "");
            for s in subs {
                let _ = s.await;
            }
        }));
    }
    for t in tasks {
        let _ = t.await;
    }
}

/// datagram payload i of `side`: 4-byte index then prf bytes
fn dgram_payload(seed: u64, side: Side, idx: u32, len: u32) -> Vec<u8> {
    let key = 0x6000_0000_0000_0000u64 | ((side == Side::Server) as u64) << 40 | idx as u64;
    let mut v: Vec<u8> = (0..len as u64).map(|k| prf(seed, key, k)).collect();
    for (i, b) in idx.to_be_bytes().iter().enumerate() {
        if i < v.len() {
            v[i] = *b;
        }
    }
    v
}

/// Background actors: datagram sender / receiver and the operations parked for C17. They are not part of
/// the workload (an unreliable datagram may never arrive); they must end when the connection ends.
#[allow(deprecated)]
pub fn spawn_background(ctx: &Arc<Ctx>, side: Side, conn: &Connection) {
    let tag = if side == Side::Client { "c" } else { "s" };
    let seed = ctx.case.seed;
    for (di, spec) in ctx.case.dgrams.iter().enumerate().filter(|(_, d)| d.side == side) {
        let (ctx, conn, spec) = (ctx.clone(), conn.clone(), spec.clone());
        let name = format!("bg.{tag}.dgram_send{di}");
        ctx.start_actor(&name);
        tokio::spawn(async move {
            let peer_max = if side == Side::Client { ctx.case.server.max_datagram } else { ctx.case.client.max_datagram } as u64;
            let w = match conn.datagram_writer().await {
                Ok(Ok(w)) => w,
                Ok(Err(e)) => {
                    if peer_max != 0 {
                        ctx.violate("refusal", "writer-unsupported", format!("{name}: datagram_writer() refused ({e}) although the peer advertises max_datagram_frame_size {peer_max}"));
                    }
                    ctx.finish_actor(&name, true, format!("unsupported: {e}"));
                    return;
                }
                Err(e) => {
                    ctx.finish_actor(&name, true, format!("connection: {e}"));
                    return;
                }
            };
            if peer_max == 0 {
                ctx.violate("refusal", "writer-granted", format!("{name}: datagram_writer() granted although the peer advertises max_datagram_frame_size 0"));
            }
            for (i, len) in spec.sizes.iter().enumerate() {
                let payload = dgram_payload(seed, side, i as u32, *len);
                let res = w.send_bytes(bytes::Bytes::from(payload));
                // RFC 9221: the limit applies to the whole frame; the smallest encoding is type byte + payload
                let fits = 1 + *len as u64 <= peer_max;
                let t = ctx.now_ms();
                match res {
                    Ok(()) => {
                        if !fits {
                            ctx.violate("refusal", "oversize-accepted-for-send", format!("{name}: datagram of {len} bytes accepted, peer max_datagram_frame_size is {peer_max}"));
                        }
                        ctx.log.lock().unwrap().dgram_sent.push((side, i as u32, *len, t));
                    }
                    Err(e) => {
                        let closed = ctx.log.lock().unwrap().terminated_at[(side == Side::Server) as usize].is_some();
                        if fits && !closed {
                            ctx.violate("refusal", "fitting-refused", format!("{name}: datagram of {len} bytes refused ({e}), peer max_datagram_frame_size is {peer_max}"));
                        }
                        if closed {
                            break;
                        }
                    }
                }
                if spec.gap_ms > 0 {
                    tokio::time::sleep(Duration::from_millis(spec.gap_ms as u64)).await;
                }
            }
            ctx.finish_actor(&name, true, "");
        });
    }
    let peer_sends = ctx.case.dgrams.iter().any(|d| d.side != side);
    let hang_recv = ctx.case.hangers.iter().any(|h| h.side == side && h.kind == crate::HangKind::DgramRecv);
    if peer_sends || hang_recv {
        let (ctx, conn) = (ctx.clone(), conn.clone());
        let name = format!("bg.{tag}.dgram_recv");
        ctx.start_actor(&name);
        tokio::spawn(async move {
            let mut r = match conn.datagram_reader() {
                Ok(Ok(r)) => r,
                Ok(Err(e)) => {
                    ctx.finish_actor(&name, true, format!("unsupported: {e}"));
                    return;
                }
                Err(e) => {
                    ctx.finish_actor(&name, true, format!("connection: {e}"));
                    return;
                }
            };
            let peer = if side == Side::Client { Side::Server } else { Side::Client };
            let mut last_idx: Option<u32> = None;
            loop {
                match r.recv().await {
                    Ok(data) => {
                        let t = ctx.now_ms();
                        if data.len() < 4 {
                            // short payloads carry a truncated index: attribute by content of what the peer sent
                            let ok = ctx.case.dgrams.iter().filter(|d| d.side == peer).any(|d| d.sizes.iter().enumerate().any(|(i, l)| *l as usize == data.len() && dgram_payload(seed, peer, i as u32, *l) == data[..]));
                            if !ok {
                                ctx.violate("payload", "short", format!("{name}: received a {}-byte datagram the peer never sent", data.len()));
                            }
                            continue;
                        }
                        let idx = u32::from_be_bytes([data[0], data[1], data[2], data[3]]);
                        let expect = ctx.case.dgrams.iter().find(|d| d.side == peer).and_then(|d| d.sizes.get(idx as usize).map(|l| dgram_payload(seed, peer, idx, *l)));
                        match expect {
                            Some(p) if p == data[..] => {}
                            Some(p) => ctx.violate("payload", "altered", format!("{name}: datagram {idx} received with {} bytes, sent with {} (merged, truncated or altered)", data.len(), p.len())),
                            None => ctx.violate("payload", "unknown", format!("{name}: received datagram index {idx} the peer never sent")),
                        }
                        if last_idx.is_some_and(|l| idx <= l) {
                            ctx.violate("order", "", format!("{name}: datagram {idx} delivered after {}", last_idx.unwrap()));
                        }
                        last_idx = Some(idx);
                        ctx.log.lock().unwrap().dgram_rcvd.push((side, idx, data.len() as u32, t));
                    }
                    Err(e) => {
                        ctx.finish_actor(&name, true, format!("ended: {e}"));
                        return;
                    }
                }
            }
        });
    }
    for h in ctx.case.hangers.iter().filter(|h| h.side == side) {
        use crate::HangKind::*;
        let (ctx, conn) = (ctx.clone(), conn.clone());
        let kind = h.kind;
        if kind == DgramRecv {
            continue;
        }
        // the listener keeps ONE waker per accept kind: a parked accept is only added where the workload
        // itself has no acceptor of that kind (two concurrent accepts are not judged, DESIGN §7 S15)
        let peer_opens = |bidi: bool| ctx.case.streams.iter().any(|s| s.opener != side && s.bidi == bidi);
        if (kind == AcceptBi && peer_opens(true)) || (kind == AcceptUni && peer_opens(false)) {
            continue;
        }
        let name = format!("bg.{tag}.hang_{kind:?}");
        ctx.start_actor(&name);
        tokio::spawn(async move {
            let detail = match kind {
                // one more accept than the peer will ever open streams
                AcceptBi => loop {
                    match conn.accept_bi_stream().await {
                        Ok(_) => continue,
                        Err(e) => break format!("{:?}", e.kind()),
                    }
                },
                AcceptUni => loop {
                    match conn.accept_uni_stream().await {
                        Ok(_) => continue,
                        Err(e) => break format!("{:?}", e.kind()),
                    }
                },
                Handshaked => match conn.handshaked().await {
                    Ok(()) => "ok".to_string(),
                    Err(e) => format!("{:?}", e.kind()),
                },
                Terminated => format!("{:?}", conn.terminated().await.kind()),
                OpenBiUntilBlocked => {
                    let mut held = Vec::new();
                    loop {
                        match conn.open_bi_stream().await {
                            Ok(Some(s)) if held.len() < 200 => held.push(s),
                            Ok(_) => break "exhausted".to_string(),
                            Err(e) => break format!("{:?}", e.kind()),
                        }
                    }
                }
                OpenUniUntilBlocked => {
                    let mut held = Vec::new();
                    loop {
                        match conn.open_uni_stream().await {
                            Ok(Some(s)) if held.len() < 200 => held.push(s),
                            Ok(_) => break "exhausted".to_string(),
                            Err(e) => break format!("{:?}", e.kind()),
                        }
                    }
                }
                DgramRecv => unreachable!(),
            };
            ctx.finish_actor(&name, true, detail);
        });
    }
}

/// After `close()` returned on this endpoint: every new operation must fail, promptly.
#[allow(deprecated)]
async fn later_ops(ctx: Arc<Ctx>, side: Side, conn: Connection) {
    let tag = if side == Side::Client { "c" } else { "s" };
    let name = format!("bg.{tag}.later_ops");
    ctx.start_actor(&name);
    let mut oks = Vec::new();
    if let Ok(Some(_)) = conn.open_bi_stream().await {
        oks.push("open_bi_stream");
    }
    if let Ok(Some(_)) = conn.open_uni_stream().await {
        oks.push("open_uni_stream");
    }
    if conn.accept_bi_stream().await.is_ok() {
        oks.push("accept_bi_stream");
    }
    if conn.accept_uni_stream().await.is_ok() {
        oks.push("accept_uni_stream");
    }
    if let Ok(Ok(w)) = conn.datagram_writer().await {
        if w.send_bytes(bytes::Bytes::from_static(b"after close")).is_ok() {
            oks.push("datagram send");
        }
    }
    if conn.handshaked().await.is_ok() && ctx.log.lock().unwrap().handshaked_at[(side == Side::Server) as usize].is_none() {
        oks.push("handshaked");
    }
    for op in &oks {
        ctx.violate("ok-after-close", op, format!("{tag}: {op} succeeded after close() had returned"));
    }
    ctx.finish_actor(&name, true, "");
}

fn watch_terminated(ctx: Arc<Ctx>, idx: usize, conn: Connection) {
    tokio::spawn(async move {
        let e = conn.terminated().await;
        let t = ctx.now_ms();
        let kind = format!("{:?}", e.kind());
        let mut l = ctx.log.lock().unwrap();
        l.terminated_at[idx] = Some((t, kind.clone()));
        l.events.push((t, if idx == 0 { "c.conn".into() } else { "s.conn".into() }, format!("terminated:{kind}"), 0));
        l.term_detail[idx] = e.to_string();
    });
}

pub async fn drive(case: &Case) -> Outcome {
    let mut out = Outcome::default();
    let start = Instant::now();
    let server_addr: SocketAddr = "127.0.0.1:4433".parse().unwrap();
    let net = SimNet::new(case.net.clone(), case.tape.clone(), server_addr);
    let pump = tokio::spawn(net.clone().run_pump());
    if std::env::var("NETSIM_HEARTBEAT").is_ok() {
        tokio::spawn(async move {
            let t0 = std::time::Instant::now();
            loop {
                tokio::time::sleep(Duration::from_millis(500)).await;
                eprintln!("HB vtime={}ms wall={}ms", Instant::now().saturating_duration_since(start).as_millis(), t0.elapsed().as_millis());
            }
        });
    }
    let log: Log = Arc::new(Mutex::new(RunLog::default()));
    let ctx = Arc::new(Ctx { case: case.clone(), log: log.clone(), start });

    let factory: Arc<dyn ProductIO> = Arc::new(net.factory());
    let router = Arc::new(QuicRouter::default());
    let captured = Arc::new(crate::qlogcap::Captured::default());
    let legacy_store = crate::qlogcap::MemStorage {
        fail_after: (case.qlog == crate::QlogMode::LegacyFailing).then(|| [0usize, 150, 1500, 20_000][(case.seed % 4) as usize]),
        ..Default::default()
    };
    let qlog: Arc<dyn qevent::telemetry::QLog + Send + Sync> = {
        use crate::{QlogMode, qlogcap::CaptureLog};
        let net2 = net.clone();
        // address validation of the client is established when the server first processes a Handshake packet
        let on_event: Arc<dyn Fn(bool, &qevent::Event) + Send + Sync> = Arc::new(move |server, ev| {
            if server && net2.inner.lock().unwrap().server_validated_at.is_none() {
                let v = serde_json::to_value(ev).unwrap_or_default();
                if v["name"].as_str().is_some_and(|n| n.ends_with("packet_received")) && v["data"]["header"]["packet_type"] == "handshake" {
                    net2.mark_server_validated();
                }
            }
            // the rebound address is validated when the server processes a PATH_RESPONSE after the rebinding
            let (rebound, open) = {
                let g = net2.inner.lock().unwrap();
                (g.nat_real.is_some(), g.alt_validated_at.is_none())
            };
            if server && rebound && open {
                let v = serde_json::to_value(ev).unwrap_or_default();
                // what the server sends on the rebound path before validation, split into probes and everything else
                if v["name"].as_str().is_some_and(|n| n.ends_with("packet_sent")) && v["path"].as_str().is_some_and(|p| p.contains("127.0.0.7:7777")) {
                    let probe_only = v["data"]["frames"].as_array().is_some_and(|fs| fs.iter().all(|f| matches!(f["frame_type"].as_str(), Some("path_challenge" | "path_response" | "padding" | "ping"))));
                    let long = v["data"]["header"]["packet_type"].as_str().is_some_and(|t| t != "1RTT");
                    if !probe_only && !long {
                        net2.note_alt_data(v["data"]["raw"]["length"].as_u64().unwrap_or(0));
                    }
                }
                if v["name"].as_str().is_some_and(|n| n.ends_with("packet_received")) && v["data"]["frames"].as_array().is_some_and(|fs| fs.iter().any(|f| f["frame_type"] == "path_response")) {
                    net2.mark_alt_validated();
                }
            }
        });
        match case.qlog {
            QlogMode::Noop => Arc::new(NoopLogger),
            QlogMode::Capture => Arc::new(CaptureLog { sink: captured.clone(), raw: false, filter: None, discard: false, on_event: Some(on_event) }),
            QlogMode::CaptureRaw => Arc::new(CaptureLog { sink: captured.clone(), raw: true, filter: None, discard: false, on_event: Some(on_event) }),
            QlogMode::Filtered => Arc::new(CaptureLog { sink: captured.clone(), raw: false, filter: Some(case.seed | 1), discard: false, on_event: None }),
            QlogMode::DiscardAll => Arc::new(CaptureLog { sink: captured.clone(), raw: false, filter: None, discard: true, on_event: None }),
            QlogMode::Legacy | QlogMode::LegacyFailing => Arc::new(qevent::telemetry::handy::LegacySeqLogger::new(legacy_store.clone())),
        }
    };

    // server
    let listeners = QuicListeners::builder()
        .with_router(router.clone())
        .with_iface_factory(factory.clone())
        .with_iface_manager(Arc::new(InterfaceManager::new()))
        .with_locations(Arc::new(Locations::new()))
        .without_client_cert_verifier()
        .with_parameters(server_params(&case.server))
        .with_qlog(qlog.clone())
        .listen(16);
    let listeners = match listeners {
        Ok(l) => l,
        Err(e) => {
            out.harness_error = Some(format!("listen: {e}"));
            return out;
        }
    };
    if let Err(e) = listeners.add_server("localhost", if case.big_cert { BIG_SERVER_CERT } else { SERVER_CERT }, if case.big_cert { BIG_SERVER_KEY } else { SERVER_KEY }, [BindUri::from("inet://127.0.0.1:4433")], None).await {
        out.harness_error = Some(format!("add_server: {e}"));
        return out;
    }
    let server_conn: Arc<Mutex<Option<Connection>>> = Arc::new(Mutex::new(None));
    let server_task = {
        let (ctx, listeners, slot) = (ctx.clone(), listeners.clone(), server_conn.clone());
        ctx.start_actor("s.accept_conn");
        tokio::spawn(async move {
            match listeners.accept().await {
                Ok((conn, _name, _pathway, _link)) => {
                    *slot.lock().unwrap() = Some(conn.clone());
                    ctx.finish_actor("s.accept_conn", true, "");
                    let hs = {
                        let (ctx, conn) = (ctx.clone(), conn.clone());
                        tokio::spawn(async move {
                            let r = conn.handshaked().await;
                            let t = ctx.now_ms();
                            if r.is_ok() {
                                ctx.log.lock().unwrap().handshaked_at[1] = Some(t);
                            }
                        })
                    };
                    watch_terminated(ctx.clone(), 1, conn.clone());
                    spawn_background(&ctx, Side::Server, &conn);
                    run_side(ctx.clone(), Side::Server, conn).await;
                    let _ = hs.await;
                }
                Err(_) => ctx.finish_actor("s.accept_conn", false, "listeners shut down"),
            }
        })
    };

    // client
    let mut roots = rustls::RootCertStore::empty();
    roots.add_parsable_certificates(CertificateDer::pem_slice_iter(if case.big_cert { BIG_CA_CERT } else { CA_CERT }).map(Result::unwrap));
    let client = QuicClient::builder()
        .with_router(router.clone())
        .with_iface_factory(factory.clone())
        .with_iface_manager(Arc::new(InterfaceManager::new()))
        .with_locations(Arc::new(Locations::new()))
        .with_root_certificates(roots)
        .with_parameters(client_params(&case.client))
        .without_cert()
        .with_qlog(qlog.clone())
        .build();
    let client = Arc::new(client);
    let conn = match client.connected_to_with_source("localhost", [(Source::System, server_addr.into())]).await {
        Ok(c) => c,
        Err(e) => {
            out.harness_error = Some(format!("connect: {e}"));
            return out;
        }
    };
    let client_hs = {
        let (ctx, conn) = (ctx.clone(), conn.clone());
        tokio::spawn(async move {
            let r = conn.handshaked().await;
            let t = ctx.now_ms();
            if r.is_ok() {
                ctx.log.lock().unwrap().handshaked_at[0] = Some(t);
            }
        })
    };
    watch_terminated(ctx.clone(), 0, conn.clone());
    spawn_background(&ctx, Side::Client, &conn);
    // scheduled close (C17)
    let closer = {
        let (ctx, conn, slot) = (ctx.clone(), conn.clone(), server_conn.clone());
        let kind = case.close;
        tokio::spawn(async move {
            let (who, at): (Vec<Side>, u32) = match kind {
                CloseKind::At { who, at_ms } => (vec![who], at_ms),
                CloseKind::Both { at_ms } => (vec![Side::Client, Side::Server], at_ms),
                _ => return,
            };
            tokio::time::sleep(Duration::from_millis(at as u64)).await;
            for side in who {
                let c = if side == Side::Client { Some(conn.clone()) } else { slot.lock().unwrap().clone() };
                let Some(c) = c else { continue };
                let t = ctx.now_ms();
                let r = c.close("scheduled close", 42);
                {
                    let mut l = ctx.log.lock().unwrap();
                    l.close_called_at[(side == Side::Server) as usize] = Some(t);
                    l.events.push((t, if side == Side::Client { "c.conn".into() } else { "s.conn".into() }, format!("close():{}", r.is_ok()), 0));
                }
                tokio::spawn(later_ops(ctx.clone(), side, c));
            }
        })
    };
    let client_task = tokio::spawn(run_side(ctx.clone(), Side::Client, conn.clone()));

    // workload phase
    let cap_ms = std::env::var("NETSIM_CAP_MS").ok().and_then(|s| s.parse().ok()).unwrap_or(case.cap_ms as u64);
    let cap = Duration::from_millis(cap_ms);
    let mut client_hs = client_hs;
    let workload = async {
        let _ = client_task.await;
        // the client's handshake outcome (confirmed or failed) belongs to the workload
        let _ = (&mut client_hs).await;
        // the listener's accept() is not bound to any connection: if the client is finished and the server
        // never saw a connection, give it a grace period and stop waiting
        let mut server_task = server_task;
        loop {
            tokio::select! {
                biased;
                _ = &mut server_task => break,
                _ = tokio::time::sleep(Duration::from_secs(10)) => {
                    let client_gone = ctx.log.lock().unwrap().terminated_at[0].is_some();
                    if server_conn.lock().unwrap().is_none() && client_gone {
                        server_task.abort();
                        break;
                    }
                }
            }
        }
    };
    let completed = tokio::time::timeout(cap, workload).await.is_ok();
    let completed_at = ctx.now_ms();

    // close phase
    let mut who_closes: Vec<usize> = Vec::new();
    match case.close {
        CloseKind::AfterWorkload if completed => {
            let t = ctx.now_ms();
            let _ = conn.close("done", 0);
            ctx.log.lock().unwrap().close_called_at[0] = Some(t);
            tokio::spawn(later_ops(ctx.clone(), Side::Client, conn.clone()));
            who_closes.push(0);
        }
        CloseKind::At { who, .. } => who_closes.push((who == Side::Server) as usize),
        CloseKind::Both { .. } => who_closes.extend([0, 1]),
        _ => {}
    }
    let _ = closer.await;
    // wait until both endpoints have terminated (bounded), then a grace period in which every parked
    // operation has to be released
    let idle_eff = [case.client.idle_ms, case.server.idle_ms].into_iter().filter(|i| *i > 0).min().unwrap_or(0) as u64;
    let wait_term = Duration::from_millis(if idle_eff > 0 { idle_eff + 60_000 } else { 60_000 });
    let sc = server_conn.lock().unwrap().clone();
    let both = async {
        conn.terminated().await;
        if let Some(sc) = &sc {
            sc.terminated().await;
        }
    };
    let remaining = cap.saturating_sub(Instant::now().saturating_duration_since(start));
    let _ = tokio::time::timeout(wait_term.min(remaining.max(Duration::from_secs(1))), both).await;
    let rtt = Duration::from_millis((case.net.latency_ms[0] + case.net.latency_ms[1] + 2 * case.net.jitter_ms) as u64);
    let release_bound = Duration::from_millis(1_000) + 6 * rtt;
    tokio::time::sleep(release_bound + Duration::from_millis(1)).await;
    client_hs.abort();

    // verdicts
    let l = log.lock().unwrap();
    let mut th = TraceHash::default();
    crate::hash_wire(&net, &mut th);
    let wire_hash = th.get();
    // canonical application trace: events of different actors completing at the same virtual instant have
    // no defined order (it follows hash-map iteration inside the stack); per-actor order is kept
    let mut canon: Vec<&(u64, String, String, u64)> = l.events.iter().collect();
    canon.sort_by(|x, y| (x.0, &x.1).cmp(&(y.0, &y.1)));
    let mut ah = TraceHash::default();
    for (t, a, w, n) in canon {
        ah.add(*t);
        ah.add_str(a);
        ah.add_str(w);
        ah.add(*n);
    }
    crate::LAST_HASHES.with(|h| h.set((wire_hash, ah.get())));
    {
        let mut per_actor: Vec<(&String, &String, u64)> = l.events.iter().map(|(_, a, w, n)| (a, w, *n)).collect();
        // stable per actor: events of one actor keep their order, actors are grouped
        per_actor.sort_by(|x, y| x.0.cmp(y.0));
        let mut uh = TraceHash::default();
        for (a, w, n) in per_actor {
            uh.add_str(a);
            uh.add_str(w);
            uh.add(n);
        }
        crate::LAST_UNTIMED.with(|h| h.set(uh.get()));
    }
    for (t, a, w, n) in &l.events {
        th.add(*t);
        th.add_str(a);
        th.add_str(w);
        th.add(*n);
    }
    out.trace_hash = th.get();
    for v in &l.violations {
        out.violate(&v.clause, v.site.clone(), v.detail.clone(), v.at);
    }
    // the listener's accept() is not an operation on a connection: it may legitimately wait forever
    let pending: Vec<String> = l
        .started
        .keys()
        .filter(|k| !l.finished.contains_key(*k) && !(case.profile == Profile::Unbounded && k.as_str() == "s.accept_conn"))
        .filter(|k| !(k.as_str() == "s.accept_conn" && l.terminated_at[0].is_some()))
        .filter(|k| !k.starts_with("bg."))
        .cloned()
        .collect();
    // neither endpoint may conclude that its peer broke the protocol: the peer is the same stack and the
    // network cannot forge authenticated packets
    for (i, t) in l.terminated_at.iter().enumerate() {
        if let Some((at, kind)) = t {
            if !matches!(kind.as_str(), "None" | "Application" | "NoViablePath") {
                out.violate("unexpected-conn-error", kind.clone(), format!("{} terminated with {}", if i == 0 { "client" } else { "server" }, l.term_detail[i]), *at);
            }
        }
    }
    let failed: Vec<(String, String)> = l.finished.iter().filter(|(_, (_, ok, _))| !ok).map(|(k, (_, _, d))| (k.clone(), d.clone())).collect();
    let g = net.inner.lock().unwrap();
    if std::env::var("NETSIM_DUMP_QLOG").is_ok() {
        for (who, server) in [("client", false), ("server", true)] {
            for (_, e) in captured.side(server).iter().take(std::env::var("NETSIM_DUMP_QLOG").ok().and_then(|s| s.parse().ok()).unwrap_or(60)) {
                eprintln!("QLOG {who} {}", serde_json::to_string(e).unwrap_or_default());
            }
        }
    }
    if std::env::var("NETSIM_DUMP").is_ok() {
        for e in &g.log {
            eprintln!("WIRE t={} dir={} #{} len={} first={:#x} fault={:?} qdrop={}", e.at_ms, e.dir, e.ordinal, e.len, e.first, e.fault, e.queue_drop);
        }
        for (t, a, w, n) in &l.events {
            eprintln!("APP t={t} {a} {w} {n}");
        }
    }
    let last_fault = g.last_fault_at_ms;
    let rtt_ms = (case.net.latency_ms[0] + case.net.latency_ms[1]) as u64;
    // One failure mode gets a site of its own, so that it can be listed without hiding any other stall: congestion
    // collapse on a slow link. During the last 30 virtual seconds before the cap (300 s; the whole workload needs at
    // most ~105 s of link time at the slowest rate drawn) an endpoint still offers a bottleneck link more than half
    // of what it can carry, i.e. it is flooding it with retransmissions long after the applications handed over
    // their last byte. A stream that merely stalls (nothing but an occasional probe is sent) never shows this.
    let collapse = {
        let from = completed_at.saturating_sub(30_000);
        let saturated = |dir: usize| {
            let offered: u64 = g.log.iter().filter(|e| e.dir == dir && e.at_ms >= from).map(|e| e.len as u64).sum();
            case.net.bandwidth > 0 && completed_at >= 120_000 && offered >= case.net.bandwidth as u64 * 30_000 / 2
        };
        saturated(0) || saturated(1)
    };
    match case.profile {
        Profile::Bounded => {
            if l.handshaked_at[0].is_none() || l.handshaked_at[1].is_none() {
                out.violate("liveness-handshake", "", format!("bounded faults (last fired at {last_fault} ms) but the handshake did not complete on both sides by {completed_at} ms: handshaked_at {:?}, terminated {:?}", l.handshaked_at, l.terminated_at), completed_at);
            } else if !completed || !pending.is_empty() {
                let hs = l.handshaked_at;
                let clause = if hs[0].is_none() || hs[1].is_none() { "liveness-handshake" } else { "liveness-transfer" };
                let site = if !pending.is_empty() && collapse { "bottleneck-saturated-at-cap" } else { "" };
                out.violate(clause, site, format!("bounded faults (last fired at {last_fault} ms) but at {completed_at} ms still pending: {pending:?}; failed: {failed:?}; handshaked_at {hs:?}"), completed_at);
            } else if !failed.is_empty() {
                out.violate("liveness-transfer", "failed", format!("bounded faults but operations failed: {failed:?}"), completed_at);
            } else {
                let rounds = crate::window_rounds(&case.streams, &case.client, &case.server);
                let total: u64 = case.streams.iter().map(|s| (s.size + s.resp_size) as u64).sum();
                let tx_ms = if case.net.bandwidth > 0 { 4 * total / case.net.bandwidth as u64 } else { 0 };
                let budget = 60_000 + (20 + 4 * rounds) * (rtt_ms + 2 * case.net.jitter_ms as u64 + 25) + tx_ms + crate::paced_ms(&case.streams);
                if completed_at > last_fault + budget {
                    out.violate("liveness-transfer", "late", format!("workload completed at {completed_at} ms, more than {budget} ms after the last fault ({last_fault} ms)"), completed_at);
                }
            }
        }
        Profile::Unbounded => {
            if !completed || !pending.is_empty() {
                // which endpoint's operations hang, and did its connection ever terminate?
                for (i, tag) in ["c.", "s."].iter().enumerate() {
                    let mine: Vec<&String> = pending.iter().filter(|p| p.starts_with(tag)).collect();
                    if mine.is_empty() {
                        continue;
                    }
                    let who = if i == 0 { "client" } else { "server" };
                    match &l.terminated_at[i] {
                        None => {
                            // "told the connection failed instead of hanging" is about a peer that is gone: an endpoint
                            // that still receives its peer's datagrams (a lossy but live network, up to 90 % loss) has a
                            // live connection, however slowly it moves. Judged only when nothing has reached the endpoint
                            // for longer than the effective idle timeout (or the PTO give-up bound) plus 10 s.
                            let idle_eff = [case.client.idle_ms, case.server.idle_ms].into_iter().filter(|x| *x > 0).min().unwrap_or(60_000) as u64;
                            let silent_for = completed_at.saturating_sub(g.last_delivered_ms[i]);
                            if silent_for <= idle_eff + 10_000 && !collapse {
                                out.stats.bump("probe.alive_at_cap_on_lossy_network");
                                continue;
                            }
                            let phase = if collapse { "bottleneck-saturated-at-cap" } else if l.handshaked_at[i].is_some() { "after-handshake" } else { "before-handshake" };
                            out.violate("bounded-failure", format!("conn-never-terminated:{phase}"), format!("{who}: at the cap ({completed_at} ms) the connection has not terminated and {mine:?} are still pending (idle timeouts {}/{} ms)", case.client.idle_ms, case.server.idle_ms), completed_at);
                        }
                        Some((t, kind)) => {
                            let op = mine[0].split('.').nth(1).unwrap_or("op").trim_end_matches(char::is_numeric).to_string();
                            out.violate("bounded-failure", format!("pending-after-termination:{op}"), format!("{who}: connection terminated at {t} ms ({kind}) but at {completed_at} ms {mine:?} are still pending"), completed_at);
                        }
                    }
                }
            }
        }
    }
    for (k, v) in &g.fired {
        out.stats.add(k, *v);
    }
    drop(g);
    crate::oracles::check_termination(&mut out, case, &l, &net, &who_closes, release_bound.as_millis() as u64, ctx.now_ms());
    crate::oracles::check_datagrams(&mut out, case, &l, &net);
    if case.qlog == crate::QlogMode::Legacy {
        let files = legacy_store.files.lock().unwrap();
        let bytes: usize = files.iter().map(|(_, b)| b.lock().unwrap().len()).sum();
        out.stats.add("legacy_sqlog_bytes", bytes as u64);
        crate::oracles::check_legacy_text(&mut out, &files);
    }
    if matches!(case.qlog, crate::QlogMode::Capture | crate::QlogMode::CaptureRaw | crate::QlogMode::Filtered) {
        crate::oracles::check_event_wellformed(&mut out, &captured);
    }
    if case.qlog == crate::QlogMode::Capture || case.qlog == crate::QlogMode::CaptureRaw {
        crate::oracles::check_packet_roundtrip(&mut out, &captured);
        crate::oracles::check_pn_monotone(&mut out, &captured);
        crate::oracles::check_amplification(&mut out, &net);
        crate::oracles::check_close_qlog(&mut out, &captured);
    }
    let g = net.inner.lock().unwrap();
    // C15 "sending resumes as soon as ... the address is validated": after a NAT rebinding whose new address the server
    // has validated (it processed a PATH_RESPONSE) the server still has data to send (one of its writers is pending at
    // the cap) and yet everything it ever sent to the new address stays within three times what it received from it:
    // the path is still throttled although validated. (A validated path is unlimited: the 60 kB the server has to send
    // dwarf three times the acknowledgements it receives.)
    if let (Some(_), Some(v_at)) = (g.nat_real, g.alt_validated_at) {
        let server_writer_pending = pending.iter().any(|p| p.starts_with("s.w"));
        let (sent, rcvd) = g.ledger.get(&(net.server_addr, crate::net::nat_alt())).map(|l| (l.sent, l.rcvd)).unwrap_or((0, 0));
        // (only when the client has sent a trickle since: otherwise three times that is no constraint at all)
        if server_writer_pending && rcvd < 20_000 && sent <= 3 * rcvd + 1200 {
            out.violate("resume", "after-path-validation:still-capped", format!("the server validated the client's new address at {v_at} ms; at {completed_at} ms its writers {:?} are still pending and it has sent {sent} bytes there after receiving {rcvd} (3x = {})", pending.iter().filter(|p| p.starts_with("s.w")).collect::<Vec<_>>(), 3 * rcvd), completed_at);
        } else if !pending.is_empty() {
            out.stats.bump("probe.stalled_after_rebinding_not_judged");
        }
    }
    out.stats.add("datagrams_c2s", g.ordinals[0] as u64);
    out.stats.add("datagrams_s2c", g.ordinals[1] as u64);
    if completed && pending.is_empty() && failed.is_empty() {
        out.stats.bump("probe.workload_completed");
    }
    if !failed.is_empty() {
        out.stats.bump("probe.some_operation_failed");
    }
    out.nontrivial = !g.fired.is_empty() && (l.bytes_read > 0 || l.handshaked_at[0].is_some());
    out.sim_seconds = ctx.now_ms() as f64 / 1000.0;
    drop(g);
    drop(l);
    pump.abort();
    listeners.shutdown();
    // The stack does not free everything a connection held when the runtime goes away (reference cycles between a
    // connection's components keep the exporter and the I/O objects alive): what the simulator handed to it is emptied
    // here, so that a batch of 10^5 runs keeps a flat memory profile instead of growing by megabytes per run.
    captured.client.lock().unwrap().clear();
    captured.client.lock().unwrap().shrink_to_fit();
    captured.server.lock().unwrap().clear();
    captured.server.lock().unwrap().shrink_to_fit();
    legacy_store.files.lock().unwrap().clear();
    net.release_memory();
    ctx.log.lock().unwrap().release_memory();
    out
}
