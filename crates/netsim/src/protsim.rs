//! protsim — packet protection between two endpoints at component level (C06, the part the whole stack cannot reach:
//! Initial tokens of every length, connection ids of 0..20 bytes, every payload size, key updates by either side).
//! Two endpoints hold genuine key material (Initial keys derived from the destination cid, Handshake and 1-RTT keys
//! from a real in-memory rustls handshake). Each `Send` assembles a packet with the real `PacketWriter` and
//! `encrypt_and_protect_packet`; a network that delays, reorders, drops, truncates, flips bits, reflects packets to
//! their sender and lies about the expected packet number carries it to the real receive path (`be_packet`,
//! `CipherPacket::decrypt_{long,short}_packet`, `OneRttPacketKeys::get_remote`).
use std::sync::Arc;

use bytes::{BufMut, BytesMut};
use dquic::qinterface::component::route::CipherPacket;
use qbase::{
    cid::ConnectionId,
    packet::{
        AssemblePacket, DataHeader, KeyPhaseBit, LongHeaderBuilder, OneRttHeader, Packet, PacketNumber, PacketWriter, SpinBit,
        io::be_packet,
        keys::{ArcOneRttKeys, DirectionalKeys, Keys},
        long,
    },
};
use rustls::{
    pki_types::{CertificateDer, PrivateKeyDer, pem::PemObject},
    quic::{ClientConnection, Connection, KeyChange, ServerConnection, Version},
};
use serde::{Deserialize, Serialize};
use simcore::{Engine, Outcome, Rng, Tier, TraceHash, panics::guarded, prf_vec};

use crate::app::{CA_CERT, SERVER_CERT, SERVER_KEY};

#[derive(Serialize, Deserialize, Clone, Copy, Debug, PartialEq)]
pub enum Kind {
    Initial { token_len: u16 },
    Handshake,
    OneRtt,
}

#[derive(Serialize, Deserialize, Clone, Debug, PartialEq)]
pub enum PFate {
    Deliver,
    Drop,
    /// delayed until the next `Release` towards the receiver (delivered then in reverse order)
    Hold,
    FlipBit { pos: u32 },
    /// every single-bit corruption, then every truncation, then the original
    Sweep,
    Truncate { keep: u16 },
    /// the receiver decodes the truncated packet number to a different full number
    WrongPn { delta: u8 },
    /// the packet comes back to its sender (protected with the wrong direction's keys)
    Reflect,
}

#[derive(Serialize, Deserialize, Clone, Debug, PartialEq)]
pub enum POp {
    Send { from: u8, kind: Kind, body_len: u16, pn_gap: u8, fate: PFate },
    /// `by` initiates a key update (only performed if RFC 9001 6.1 allows it: the current keys are confirmed)
    KeyUpdate { by: u8 },
    Release { to: u8 },
    /// the sender learns what its peer has received so far (shortens packet-number encodings)
    AckSync { side: u8 },
}

#[derive(Serialize, Deserialize, Clone, Debug)]
pub struct PCase {
    pub seed: u64,
    pub dcid_len: u8,
    pub scid_len: u8,
    pub ops: Vec<POp>,
}

pub struct ProtSim;

struct Wire {
    bytes: Vec<u8>,
    kind: Kind,
    space: usize,
    pn: u64,
    trunc: u64,
    trunc_bits: u32,
    body: Vec<u8>,
    token: Vec<u8>,
    gen_: u32,
    from: usize,
}

struct End {
    initial: Keys,
    handshake: Keys,
    one_rtt: ArcOneRttKeys,
    next_pn: [u64; 3],
    largest_acked: [Option<u64>; 3],
    largest_rcvd: [Option<u64>; 3],
    /// 1-RTT key generation this endpoint protects with, as observed through the phase it reports
    gen_: u32,
    phase: KeyPhaseBit,
    /// highest generation of a packet from the peer this endpoint has recovered
    confirmed: Option<u32>,
    held: Vec<Wire>,
}

fn rustls_pair() -> (Keys, Keys, ArcOneRttKeys, ArcOneRttKeys) {
    let provider = Arc::new(rustls::crypto::ring::default_provider());
    let mut roots = rustls::RootCertStore::empty();
    roots.add_parsable_certificates(CertificateDer::pem_slice_iter(CA_CERT).map(Result::unwrap));
    let client_cfg = rustls::ClientConfig::builder_with_provider(provider.clone()).with_protocol_versions(&[&rustls::version::TLS13]).unwrap().with_root_certificates(roots).with_no_client_auth();
    let certs = CertificateDer::pem_slice_iter(SERVER_CERT).map(Result::unwrap).collect::<Vec<_>>();
    let key = PrivateKeyDer::from_pem_slice(SERVER_KEY).unwrap();
    let server_cfg = rustls::ServerConfig::builder_with_provider(provider).with_protocol_versions(&[&rustls::version::TLS13]).unwrap().with_no_client_auth().with_single_cert(certs, key).unwrap();
    let mut client: Connection = ClientConnection::new(Arc::new(client_cfg), Version::V1, "localhost".try_into().unwrap(), vec![0x0f, 0x00]).unwrap().into();
    let mut server: Connection = ServerConnection::new(Arc::new(server_cfg), Version::V1, vec![0x0f, 0x00]).unwrap().into();
    let (ck, sk) = (ArcOneRttKeys::new_pending(), ArcOneRttKeys::new_pending());
    let mut hs: [Option<Keys>; 2] = [None, None];
    for _ in 0..6 {
        for dir in 0..2 {
            loop {
                let (from, to, keys, slot) = if dir == 0 { (&mut client, &mut server, &ck, 0) } else { (&mut server, &mut client, &sk, 1) };
                let mut buf = Vec::new();
                let change = from.write_hs(&mut buf);
                if !buf.is_empty() {
                    to.read_hs(&buf).unwrap();
                }
                match change {
                    Some(KeyChange::OneRtt { keys: k, next }) => keys.set_keys(k, next),
                    Some(KeyChange::Handshake { keys: k }) => hs[slot] = Some(k.into()),
                    None if buf.is_empty() => break,
                    None => {}
                }
            }
        }
    }
    assert!(!client.is_handshaking() && !server.is_handshaking(), "in-memory TLS handshake did not complete");
    (hs[0].take().unwrap(), hs[1].take().unwrap(), ck, sk)
}

fn initial_keys(odcid: &ConnectionId, side: rustls::Side) -> Keys {
    rustls::crypto::ring::default_provider()
        .cipher_suites
        .iter()
        .find_map(|cs| match (cs.suite(), cs.tls13()) {
            (rustls::CipherSuite::TLS13_AES_128_GCM_SHA256, Some(suite)) => suite.quic_suite(),
            _ => None,
        })
        .unwrap()
        .keys(odcid, side, Version::V1)
        .into()
}

/// RFC 9000 A.3
fn rfc_decode(largest: Option<u64>, truncated: u64, bits: u32) -> u64 {
    let expected = largest.map(|l| l + 1).unwrap_or(0);
    let win = 1u64 << bits;
    let hwin = win / 2;
    let mask = win - 1;
    let candidate = (expected & !mask) | truncated;
    if candidate + hwin <= expected && candidate < (1u64 << 62) - win {
        candidate + win
    } else if candidate > expected + hwin && candidate >= win {
        candidate - win
    } else {
        candidate
    }
}

enum Rx {
    Recovered { pn: u64, body: Vec<u8>, token: Vec<u8>, dcid: ConnectionId, scid: Option<ConnectionId> },
    Discarded,
    ConnError(String),
    Unparsed(String),
}

pub fn run(case: &PCase) -> Outcome {
    simcore::entropy::seed_thread_entropy(case.seed);
    let mut out = Outcome::default();
    let mut th = TraceHash::default();
    let cid = |tag: u64, len: u8| ConnectionId::from_slice(&prf_vec(case.seed, tag, 0, len as usize));
    // Initial keys derive from the client's first destination cid, which is at least 8 bytes (RFC 9000 7.2); the ids on
    // the wire afterwards have the drawn lengths
    let odcid = ConnectionId::from_slice(&prf_vec(case.seed, 900, 0, 8 + (case.dcid_len as usize % 13)));
    let ids = [cid(901, case.dcid_len), cid(902, case.scid_len)]; // [server's id (dcid of client packets), client's id]
    let (chs, shs, c1, s1) = rustls_pair();
    let mk = |initial: Keys, handshake: Keys, one_rtt: ArcOneRttKeys| End { initial, handshake, one_rtt, next_pn: [0; 3], largest_acked: [None; 3], largest_rcvd: [None; 3], gen_: 0, phase: KeyPhaseBit::default(), confirmed: None, held: Vec::new() };
    let mut e = [mk(initial_keys(&odcid, rustls::Side::Client), chs, c1), mk(initial_keys(&odcid, rustls::Side::Server), shs, s1)];

    // receive path of endpoint `j`, as qconnection's spaces drive it
    let receive = |e: &mut [End; 2], j: usize, bytes: &[u8], lie: u64| -> Rx {
        let my_cid_len = ids[1 - j].len(); // endpoint j is addressed by the id it issued
        let mut datagram = BytesMut::from(bytes);
        let pkt = match be_packet(&mut datagram, my_cid_len) {
            Ok(Packet::Data(p)) => p,
            Ok(_) => return Rx::Unparsed("not a data packet".into()),
            Err(err) => return Rx::Unparsed(format!("{err}")),
        };
        match pkt.header {
            DataHeader::Long(long::DataHeader::Initial(h)) => {
                let k = e[j].initial.remote.clone();
                let lr = e[j].largest_rcvd[0];
                let (token, dcid, scid) = (h.token().clone(), *qbase::packet::GetDcid::dcid(&h), *qbase::packet::GetScid::scid(&h));
                match CipherPacket::new(h, pkt.bytes, pkt.offset).decrypt_long_packet(k.header.as_ref(), k.packet.as_ref(), |enc| Ok(enc.decode(lr.map(|l| l + 1).unwrap_or(0)) + lie)) {
                    None => Rx::Discarded,
                    Some(Err(err)) => Rx::ConnError(format!("{err}")),
                    Some(Ok(p)) => Rx::Recovered { pn: p.pn(), body: p.body().to_vec(), token, dcid, scid: Some(scid) },
                }
            }
            DataHeader::Long(long::DataHeader::Handshake(h)) => {
                let k = e[j].handshake.remote.clone();
                let lr = e[j].largest_rcvd[1];
                let (dcid, scid) = (*qbase::packet::GetDcid::dcid(&h), *qbase::packet::GetScid::scid(&h));
                match CipherPacket::new(h, pkt.bytes, pkt.offset).decrypt_long_packet(k.header.as_ref(), k.packet.as_ref(), |enc| Ok(enc.decode(lr.map(|l| l + 1).unwrap_or(0)) + lie)) {
                    None => Rx::Discarded,
                    Some(Err(err)) => Rx::ConnError(format!("{err}")),
                    Some(Ok(p)) => Rx::Recovered { pn: p.pn(), body: p.body().to_vec(), token: Vec::new(), dcid, scid: Some(scid) },
                }
            }
            DataHeader::Short(h) => {
                let (hpk, pk) = e[j].one_rtt.remote_keys().unwrap();
                let lr = e[j].largest_rcvd[2];
                let dcid = *qbase::packet::GetDcid::dcid(&h);
                match CipherPacket::new(h, pkt.bytes, pkt.offset).decrypt_short_packet(hpk.as_ref(), &pk, |enc| Ok(enc.decode(lr.map(|l| l + 1).unwrap_or(0)) + lie)) {
                    None => Rx::Discarded,
                    Some(Err(err)) => Rx::ConnError(format!("{err}")),
                    Some(Ok(p)) => Rx::Recovered { pn: p.pn(), body: p.body().to_vec(), token: Vec::new(), dcid, scid: None },
                }
            }
            _ => Rx::Unparsed("other long header".into()),
        }
    };
    // the generation an endpoint is in is observed, not predicted: a forged key-phase bit may move it (S11)
    let observe_gen = |e: &mut [End; 2], j: usize, out: &mut Outcome, why: &str| {
        let (_, pk) = e[j].one_rtt.get_local_keys().unwrap();
        let (phase, _) = pk.lock_guard().get_local();
        if phase != e[j].phase {
            e[j].phase = phase;
            e[j].gen_ += 1;
            out.stats.bump(simcore::engine::intern(&format!("probe.generation_advanced_by_{why}")));
        }
    };

    let mut deliver = |e: &mut [End; 2], w: &Wire, how: &PFate, out: &mut Outcome, th: &mut TraceHash, at: u64| {
        let j = 1 - w.from;
        let kname = match w.kind {
            Kind::Initial { .. } => "initial",
            Kind::Handshake => "handshake",
            Kind::OneRtt => "1rtt",
        };
        let mut tampered = |e: &mut [End; 2], to: usize, bytes: &[u8], lie: u64, what: &str, out: &mut Outcome| {
            let r = match guarded(|| receive(e, to, bytes, lie)) {
                Ok(r) => r,
                Err(rec) => {
                    out.violate("no-panic", rec.site(), format!("{what} of a {kname} packet: {} at {}", rec.message, rec.location), at);
                    return;
                }
            };
            match r {
                Rx::Discarded | Rx::Unparsed(_) => out.stats.bump("probe.tampered_discarded"),
                Rx::Recovered { pn, .. } => out.violate("corrupt-accepted", format!("{kname}:{}", what.split(' ').next().unwrap_or("")), format!("{what} of {kname} packet {}: accepted as packet {pn}", w.pn), at),
                Rx::ConnError(err) => out.violate("corrupt-closes-connection", format!("{kname}:{}", what.split(' ').next().unwrap_or("")), format!("{what} of {kname} packet {}: connection error {err} instead of a silent discard", w.pn), at),
            }
            observe_gen(e, to, out, "tampered_packet");
        };
        match how {
            PFate::Drop | PFate::Hold => {}
            PFate::FlipBit { pos } => {
                let mut b = w.bytes.clone();
                let p = *pos as usize % (b.len() * 8);
                b[p / 8] ^= 1 << (p % 8);
                tampered(e, j, &b, 0, "bit-flip", out);
                out.stats.bump("fault.flip_bit");
            }
            PFate::Truncate { keep } => {
                let k = (*keep as usize) % w.bytes.len();
                tampered(e, j, &w.bytes[..k], 0, "truncation", out);
                out.stats.bump("fault.truncate");
            }
            PFate::WrongPn { delta } => {
                tampered(e, j, &w.bytes, 1 + *delta as u64, "wrong-pn presentation", out);
                out.stats.bump("fault.wrong_pn");
            }
            PFate::Reflect => {
                // the sender is addressed by the other id: present the packet with the cid length it would need
                if ids[0].len() == ids[1].len() || !matches!(w.kind, Kind::OneRtt) {
                    tampered(e, w.from, &w.bytes, 0, "reflection", out);
                    out.stats.bump("fault.reflect");
                }
            }
            PFate::Sweep => {
                for p in 0..w.bytes.len() * 8 {
                    let mut b = w.bytes.clone();
                    b[p / 8] ^= 1 << (p % 8);
                    tampered(e, j, &b, 0, "bit-flip", out);
                }
                for k in 0..w.bytes.len() {
                    tampered(e, j, &w.bytes[..k], 0, "truncation", out);
                }
                out.stats.bump("fault.sweep");
            }
            PFate::Deliver => {}
        }
        if !matches!(how, PFate::Deliver | PFate::Sweep) {
            return;
        }
        // the genuine packet
        let g_before = e[j].gen_;
        let lr = e[j].largest_rcvd[w.space];
        let r = match guarded(|| receive(e, j, &w.bytes, 0)) {
            Ok(r) => r,
            Err(rec) => {
                out.violate("no-panic", rec.site(), format!("genuine {kname} packet {}: {} at {}", w.pn, rec.message, rec.location), at);
                return;
            }
        };
        observe_gen(e, j, out, "peer_key_update");
        // must it be recovered? the packet-number window must cover the receiver's position (RFC 9000 A.3), and for
        // 1-RTT the keys must be the current, the next or the previous generation
        let decodable = rfc_decode(lr, w.trunc, w.trunc_bits) == w.pn;
        let keyed = match w.kind {
            Kind::OneRtt => w.gen_ == g_before || w.gen_ == g_before + 1 || w.gen_ + 1 == g_before,
            _ => true,
        };
        let site = match w.kind {
            Kind::OneRtt if w.gen_ == g_before + 1 && g_before >= 1 => "1rtt:later-key-update".to_string(),
            Kind::OneRtt if w.gen_ == g_before + 1 => "1rtt:first-key-update".to_string(),
            Kind::OneRtt if w.gen_ + 1 == g_before => "1rtt:previous-keys".to_string(),
            _ => kname.to_string(),
        };
        match r {
            Rx::Recovered { pn, body, token, dcid, scid } => {
                th.add(pn);
                let mut diffs = Vec::new();
                if pn != w.pn {
                    diffs.push(format!("packet number {pn} != {}", w.pn));
                }
                if body != w.body {
                    diffs.push(format!("payload differs ({} vs {} bytes)", body.len(), w.body.len()));
                }
                if token != w.token {
                    diffs.push(format!("token differs ({} vs {} bytes)", token.len(), w.token.len()));
                }
                if dcid != ids[w.from] {
                    diffs.push("destination cid differs".to_string());
                }
                if let Some(s) = scid {
                    if s != ids[1 - w.from] {
                        diffs.push("source cid differs".to_string());
                    }
                }
                if !diffs.is_empty() {
                    out.violate("roundtrip", site, format!("{kname} packet {} ({} bytes on the wire): {}", w.pn, w.bytes.len(), diffs.join("; ")), at);
                } else {
                    out.stats.bump("op.recovered");
                    out.stats.bump(simcore::engine::intern(&format!("probe.recovered_{}", site.replace(':', "_"))));
                }
                let l = &mut e[j].largest_rcvd[w.space];
                *l = Some(l.map_or(pn, |x| x.max(pn)));
                if matches!(w.kind, Kind::OneRtt) {
                    e[j].confirmed = Some(e[j].confirmed.map_or(w.gen_, |c| c.max(w.gen_)));
                }
            }
            Rx::Discarded | Rx::Unparsed(_) => {
                th.add(0xD15C);
                if decodable && keyed {
                    let why = if let Rx::Unparsed(s) = &r { format!("unparsable: {s}") } else { "discarded".to_string() };
                    out.violate("genuine-not-recovered", site, format!("{kname} packet {} (key generation {}, receiver in generation {g_before}, {} bytes, token {} bytes, cid lengths {}/{}): {why}", w.pn, w.gen_, w.bytes.len(), w.token.len(), ids[w.from].len(), ids[1 - w.from].len()), at);
                } else {
                    out.stats.bump("probe.undecodable_or_unkeyed_discarded");
                }
            }
            Rx::ConnError(err) => {
                out.violate("genuine-closes-connection", site, format!("{kname} packet {}: {err}", w.pn), at);
            }
        }
    };

    for (step, op) in case.ops.iter().enumerate() {
        let at = step as u64;
        th.add(at);
        match op {
            POp::AckSync { side } => {
                let i = *side as usize;
                for sp in 0..3 {
                    if let Some(l) = e[1 - i].largest_rcvd[sp] {
                        e[i].largest_acked[sp] = Some(e[i].largest_acked[sp].map_or(l, |x: u64| x.max(l)));
                    }
                }
            }
            POp::KeyUpdate { by } => {
                let i = *by as usize;
                // RFC 9001 6.1: not before the current keys are confirmed by a packet from the peer in the same generation,
                // and the generations of the two endpoints never drift apart by more than one
                if e[i].confirmed == Some(e[i].gen_) && e[i].gen_ == e[1 - i].gen_ {
                    let (_, pk) = e[i].one_rtt.get_local_keys().unwrap();
                    pk.lock_guard().update();
                    observe_gen(&mut e, i, &mut out, "local_key_update");
                    out.stats.bump("fault.key_update");
                }
            }
            POp::Release { to } => {
                let j = *to as usize;
                let mut held: Vec<Wire> = std::mem::take(&mut e[1 - j].held);
                held.reverse();
                for w in held {
                    out.stats.bump("fault.reordered_delivery");
                    deliver(&mut e, &w, &PFate::Deliver, &mut out, &mut th, at);
                }
            }
            POp::Send { from, kind, body_len, pn_gap, fate } => {
                let i = *from as usize;
                let space = match kind {
                    Kind::Initial { .. } => 0,
                    Kind::Handshake => 1,
                    Kind::OneRtt => 2,
                };
                e[i].next_pn[space] += *pn_gap as u64;
                let pn = e[i].next_pn[space];
                e[i].next_pn[space] += 1;
                let enc = PacketNumber::encode(pn, e[i].largest_acked[space].unwrap_or(0));
                let pn_len = enc.size();
                // at least 4 bytes of packet number + payload so that the header-protection sample exists
                let blen = (*body_len as usize).max(4usize.saturating_sub(pn_len));
                let mut body = prf_vec(case.seed, 5000 + step as u64, 0, blen);
                if let Some(b) = body.first_mut() {
                    *b = 0x01; // a PING frame, the rest is opaque to this layer
                }
                let token = match kind {
                    Kind::Initial { token_len } => prf_vec(case.seed, 7000 + step as u64, 0, *token_len as usize),
                    _ => Vec::new(),
                };
                let (dcid, scid) = (ids[i], ids[1 - i]);
                let mut buffer = vec![0u8; 1500 + token.len()];
                let built = guarded(|| -> Result<(usize, u32), String> {
                    match kind {
                        Kind::Initial { .. } => {
                            let header = LongHeaderBuilder::with_cid(dcid, scid).initial(token.clone());
                            let mut w = PacketWriter::new_long(&header, &mut buffer, (pn, enc), e[i].initial.local.clone()).map_err(|s| format!("{s:?}"))?;
                            w.put_slice(&body);
                            Ok((w.encrypt_and_protect_packet().0, 0))
                        }
                        Kind::Handshake => {
                            let header = LongHeaderBuilder::with_cid(dcid, scid).handshake();
                            let mut w = PacketWriter::new_long(&header, &mut buffer, (pn, enc), e[i].handshake.local.clone()).map_err(|s| format!("{s:?}"))?;
                            w.put_slice(&body);
                            Ok((w.encrypt_and_protect_packet().0, 0))
                        }
                        Kind::OneRtt => {
                            let (hpk, pk) = e[i].one_rtt.get_local_keys().unwrap();
                            let (phase, pk) = pk.lock_guard().get_local();
                            let header = OneRttHeader::new(SpinBit::Zero, dcid);
                            let mut w = PacketWriter::new_short(&header, &mut buffer, (pn, enc), DirectionalKeys { header: hpk, packet: pk }, phase).map_err(|s| format!("{s:?}"))?;
                            w.put_slice(&body);
                            Ok((w.encrypt_and_protect_packet().0, e[i].gen_))
                        }
                    }
                });
                let (size, gen_) = match built {
                    Ok(Ok(x)) => x,
                    Ok(Err(sig)) => {
                        out.harness_error = Some(format!("packet writer refused a {}-byte buffer: {sig}", buffer.len()));
                        break;
                    }
                    Err(rec) => {
                        out.violate("no-panic", rec.site(), format!("assembling {kind:?} pn {pn} body {blen}: {} at {}", rec.message, rec.location), at);
                        break;
                    }
                };
                buffer.truncate(size);
                th.add(size as u64);
                out.stats.bump("op.sent");
                out.stats.bump(simcore::engine::intern(&format!("probe.pn_len_{pn_len}")));
                let trunc_bits = 8 * pn_len as u32;
                let w = Wire { bytes: buffer, kind: *kind, space, pn, trunc: pn & ((1u64 << trunc_bits) - 1), trunc_bits, body, token, gen_, from: i };
                match fate {
                    PFate::Drop => out.stats.bump("fault.drop"),
                    PFate::Hold => {
                        out.stats.bump("fault.hold");
                        e[i].held.push(w);
                    }
                    f => deliver(&mut e, &w, f, &mut out, &mut th, at),
                }
            }
        }
        if out.failed() && out.violations.iter().any(|v| v.clause == "no-panic") {
            break;
        }
    }
    out.trace_hash = th.get();
    let faults: u64 = out.stats.0.iter().filter(|(k, _)| k.starts_with("fault.")).map(|(_, v)| *v).sum();
    out.nontrivial = faults > 0 && out.stats.get("op.recovered") > 0;
    out
}

impl Engine for ProtSim {
    type Case = PCase;
    fn name(&self) -> &'static str {
        "protsim"
    }
    fn components_real(&self) -> Vec<&'static str> {
        vec![
            "qbase::packet::{PacketWriter::new_long/new_short, encrypt_and_protect_packet, be_packet, PacketNumber::encode/decode}",
            "qinterface::component::route::CipherPacket::decrypt_{long,short}_packet (header-protection removal, AEAD, reserved bits)",
            "qbase::packet::keys::{Keys, ArcOneRttKeys, OneRttPacketKeys::get_remote/update}",
            "rustls + ring: Initial secrets, an in-memory TLS 1.3 handshake for Handshake and 1-RTT keys, key-update secrets",
        ]
    }
    fn components_stub(&self) -> Vec<&'static str> {
        vec!["frames (opaque payload bytes)", "packet-number spaces and acknowledgements (sender learns the receiver's position through AckSync)", "the network (delay/reorder, drop, truncate, bit flips, reflection, wrong packet-number presentation)", "0-RTT keys (not produced)"]
    }
    fn generate(&self, _index: u64, seed: u64, _tier: Tier) -> PCase {
        let mut r = Rng::derive(seed, "prot");
        let cid_len = |r: &mut Rng| match r.below(4) {
            0 => 8,
            1 => *r.pick(&[0u8, 1, 4, 19, 20]),
            _ => r.range(0, 20) as u8,
        };
        let (dcid_len, scid_len) = (cid_len(&mut r), cid_len(&mut r));
        let n = r.range(2, 40) as usize;
        let rate = |r: &mut Rng, hi: f64| if r.one_in(2) { r.log_uniform(0.01, hi) } else { 0.0 };
        let (p_drop, p_hold, p_tamper) = (rate(&mut r, 0.3), rate(&mut r, 0.4), rate(&mut r, 0.5));
        let sweeps = if r.one_in(4) { 1 } else { 0 };
        let mut sweeps_left = sweeps;
        let updates = r.one_in(2);
        let mut ops = Vec::new();
        for _ in 0..n {
            let side = r.below(2) as u8;
            let op = match r.below(12) {
                0 if updates => POp::KeyUpdate { by: side },
                1 => POp::Release { to: side },
                2 => POp::AckSync { side },
                _ => {
                    let kind = match r.below(6) {
                        0 => Kind::Initial { token_len: match r.below(5) { 0 => 0, 1 => *r.pick(&[1u16, 62, 63, 64, 65, 66]), 2 => r.range(0, 200) as u16, 3 => *r.pick(&[300u16, 1000]), _ => r.range(0, 80) as u16 } },
                        1 => Kind::Handshake,
                        _ => Kind::OneRtt,
                    };
                    let body_len = match r.below(6) {
                        0 => r.range(0, 6) as u16,
                        1 => *r.pick(&[1u16, 2, 3, 4, 19, 20, 21, 1199, 1200]),
                        2 => r.range(1000, 1350) as u16,
                        _ => r.range(0, 400) as u16,
                    };
                    let fate = if r.chance(p_drop) {
                        PFate::Drop
                    } else if r.chance(p_hold) {
                        PFate::Hold
                    } else if r.chance(p_tamper) {
                        match r.below(5) {
                            0 => PFate::Truncate { keep: r.below(1500) as u16 },
                            1 => PFate::WrongPn { delta: r.below(4) as u8 },
                            2 => PFate::Reflect,
                            _ => PFate::FlipBit { pos: r.below(12_000) as u32 },
                        }
                    } else if sweeps_left > 0 && body_len < 200 && r.one_in(6) {
                        sweeps_left -= 1;
                        PFate::Sweep
                    } else {
                        PFate::Deliver
                    };
                    POp::Send { from: side, kind, body_len, pn_gap: if r.one_in(5) { r.range(1, 3) as u8 } else { 0 }, fate }
                }
            };
            ops.push(op);
        }
        // whatever was held arrives in the end
        ops.push(POp::Release { to: 0 });
        ops.push(POp::Release { to: 1 });
        PCase { seed, dcid_len, scid_len, ops }
    }
    fn fresh_thread(&self) -> bool {
        // thread-local state of the code under test (rand's generator, hash-map keys) starts from the run seed
        true
    }
    fn execute(&self, case: &PCase) -> Outcome {
        // process-wide first-use initialisation (entropy probes of ring / getrandom) happens in a throw-away run
        crate::process_init_pub();
        run(case)
    }
    fn shrink(&self, case: &PCase) -> Vec<PCase> {
        let mut v = Vec::new();
        let n = case.ops.len();
        if n > 1 {
            for (a, b) in [(0, n / 2), (n / 2, n)] {
                let mut c = case.clone();
                c.ops.drain(a..b);
                v.push(c);
            }
        }
        for i in 0..n {
            let mut c = case.clone();
            c.ops.remove(i);
            v.push(c);
        }
        for i in 0..n {
            if let POp::Send { from, kind, body_len, pn_gap, fate } = &case.ops[i] {
                if *body_len > 8 {
                    let mut c = case.clone();
                    c.ops[i] = POp::Send { from: *from, kind: *kind, body_len: 8, pn_gap: *pn_gap, fate: fate.clone() };
                    v.push(c);
                }
                if *fate == PFate::Sweep {
                    let mut c = case.clone();
                    c.ops[i] = POp::Send { from: *from, kind: *kind, body_len: *body_len, pn_gap: *pn_gap, fate: PFate::Deliver };
                    v.push(c);
                }
            }
        }
        for (d, s) in [(8u8, 8u8), (case.dcid_len, 8), (8, case.scid_len)] {
            if (d, s) != (case.dcid_len, case.scid_len) {
                let mut c = case.clone();
                c.dcid_len = d;
                c.scid_len = s;
                v.push(c);
            }
        }
        v
    }
}
