//! SimNet: the only network the stack sees. An in-memory datagram network on the tokio virtual clock
//! whose every decision (drop, duplicate, delay, truncate, bit flip, garbage injection) comes from a
//! pre-materialised fault tape indexed by the ordinal of the datagram in its direction.
use std::{
    cmp::Reverse,
    collections::{BTreeMap, BinaryHeap, HashMap, VecDeque},
    io,
    net::SocketAddr,
    sync::{Arc, Mutex},
    task::{Context, Poll, Waker},
};

use bytes::BytesMut;
use dquic::{
    prelude::{BindUri, IO, Link, Pathway, Route},
    qbase::net::route::Line,
};
use serde::{Deserialize, Serialize};
use simcore::rng::splitmix;
use tokio::time::{Duration, Instant};

#[derive(Clone, Copy, Debug, Serialize, Deserialize, PartialEq)]
pub enum Fault {
    Pass,
    Drop,
    /// deliver `copies` extra copies, each `gap_ms` after the previous
    Dup { copies: u8, gap_ms: u32 },
    /// extra latency (reordering)
    Delay { ms: u32 },
    /// deliver only the first `len` bytes
    Truncate { len: u16 },
    /// flip bit `pos % (8*len)`
    FlipBit { pos: u32 },
    /// before delivering the original: every single-bit corruption and every truncation of it, then the
    /// original, then a replay of the original
    FlipSweep,
    /// inject a forged datagram ahead of this one: kind 0 = random bytes from the peer's address,
    /// 1 = random bytes from an off-path address, 2 = mutated copy of this datagram from an off-path address,
    /// 3 = mutated copy of this datagram from the peer's address
    Garbage { kind: u8 },
}

pub const C2S: usize = 0;
pub const S2C: usize = 1;

#[derive(Clone, Debug, Serialize, Deserialize, Default)]
pub struct Tape {
    /// sparse: ordinal -> fault, per direction (0 = client->server, 1 = server->client)
    pub entries: [BTreeMap<u32, Fault>; 2],
    /// from this ordinal on, every datagram of the direction is dropped (blackhole / crashed peer)
    pub blackhole_from: [Option<u32>; 2],
    /// NAT rebinding: from this client->server ordinal on, the client's datagrams reach the server from another
    /// source address (`NAT_ALT`), and what the server sends there reaches the client; the client notices nothing
    #[serde(default)]
    pub rebind_from: Option<u32>,
}

/// the client's public address after a NAT rebinding
pub fn nat_alt() -> SocketAddr {
    "127.0.0.7:7777".parse().unwrap()
}

impl Tape {
    pub fn fault(&self, dir: usize, ord: u32) -> Fault {
        if self.blackhole_from[dir].is_some_and(|b| ord >= b) {
            return Fault::Drop;
        }
        self.entries[dir].get(&ord).copied().unwrap_or(Fault::Pass)
    }
    pub fn last_fault_ordinal(&self, dir: usize) -> Option<u32> {
        self.entries[dir].keys().next_back().copied()
    }
    pub fn len(&self) -> usize {
        self.entries[0].len() + self.entries[1].len()
    }
    pub fn is_empty(&self) -> bool {
        self.len() == 0
    }
}

#[derive(Clone, Debug, Serialize, Deserialize)]
pub struct NetCfg {
    pub latency_ms: [u32; 2],
    pub jitter_ms: u32,
    /// bytes per millisecond per direction; 0 = unlimited
    pub bandwidth: u32,
    /// bottleneck queue in bytes (tail drop), only with a bandwidth limit
    pub queue_bytes: u32,
    pub jitter_seed: u64,
}

#[derive(Clone, Debug)]
pub struct WireEvent {
    pub at_ms: u64,
    pub dir: usize,
    pub ordinal: u32,
    pub len: usize,
    /// first byte with header-protected bits masked
    pub first: u8,
    pub fault: Fault,
    pub queue_drop: bool,
}

#[derive(Clone)]
struct Flight {
    at: Instant,
    seq: u64,
    src: SocketAddr,
    dst: SocketAddr,
    data: Vec<u8>,
}

impl PartialEq for Flight {
    fn eq(&self, o: &Self) -> bool {
        self.at == o.at && self.seq == o.seq
    }
}
impl Eq for Flight {}
impl PartialOrd for Flight {
    fn partial_cmp(&self, o: &Self) -> Option<std::cmp::Ordering> {
        Some(self.cmp(o))
    }
}
impl Ord for Flight {
    fn cmp(&self, o: &Self) -> std::cmp::Ordering {
        (self.at, self.seq).cmp(&(o.at, o.seq))
    }
}

#[derive(Default)]
struct Endpoint {
    queue: VecDeque<Flight>,
    waker: Option<Waker>,
}

#[derive(Default, Clone, Debug)]
pub struct Ledger {
    /// bytes the endpoint handed to poll_send for this remote
    pub sent: u64,
    /// bytes delivered to the endpoint from this remote
    pub rcvd: u64,
}

pub struct NetInner {
    heap: BinaryHeap<Reverse<Flight>>,
    endpoints: HashMap<SocketAddr, Endpoint>,
    seq: u64,
    pub ordinals: [u32; 2],
    pub link_free_at: [Option<Instant>; 2],
    pub log: Vec<WireEvent>,
    pub fired: BTreeMap<&'static str, u64>,
    /// (endpoint, remote) -> byte ledger (C15)
    pub ledger: HashMap<(SocketAddr, SocketAddr), Ledger>,
    /// server-side amplification check: worst (sent, 3*rcvd) excess seen while unvalidated
    pub amp_violation: Option<(u64, u64, u64)>,
    /// sends while unvalidated that left less than one full datagram of budget
    pub amp_blocked_sends: u64,
    pub server_validated_at: Option<u64>,
    /// the client's real address once a rebinding happened
    pub nat_real: Option<SocketAddr>,
    /// when the server's validation of the rebound address completed (its first PATH_RESPONSE received after the rebinding)
    pub alt_validated_at: Option<u64>,
    /// worst excess towards the rebound, not yet validated address: (sent, received, at, of `sent` in short-header datagrams)
    pub amp_violation_rebound: Option<(u64, u64, u64, u64)>,
    /// the largest `alt_data_bytes - 3 * received` seen before validation, with (data bytes, received)
    pub alt_data_excess: Option<(u64, u64)>,
    /// bytes the server sent to the rebound address in datagrams that start with a short-header packet
    pub alt_sent_short: u64,
    /// bytes of 1-RTT packets the server sent on the rebound path before its validation that carry anything but path
    /// probes (PATH_CHALLENGE / PATH_RESPONSE / PADDING / PING) — from the server's event log
    pub alt_data_bytes: u64,
    pump_waker: Option<Waker>,
    pub delivered: [u64; 2],
    pub tampered_delivered: u64,
    next_client_port: u16,
    pub last_fault_at_ms: u64,
    /// per endpoint (0 client, 1 server): last datagram delivered to it / last send or delivery
    pub last_delivered_ms: [u64; 2],
    pub last_activity_ms: [u64; 2],
}

pub struct SimNet {
    pub cfg: NetCfg,
    pub tape: Tape,
    pub server_addr: SocketAddr,
    pub start: Instant,
    pub inner: Mutex<NetInner>,
}

fn mask_first(b: u8) -> u8 {
    if b & 0x80 != 0 { b & 0xf0 } else { b & 0xe0 }
}

impl SimNet {
    pub fn new(cfg: NetCfg, tape: Tape, server_addr: SocketAddr) -> Arc<Self> {
        Arc::new(SimNet {
            cfg,
            tape,
            server_addr,
            start: Instant::now(),
            inner: Mutex::new(NetInner {
                heap: BinaryHeap::new(),
                endpoints: HashMap::new(),
                seq: 0,
                ordinals: [0; 2],
                link_free_at: [None; 2],
                log: Vec::new(),
                fired: BTreeMap::new(),
                ledger: HashMap::new(),
                amp_violation: None,
                amp_blocked_sends: 0,
                server_validated_at: None,
                nat_real: None,
                alt_validated_at: None,
                amp_violation_rebound: None,
                alt_data_excess: None,
                alt_sent_short: 0,
                alt_data_bytes: 0,
                pump_waker: None,
                delivered: [0; 2],
                tampered_delivered: 0,
                next_client_port: 50000,
                last_fault_at_ms: 0,
                last_delivered_ms: [0; 2],
                last_activity_ms: [0; 2],
            }),
        })
    }

    pub fn now_ms(&self) -> u64 {
        Instant::now().saturating_duration_since(self.start).as_millis() as u64
    }

    fn bump(inner: &mut NetInner, k: &'static str) {
        *inner.fired.entry(k).or_insert(0) += 1;
    }

    /// the IO factory for one host: `host_ip` replaces unspecified addresses, port 0 is allocated
    pub fn factory(self: &Arc<Self>) -> impl Fn(BindUri) -> SimIo + Send + Sync + 'static {
        let net = self.clone();
        move |uri: BindUri| {
            let mut addr = SocketAddr::try_from(&uri).unwrap_or_else(|_| "127.0.0.1:0".parse().unwrap());
            let mut inner = net.inner.lock().unwrap();
            if addr.ip().is_unspecified() {
                addr.set_ip("127.0.0.1".parse().unwrap());
            }
            if addr.port() == 0 {
                addr.set_port(inner.next_client_port);
                inner.next_client_port += 1;
            }
            inner.endpoints.entry(addr).or_default();
            drop(inner);
            SimIo { net: net.clone(), uri, addr, closed: false }
        }
    }

    fn enqueue(&self, inner: &mut NetInner, at: Instant, src: SocketAddr, dst: SocketAddr, data: Vec<u8>) {
        inner.seq += 1;
        let seq = inner.seq;
        inner.heap.push(Reverse(Flight { at, seq, src, dst, data }));
        if let Some(w) = inner.pump_waker.take() {
            w.wake();
        }
    }

    /// called by SimIo::poll_send for each datagram
    fn send(&self, src: SocketAddr, dst: SocketAddr, data: &[u8]) {
        let now = Instant::now();
        let now_ms = self.now_ms();
        let mut g = self.inner.lock().unwrap();
        let inner = &mut *g;
        let dir = if src == self.server_addr { S2C } else { C2S };
        let ord = inner.ordinals[dir];
        inner.ordinals[dir] += 1;
        inner.last_activity_ms[dir] = now_ms;
        // NAT rebinding: the client's datagrams leave from another public address
        let src = if dir == C2S && self.tape.rebind_from.is_some_and(|r| ord >= r) {
            if inner.nat_real.is_none() {
                inner.nat_real = Some(src);
                Self::bump(inner, "fault.nat_rebinding");
            }
            nat_alt()
        } else {
            src
        };
        // C15 ledger: counted at the moment the endpoint hands bytes to the network
        let led = inner.ledger.entry((src, dst)).or_default();
        led.sent += data.len() as u64;
        if src == self.server_addr && inner.server_validated_at.is_none() {
            let (s, r) = (led.sent, led.rcvd);
            if s + 1200 > 3 * r {
                inner.amp_blocked_sends += 1;
            }
            if s > 3 * r {
                let worse = inner.amp_violation.is_none_or(|(ps, pr, _)| s - 3 * r > ps - 3 * pr);
                if worse {
                    inner.amp_violation = Some((s, r, now_ms));
                }
            }
        }
        if src == self.server_addr && dst == nat_alt() && inner.alt_validated_at.is_none() {
            if data.first().is_some_and(|b| b & 0x80 == 0) {
                inner.alt_sent_short += data.len() as u64;
            }
            let led = inner.ledger.get(&(src, dst)).map(|l| (l.sent, l.rcvd)).unwrap_or((0, 0));
            if led.0 > 3 * led.1 {
                let worse = inner.amp_violation_rebound.is_none_or(|(ps, pr, _, _)| led.0 - 3 * led.1 > ps - 3 * pr);
                if worse {
                    inner.amp_violation_rebound = Some((led.0, led.1, now_ms, inner.alt_sent_short));
                }
            }
        }
        // after the rebinding the NAT's old mapping is gone: what the server still sends to the old address is lost
        if dir == S2C && inner.nat_real == Some(dst) {
            Self::bump(inner, "fault.sent_to_dead_nat_mapping");
            inner.log.push(WireEvent { at_ms: now_ms, dir, ordinal: ord, len: data.len(), first: data.first().map(|b| mask_first(*b)).unwrap_or(0), fault: Fault::Drop, queue_drop: false });
            return;
        }
        let fault = self.tape.fault(dir, ord);
        // base latency + deterministic per-datagram jitter
        let mut j = self.cfg.jitter_seed ^ ((dir as u64) << 40) ^ ord as u64;
        let jitter = if self.cfg.jitter_ms > 0 { splitmix(&mut j) % (self.cfg.jitter_ms as u64 + 1) } else { 0 };
        let mut depart = now;
        let mut queue_drop = false;
        if self.cfg.bandwidth > 0 {
            let free = inner.link_free_at[dir].filter(|f| *f > now).unwrap_or(now);
            let backlog_ms = free.saturating_duration_since(now).as_millis() as u64;
            if backlog_ms * self.cfg.bandwidth as u64 > self.cfg.queue_bytes as u64 {
                queue_drop = true;
                Self::bump(inner, "fault.queue_tail_drop");
            } else {
                let tx_us = (data.len() as u64 * 1000).div_ceil(self.cfg.bandwidth as u64);
                depart = free + Duration::from_micros(tx_us);
                inner.link_free_at[dir] = Some(depart);
            }
        }
        let base = depart + Duration::from_millis(self.cfg.latency_ms[dir] as u64 + jitter);
        inner.log.push(WireEvent { at_ms: now_ms, dir, ordinal: ord, len: data.len(), first: data.first().map(|b| mask_first(*b)).unwrap_or(0), fault, queue_drop });
        if queue_drop {
            return;
        }
        if fault != Fault::Pass {
            inner.last_fault_at_ms = now_ms;
        }
        match fault {
            Fault::Pass => self.enqueue(inner, base, src, dst, data.to_vec()),
            Fault::Drop => Self::bump(inner, "fault.drop"),
            Fault::Dup { copies, gap_ms } => {
                Self::bump(inner, "fault.duplicate");
                self.enqueue(inner, base, src, dst, data.to_vec());
                for c in 1..=copies as u64 {
                    self.enqueue(inner, base + Duration::from_millis(c * gap_ms as u64), src, dst, data.to_vec());
                }
            }
            Fault::Delay { ms } => {
                Self::bump(inner, "fault.delay_reorder");
                self.enqueue(inner, base + Duration::from_millis(ms as u64), src, dst, data.to_vec());
            }
            Fault::Truncate { len } => {
                Self::bump(inner, "fault.truncate");
                let l = (len as usize).min(data.len().saturating_sub(1));
                inner.tampered_delivered += 1;
                self.enqueue(inner, base, src, dst, data[..l].to_vec());
            }
            Fault::FlipBit { pos } => {
                Self::bump(inner, "fault.bitflip");
                let mut d = data.to_vec();
                if !d.is_empty() {
                    let p = pos as usize % (d.len() * 8);
                    d[p / 8] ^= 1 << (p % 8);
                }
                inner.tampered_delivered += 1;
                self.enqueue(inner, base, src, dst, d);
            }
            Fault::FlipSweep => {
                Self::bump(inner, "fault.flip_sweep");
                let mut t = base;
                let step = Duration::from_micros(10);
                let (lo, hi) = (std::env::var("NETSIM_SWEEP_FROM").ok().and_then(|s| s.parse().ok()).unwrap_or(0usize), std::env::var("NETSIM_SWEEP_TO").ok().and_then(|s| s.parse().ok()).unwrap_or(usize::MAX));
                for p in 0..data.len() * 8 {
                    if p < lo || p >= hi {
                        continue;
                    }
                    let mut d = data.to_vec();
                    d[p / 8] ^= 1 << (p % 8);
                    self.enqueue(inner, t, src, dst, d);
                    inner.tampered_delivered += 1;
                    t += step;
                }
                for l in 0..data.len() {
                    if std::env::var("NETSIM_SWEEP_NOTRUNC").is_ok() {
                        break;
                    }
                    self.enqueue(inner, t, src, dst, data[..l].to_vec());
                    inner.tampered_delivered += 1;
                    t += step;
                }
                self.enqueue(inner, t, src, dst, data.to_vec());
                self.enqueue(inner, t + Duration::from_millis(1), src, dst, data.to_vec());
            }
            Fault::Garbage { kind } => {
                Self::bump(inner, "fault.garbage_injected");
                let mut s = self.cfg.jitter_seed ^ 0xfeed ^ ((ord as u64) << 8) ^ kind as u64;
                let off_path: SocketAddr = "127.0.0.9:6666".parse().unwrap();
                let forged: Vec<u8> = match kind {
                    0 | 1 => {
                        let n = 1 + (splitmix(&mut s) % 1400) as usize;
                        let mut v = vec![0u8; n];
                        for b in v.iter_mut() {
                            *b = splitmix(&mut s) as u8;
                        }
                        // keep the header form/fixed bits plausible half of the time
                        if splitmix(&mut s) & 1 == 0 {
                            v[0] = (v[0] & 0x3f) | (data[0] & 0xc0);
                        }
                        v
                    }
                    _ => {
                        let mut v = data.to_vec();
                        let n = 1 + splitmix(&mut s) % 8;
                        for _ in 0..n {
                            let p = (splitmix(&mut s) % (v.len() as u64 * 8)) as usize;
                            v[p / 8] ^= 1 << (p % 8);
                        }
                        v
                    }
                };
                let from = if kind == 0 || kind == 3 { src } else { off_path };
                inner.tampered_delivered += 1;
                self.enqueue(inner, base, from, dst, forged);
                self.enqueue(inner, base + Duration::from_micros(50), src, dst, data.to_vec());
            }
        }
    }

    /// Move everything that is due into the destination inboxes; returns the next due instant.
    fn pump_once(&self) -> Option<Instant> {
        let now = Instant::now();
        let mut g = self.inner.lock().unwrap();
        let inner = &mut *g;
        while let Some(Reverse(f)) = inner.heap.peek() {
            if f.at > now {
                break;
            }
            let Reverse(f) = inner.heap.pop().unwrap();
            let dir = if f.dst == self.server_addr { C2S } else { S2C };
            // what the server sends to the rebound address reaches the client behind the NAT
            let home = if f.dst == nat_alt() { inner.nat_real.unwrap_or(f.dst) } else { f.dst };
            if let Some(ep) = inner.endpoints.get_mut(&home) {
                inner.delivered[dir] += 1;
                let now_ms = now.saturating_duration_since(self.start).as_millis() as u64;
                inner.last_delivered_ms[1 - dir] = now_ms;
                inner.last_activity_ms[1 - dir] = now_ms;
                inner.ledger.entry((f.dst, f.src)).or_default().rcvd += f.data.len() as u64;
                ep.queue.push_back(f);
                if let Some(w) = ep.waker.take() {
                    w.wake();
                }
            }
        }
        inner.heap.peek().map(|Reverse(f)| f.at)
    }

    /// The network pump: runs as one task on the simulated runtime.
    pub async fn run_pump(self: Arc<Self>) {
        loop {
            match self.pump_once() {
                Some(t) => {
                    tokio::select! {
                        biased;
                        _ = tokio::time::sleep_until(t) => {}
                        _ = PumpWait { net: &self, armed: false } => {}
                    }
                }
                None => PumpWait { net: &self, armed: false }.await,
            }
        }
    }

    /// the server's event log reports a 1-RTT packet of `len` bytes sent on the rebound path carrying more than probes
    pub fn note_alt_data(&self, len: u64) {
        let mut g = self.inner.lock().unwrap();
        if g.nat_real.is_none() || g.alt_validated_at.is_some() {
            return;
        }
        g.alt_data_bytes += len;
        let rcvd = g.ledger.get(&(self.server_addr, nat_alt())).map(|l| l.rcvd).unwrap_or(0);
        let d = g.alt_data_bytes;
        if d > 3 * rcvd && g.alt_data_excess.is_none_or(|(pd, pr)| d - 3 * rcvd > pd - 3 * pr) {
            g.alt_data_excess = Some((d, rcvd));
        }
    }

    /// drop everything recorded or still queued (end of a run; see app.rs)
    pub fn release_memory(&self) {
        let mut g = self.inner.lock().unwrap();
        g.heap.clear();
        g.heap.shrink_to_fit();
        g.log = Vec::new();
        g.ledger = HashMap::new();
        for ep in g.endpoints.values_mut() {
            ep.queue.clear();
            ep.queue.shrink_to_fit();
            ep.waker = None;
        }
        g.pump_waker = None;
    }

    pub fn mark_alt_validated(&self) {
        let now = self.now_ms();
        let mut g = self.inner.lock().unwrap();
        if g.nat_real.is_some() && g.alt_validated_at.is_none() {
            g.alt_validated_at = Some(now);
        }
    }

    pub fn mark_server_validated(&self) {
        let now = self.now_ms();
        let mut g = self.inner.lock().unwrap();
        if g.server_validated_at.is_none() {
            g.server_validated_at = Some(now);
        }
    }
}

/// resolves when `enqueue` has been called after this future was first polled
struct PumpWait<'a> {
    net: &'a SimNet,
    armed: bool,
}

impl std::future::Future for PumpWait<'_> {
    type Output = ();
    fn poll(mut self: std::pin::Pin<&mut Self>, cx: &mut Context<'_>) -> Poll<()> {
        let mut g = self.net.inner.lock().unwrap();
        if self.armed && g.pump_waker.is_none() {
            return Poll::Ready(());
        }
        g.pump_waker = Some(cx.waker().clone());
        drop(g);
        self.armed = true;
        Poll::Pending
    }
}

pub struct SimIo {
    net: Arc<SimNet>,
    uri: BindUri,
    addr: SocketAddr,
    closed: bool,
}

impl IO for SimIo {
    fn bind_uri(&self) -> BindUri {
        self.uri.clone()
    }
    fn bound_addr(&self) -> io::Result<SocketAddr> {
        Ok(self.addr)
    }
    fn max_segment_size(&self) -> io::Result<usize> {
        Ok(1500)
    }
    fn max_segments(&self) -> io::Result<usize> {
        Ok(64)
    }
    fn poll_send(&self, _cx: &mut Context, pkts: &[io::IoSlice], route: Route) -> Poll<io::Result<usize>> {
        if self.closed {
            return Poll::Ready(Err(io::Error::other("closed")));
        }
        let dst = route.link().dst;
        for p in pkts {
            self.net.send(self.addr, dst, p);
        }
        Poll::Ready(Ok(pkts.len()))
    }
    fn poll_recv(&self, cx: &mut Context, pkts: &mut [BytesMut], route: &mut [Route]) -> Poll<io::Result<usize>> {
        if self.closed {
            return Poll::Ready(Err(io::Error::other("closed")));
        }
        let mut g = self.net.inner.lock().unwrap();
        let Some(ep) = g.endpoints.get_mut(&self.addr) else {
            return Poll::Ready(Err(io::Error::other("closed")));
        };
        if ep.queue.is_empty() {
            ep.waker = Some(cx.waker().clone());
            return Poll::Pending;
        }
        let n = pkts.len().min(route.len());
        let mut i = 0;
        while i < n {
            let Some(f) = ep.queue.pop_front() else { break };
            let len = f.data.len().min(pkts[i].len());
            pkts[i][..len].copy_from_slice(&f.data[..len]);
            route[i] = Route::new(
                Pathway::new(self.addr.into(), f.src.into()),
                Line::new(Link::new(self.addr, f.src), 64, None, len as u16),
            );
            i += 1;
        }
        Poll::Ready(Ok(i))
    }
    fn poll_close(&mut self, _cx: &mut Context) -> Poll<io::Result<()>> {
        self.closed = true;
        let mut g = self.net.inner.lock().unwrap();
        if let Some(mut ep) = g.endpoints.remove(&self.addr) {
            if let Some(w) = ep.waker.take() {
                w.wake();
            }
        }
        Poll::Ready(Ok(()))
    }
}
