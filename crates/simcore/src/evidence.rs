//! Evidence file writer (EVIDENCE.schema.json, level `exploration`).
use std::collections::BTreeMap;

use serde_json::{Value, json};

use crate::engine::{Ctx, Report};

pub fn write(ctx: &Ctx, report: &Report, assumptions: &[&str], path: &str) {
    let wall = ctx.started.elapsed().as_secs_f64();
    let mut faults = BTreeMap::new();
    let mut probes = BTreeMap::new();
    let mut other = BTreeMap::new();
    let mut zero_probes = Vec::new();
    for (k, v) in &report.stats.0 {
        if let Some(n) = k.strip_prefix("fault.") {
            faults.insert(n.to_string(), *v);
        } else if let Some(n) = k.strip_prefix("probe.") {
            probes.insert(n.to_string(), *v);
            if *v == 0 {
                zero_probes.push(n.to_string());
            }
        } else {
            other.insert(k.to_string(), *v);
        }
    }
    let known: Vec<Value> = report
        .found
        .iter()
        .filter(|f| f.known.is_some())
        .map(|f| json!({"signature": f.signature, "seed": f.seed, "engine": f.engine, "replay": f.replay}))
        .collect();
    let viol: Vec<Value> = report
        .found
        .iter()
        .filter(|f| f.known.is_none())
        .map(|f| json!({"signature": f.signature, "seed": f.seed, "engine": f.engine, "replay": f.replay, "detail": f.detail}))
        .collect();
    let ev = json!({
        "property_id": ctx.prop,
        "tier": ctx.tier.as_str(),
        "seed": ctx.root_seed,
        "level": "exploration",
        "coverage": {
            "evaluations": report.evaluations,
            "distinct_nontrivial": report.distinct.len(),
            "rule": report.rules.join(" | "),
            "samples": report.samples,
            "exhaustive": false,
            "exhaustive_subspaces": report.exhaustive_notes,
            "runs_per_hour": if wall > 0.0 { (report.evaluations as f64 / wall * 3600.0) as u64 } else { 0 },
            "simulated_seconds": report.sim_seconds,
            "faults_fired": faults,
            "probes": probes,
            "probes_stuck_at_zero": zero_probes,
            "counters": other,
            "parts": report.parts,
            "components_real": report.real,
            "components_stub": report.stub,
            "known_findings_hit": known,
            "violations_found": viol,
            "harness_errors": report.harness_errors,
        },
        "assumptions": assumptions,
        "wall_s": wall,
        "violations": report.unlisted(),
    });
    if let Some(dir) = std::path::Path::new(path).parent() {
        let _ = std::fs::create_dir_all(dir);
    }
    std::fs::write(path, serde_json::to_string_pretty(&ev).unwrap()).expect("write evidence");
}
