//! getrandom custom backend (`--cfg getrandom_backend="custom"`): every byte the library draws through
//! `rand::rng()` comes from a thread-local SplitMix64 seeded by the running case.
use std::cell::Cell;

use crate::rng::splitmix;

thread_local! {
    static ENTROPY: Cell<u64> = const { Cell::new(0x1234_5678_9abc_def0) };
}

pub fn seed_thread_entropy(seed: u64) {
    ENTROPY.with(|e| e.set(seed ^ 0x5bd1_e995_5bd1_e995));
}

#[repr(transparent)]
pub struct GetrandomError(core::num::NonZeroU32);

#[unsafe(no_mangle)]
unsafe extern "Rust" fn __getrandom_v03_custom(dest: *mut u8, len: usize) -> Result<(), GetrandomError> {
    ENTROPY.with(|e| {
        let mut s = e.get();
        let mut i = 0;
        while i < len {
            let v = splitmix(&mut s).to_le_bytes();
            let n = (len - i).min(8);
            unsafe { core::ptr::copy_nonoverlapping(v.as_ptr(), dest.add(i), n) };
            i += n;
        }
        e.set(s);
    });
    Ok(())
}
