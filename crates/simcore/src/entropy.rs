//! getrandom custom backend (`--cfg getrandom_backend="custom"`): every byte the library draws through
//! `rand::rng()` comes from a thread-local SplitMix64 seeded by the running case.
use std::cell::Cell;

use crate::rng::splitmix;

thread_local! {
    static ENTROPY: Cell<u64> = const { Cell::new(0x1234_5678_9abc_def0) };
}

pub fn seed_thread_entropy(seed: u64) {
    ENTROPY.with(|e| e.set(seed ^ 0x5bd1_e995_5bd1_e995));
}

#[repr(transparent)]
pub struct GetrandomError(core::num::NonZeroU32);

#[unsafe(no_mangle)]
unsafe extern "Rust" fn __getrandom_v03_custom(dest: *mut u8, len: usize) -> Result<(), GetrandomError> {
    ENTROPY.with(|e| {
        let mut s = e.get();
        let mut i = 0;
        while i < len {
            let v = splitmix(&mut s).to_le_bytes();
            let n = (len - i).min(8);
            unsafe { core::ptr::copy_nonoverlapping(v.as_ptr(), dest.add(i), n) };
            i += n;
        }
        e.set(s);
    });
    Ok(())
}

/// `ring` (TLS randoms, X25519 shares) draws through getrandom 0.2, which calls `libc::syscall(SYS_getrandom, ..)`
/// and cannot be given a custom backend on Linux. The harness therefore defines `syscall` itself: the
/// static link resolves every reference from the Rust crates in this binary to this definition; all
/// numbers except SYS_getrandom are forwarded unchanged to the kernel.
#[cfg(all(target_os = "linux", target_arch = "x86_64"))]
#[unsafe(no_mangle)]
pub unsafe extern "C" fn syscall(num: libc::c_long, a1: usize, a2: usize, a3: usize, a4: usize, a5: usize, a6: usize) -> libc::c_long {
    if num == libc::SYS_getrandom {
        let seeded = ENTROPY.try_with(|e| {
            let mut s = e.get();
            let (dest, len) = (a1 as *mut u8, a2);
            let mut i = 0;
            while i < len {
                let v = splitmix(&mut s).to_le_bytes();
                let n = (len - i).min(8);
                unsafe { core::ptr::copy_nonoverlapping(v.as_ptr(), dest.add(i), n) };
                i += n;
            }
            e.set(s);
        });
        if seeded.is_ok() {
            return a2 as libc::c_long;
        }
    }
    let ret: isize;
    unsafe {
        core::arch::asm!(
            "syscall",
            inlateout("rax") num as isize => ret,
            in("rdi") a1, in("rsi") a2, in("rdx") a3, in("r10") a4, in("r8") a5, in("r9") a6,
            lateout("rcx") _, lateout("r11") _,
            options(nostack)
        );
    }
    if (-4095..0).contains(&ret) {
        unsafe { *libc::__errno_location() = (-ret) as i32 };
        -1
    } else {
        ret as libc::c_long
    }
}

/// std seeds `RandomState` (HashMap iteration order) through a weak reference to `getrandom`; defining it
/// here makes hash iteration order part of the seed as well (std documents this interposition point).
#[cfg(all(target_os = "linux", target_arch = "x86_64"))]
#[unsafe(no_mangle)]
pub unsafe extern "C" fn getrandom(buf: *mut libc::c_void, len: libc::size_t, flags: libc::c_uint) -> libc::ssize_t {
    unsafe { syscall(libc::SYS_getrandom, buf as usize, len, flags as usize, 0, 0, 0) as libc::ssize_t }
}
