//! One integer decides everything: SplitMix64 root, labelled sub-streams (DESIGN §3.1).

#[derive(Clone, Debug)]
pub struct Rng {
    s: u64,
}

#[inline]
pub fn splitmix(x: &mut u64) -> u64 {
    *x = x.wrapping_add(0x9E37_79B9_7F4A_7C15);
    let mut z = *x;
    z = (z ^ (z >> 30)).wrapping_mul(0xBF58_476D_1CE4_E5B9);
    z = (z ^ (z >> 27)).wrapping_mul(0x94D0_49BB_1331_11EB);
    z ^ (z >> 31)
}

pub fn hash_str(s: &str) -> u64 {
    let mut h: u64 = 0xcbf2_9ce4_8422_2325;
    for b in s.as_bytes() {
        h ^= *b as u64;
        h = h.wrapping_mul(0x0000_0100_0000_01B3);
    }
    h
}

/// run seed of run `i` of property `prop` under root seed `root`
pub fn mix(root: u64, prop: &str, i: u64) -> u64 {
    let mut x = root ^ hash_str(prop).rotate_left(17) ^ i.wrapping_mul(0xD6E8_FEB8_6659_FD93);
    let a = splitmix(&mut x);
    let b = splitmix(&mut x);
    a ^ b.rotate_left(32)
}

impl Rng {
    pub fn new(seed: u64) -> Self {
        let mut s = seed;
        // discard one so nearby seeds decorrelate
        let _ = splitmix(&mut s);
        Rng { s }
    }
    /// independent sub-stream; drawing from it never shifts another stream
    pub fn derive(seed: u64, label: &str) -> Self {
        Rng::new(seed ^ hash_str(label).rotate_left(29))
    }
    #[inline]
    pub fn next_u64(&mut self) -> u64 {
        splitmix(&mut self.s)
    }
    /// uniform in [0, n); n == 0 returns 0
    #[inline]
    pub fn below(&mut self, n: u64) -> u64 {
        if n == 0 {
            return 0;
        }
        ((self.next_u64() as u128 * n as u128) >> 64) as u64
    }
    #[inline]
    pub fn usize_below(&mut self, n: usize) -> usize {
        self.below(n as u64) as usize
    }
    /// uniform in [lo, hi] inclusive
    #[inline]
    pub fn range(&mut self, lo: u64, hi: u64) -> u64 {
        debug_assert!(lo <= hi);
        lo + self.below(hi - lo + 1)
    }
    #[inline]
    pub fn f64(&mut self) -> f64 {
        (self.next_u64() >> 11) as f64 / (1u64 << 53) as f64
    }
    #[inline]
    pub fn chance(&mut self, p: f64) -> bool {
        self.f64() < p
    }
    /// true with probability num/den
    #[inline]
    pub fn one_in(&mut self, den: u64) -> bool {
        self.below(den) == 0
    }
    pub fn pick<'a, T>(&mut self, xs: &'a [T]) -> &'a T {
        &xs[self.usize_below(xs.len())]
    }
    /// log-uniform in [lo, hi]
    pub fn log_uniform(&mut self, lo: f64, hi: f64) -> f64 {
        let (a, b) = (lo.ln(), hi.ln());
        (a + (b - a) * self.f64()).exp()
    }
    /// integer biased toward small values and toward `hi` boundary
    pub fn skewed(&mut self, hi: u64) -> u64 {
        match self.below(8) {
            0 => 0,
            1 => hi,
            2 | 3 => self.below(hi.min(16) + 1),
            _ => self.below(hi + 1),
        }
    }
    pub fn fill(&mut self, dst: &mut [u8]) {
        for chunk in dst.chunks_mut(8) {
            let v = self.next_u64().to_le_bytes();
            chunk.copy_from_slice(&v[..chunk.len()]);
        }
    }
    pub fn shuffle<T>(&mut self, xs: &mut [T]) {
        for i in (1..xs.len()).rev() {
            let j = self.usize_below(i + 1);
            xs.swap(i, j);
        }
    }
}

/// payload byte k of stream s in run `seed`: attributable to exactly one written position
#[inline]
pub fn prf(seed: u64, stream: u64, k: u64) -> u8 {
    let mut x = seed ^ stream.wrapping_mul(0xA24B_AED4_963E_E407) ^ (k >> 3).wrapping_mul(0x9FB2_1C65_1E98_DF25);
    let v = splitmix(&mut x);
    (v >> ((k & 7) * 8)) as u8
}

pub fn prf_vec(seed: u64, stream: u64, from: u64, len: usize) -> Vec<u8> {
    (0..len as u64).map(|i| prf(seed, stream, from + i)).collect()
}

/// FNV-style incremental hasher for canonical traces (deterministic across processes)
#[derive(Clone, Copy)]
pub struct TraceHash(pub u64);
impl Default for TraceHash {
    fn default() -> Self {
        TraceHash(0xcbf2_9ce4_8422_2325)
    }
}
impl TraceHash {
    #[inline]
    pub fn add(&mut self, v: u64) {
        let mut x = self.0 ^ v;
        self.0 = splitmix(&mut x);
    }
    pub fn add_bytes(&mut self, b: &[u8]) {
        for c in b.chunks(8) {
            let mut w = [0u8; 8];
            w[..c.len()].copy_from_slice(c);
            self.add(u64::from_le_bytes(w));
        }
        self.add(b.len() as u64);
    }
    pub fn add_str(&mut self, s: &str) {
        self.add_bytes(s.as_bytes())
    }
    pub fn get(&self) -> u64 {
        self.0
    }
}
