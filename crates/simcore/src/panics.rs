//! Panic capture. tokio swallows task panics into JoinErrors and a panicking handler is a verdict
//! (C02 `no-panic`, C04 `panic:<handler>`), so a process-wide hook records the innermost frame that
//! lies in /repo (a property violation) or in /verif (a harness error, exit 2).
use std::{
    cell::RefCell,
    panic::{AssertUnwindSafe, catch_unwind},
    sync::Once,
};

#[derive(Clone, Debug)]
pub struct PanicRecord {
    pub message: String,
    /// `file::function` of the innermost /repo frame, if any
    pub repo_site: Option<String>,
    /// `file:line` as reported by the panic itself
    pub location: String,
    pub in_harness: bool,
}

thread_local! {
    static LAST: RefCell<Vec<PanicRecord>> = const { RefCell::new(Vec::new()) };
    static QUIET: RefCell<bool> = const { RefCell::new(true) };
}

static INSTALL: Once = Once::new();

fn classify(bt: &str) -> (Option<String>, bool) {
    // Display format of Backtrace: "  N: symbol\n             at path:line:col"
    let mut last_sym = String::new();
    for line in bt.lines() {
        let t = line.trim_start();
        if let Some(rest) = t.strip_prefix("at ") {
            let path = rest.split(':').next().unwrap_or("");
            if let Some(p) = path.strip_prefix("/repo/") {
                if p.starts_with("target/") {
                    continue;
                }
                return (Some(format!("{}::{}", p, short_sym(&last_sym))), false);
            }
            if path.starts_with("/verif/crates/") && !path.contains("simcore/src/panics.rs") {
                return (None, true);
            }
        } else if let Some(pos) = t.find(": ") {
            last_sym = t[pos + 2..].to_string();
        }
    }
    (None, false)
}

fn short_sym(sym: &str) -> String {
    // drop generic args and hashes, keep the last two path components
    let mut s = sym.to_string();
    if let Some(i) = s.rfind("::h") {
        if s[i + 3..].chars().all(|c| c.is_ascii_hexdigit()) {
            s.truncate(i);
        }
    }
    let mut depth = 0;
    let mut out = String::new();
    for c in s.chars() {
        match c {
            '<' => depth += 1,
            '>' => depth -= 1,
            _ if depth == 0 => out.push(c),
            _ => {}
        }
    }
    let parts: Vec<&str> = out.split("::").filter(|p| !p.is_empty() && *p != "{{closure}}" && *p != "{closure#0}").collect();
    let n = parts.len();
    parts[n.saturating_sub(2)..].join("::")
}

pub fn install() {
    INSTALL.call_once(|| {
        std::panic::set_hook(Box::new(|info| {
            let bt = std::backtrace::Backtrace::force_capture().to_string();
            let (repo_site, in_harness) = classify(&bt);
            let message = if let Some(s) = info.payload().downcast_ref::<&str>() {
                s.to_string()
            } else if let Some(s) = info.payload().downcast_ref::<String>() {
                s.clone()
            } else {
                "<non-string panic>".to_string()
            };
            let location = info.location().map(|l| format!("{}:{}", l.file(), l.line())).unwrap_or_default();
            let rec = PanicRecord { message, repo_site, location, in_harness };
            let quiet = QUIET.with(|q| *q.borrow());
            if !quiet || rec.in_harness {
                eprintln!("[panic] {} at {} (repo_site={:?})", rec.message, rec.location, rec.repo_site);
                if rec.in_harness {
                    eprintln!("{bt}");
                }
            }
            LAST.with(|l| l.borrow_mut().push(rec));
        }));
    });
}

pub fn set_quiet(q: bool) {
    QUIET.with(|c| *c.borrow_mut() = q);
}

/// panics recorded on this thread since the last call
pub fn take() -> Vec<PanicRecord> {
    LAST.with(|l| std::mem::take(&mut *l.borrow_mut()))
}

/// Run `f`, returning either its value or the record of the panic that ended it.
pub fn guarded<R>(f: impl FnOnce() -> R) -> Result<R, PanicRecord> {
    let _ = take();
    match catch_unwind(AssertUnwindSafe(f)) {
        Ok(r) => Ok(r),
        Err(_) => {
            let mut recs = take();
            Err(recs.pop().unwrap_or(PanicRecord {
                message: "<panic without record>".into(),
                repo_site: None,
                location: String::new(),
                in_harness: false,
            }))
        }
    }
}

impl PanicRecord {
    /// stable site for a signature
    pub fn site(&self) -> String {
        match &self.repo_site {
            Some(s) => s.clone(),
            None => {
                // panic raised from a dependency with no /repo frame symbolised: fall back to file name
                let f = self.location.rsplit('/').next().unwrap_or("").split(':').next().unwrap_or("");
                format!("extern:{f}")
            }
        }
    }
}
