//! Counting global allocator (per-thread byte and call counters) and a thread-CPU clock, used by the
//! work-bound oracles (C04) and the storage oracle of C08.
use std::{
    alloc::{GlobalAlloc, Layout, System},
    cell::Cell,
};

pub struct CountingAlloc;

thread_local! {
    static BYTES: Cell<u64> = const { Cell::new(0) };
    static CALLS: Cell<u64> = const { Cell::new(0) };
    static PEAK_REQ: Cell<u64> = const { Cell::new(0) };
    /// when non-zero, an allocation request larger than this is refused (returns null -> alloc error)
    static LIMIT: Cell<u64> = const { Cell::new(0) };
}

unsafe impl GlobalAlloc for CountingAlloc {
    unsafe fn alloc(&self, l: Layout) -> *mut u8 {
        let _ = BYTES.try_with(|b| b.set(b.get().wrapping_add(l.size() as u64)));
        let _ = CALLS.try_with(|c| c.set(c.get().wrapping_add(1)));
        let _ = PEAK_REQ.try_with(|p| p.set(p.get().max(l.size() as u64)));
        unsafe { System.alloc(l) }
    }
    unsafe fn dealloc(&self, p: *mut u8, l: Layout) {
        unsafe { System.dealloc(p, l) }
    }
    unsafe fn realloc(&self, p: *mut u8, l: Layout, new: usize) -> *mut u8 {
        if new > l.size() {
            let _ = BYTES.try_with(|b| b.set(b.get().wrapping_add((new - l.size()) as u64)));
            let _ = PEAK_REQ.try_with(|p| p.set(p.get().max(new as u64)));
        }
        let _ = CALLS.try_with(|c| c.set(c.get().wrapping_add(1)));
        unsafe { System.realloc(p, l, new) }
    }
    unsafe fn alloc_zeroed(&self, l: Layout) -> *mut u8 {
        let _ = BYTES.try_with(|b| b.set(b.get().wrapping_add(l.size() as u64)));
        let _ = CALLS.try_with(|c| c.set(c.get().wrapping_add(1)));
        let _ = PEAK_REQ.try_with(|p| p.set(p.get().max(l.size() as u64)));
        unsafe { System.alloc_zeroed(l) }
    }
}

#[derive(Clone, Copy, Debug, Default)]
pub struct AllocMark {
    pub bytes: u64,
    pub calls: u64,
}

/// cumulative bytes requested / allocator calls on this thread
pub fn mark() -> AllocMark {
    AllocMark { bytes: BYTES.with(|b| b.get()), calls: CALLS.with(|c| c.get()) }
}

pub fn since(m: AllocMark) -> AllocMark {
    let n = mark();
    AllocMark { bytes: n.bytes.wrapping_sub(m.bytes), calls: n.calls.wrapping_sub(m.calls) }
}

pub fn reset_peak() {
    PEAK_REQ.with(|p| p.set(0));
}
pub fn peak_request() -> u64 {
    PEAK_REQ.with(|p| p.get())
}

/// CPU time consumed by the calling thread, in nanoseconds
pub fn thread_cpu_ns() -> u64 {
    let mut ts = libc::timespec { tv_sec: 0, tv_nsec: 0 };
    unsafe { libc::clock_gettime(libc::CLOCK_THREAD_CPUTIME_ID, &mut ts) };
    ts.tv_sec as u64 * 1_000_000_000 + ts.tv_nsec as u64
}
