//! Engine trait, batch runner, minimiser and replay files (DESIGN §3.2–§3.5).
use std::{
    collections::{BTreeMap, HashSet},
    sync::{
        Mutex,
        atomic::{AtomicBool, AtomicU64, Ordering},
    },
    time::{Duration, Instant},
};

use serde::{Serialize, de::DeserializeOwned};
use serde_json::{Value, json};

use crate::{known::Known, panics, rng::mix};

#[derive(Clone, Copy, Debug, PartialEq, Eq)]
pub enum Tier {
    Quick,
    Thorough,
}

impl Tier {
    pub fn as_str(&self) -> &'static str {
        match self {
            Tier::Quick => "quick",
            Tier::Thorough => "thorough",
        }
    }
}

#[derive(Clone, Debug, Serialize, serde::Deserialize)]
pub struct Violation {
    pub clause: String,
    pub site: String,
    pub detail: String,
    /// step ordinal or virtual milliseconds at which the oracle fired
    pub at: u64,
}

impl Violation {
    pub fn new(clause: &str, site: impl Into<String>, detail: impl Into<String>, at: u64) -> Self {
        Violation { clause: clause.to_string(), site: site.into(), detail: detail.into(), at }
    }
    pub fn signature(&self) -> String {
        if self.site.is_empty() { self.clause.clone() } else { format!("{}:{}", self.clause, self.site) }
    }
}

#[derive(Clone, Debug, Default)]
pub struct Stats(pub BTreeMap<&'static str, u64>);

impl Stats {
    #[inline]
    pub fn bump(&mut self, k: &'static str) {
        *self.0.entry(k).or_insert(0) += 1;
    }
    #[inline]
    pub fn add(&mut self, k: &'static str, n: u64) {
        *self.0.entry(k).or_insert(0) += n;
    }
    pub fn get(&self, k: &str) -> u64 {
        self.0.get(k).copied().unwrap_or(0)
    }
    pub fn merge(&mut self, o: &Stats) {
        for (k, v) in &o.0 {
            *self.0.entry(k).or_insert(0) += v;
        }
    }
}

/// intern a dynamic counter name
pub fn intern(s: &str) -> &'static str {
    static TABLE: Mutex<BTreeMap<String, &'static str>> = Mutex::new(BTreeMap::new());
    let mut t = TABLE.lock().unwrap();
    if let Some(v) = t.get(s) {
        return v;
    }
    let leaked: &'static str = Box::leak(s.to_string().into_boxed_str());
    t.insert(s.to_string(), leaked);
    leaked
}

#[derive(Clone, Debug, Default)]
pub struct Outcome {
    pub violations: Vec<Violation>,
    /// fault kinds that actually fired (`fault.*`), rare-branch probes (`probe.*`), anything else
    pub stats: Stats,
    pub trace_hash: u64,
    /// at least one fault fired and the workload made progress
    pub nontrivial: bool,
    pub sim_seconds: f64,
    pub harness_error: Option<String>,
}

impl Outcome {
    pub fn violate(&mut self, clause: &str, site: impl Into<String>, detail: impl Into<String>, at: u64) {
        let v = Violation::new(clause, site, detail, at);
        let sig = v.signature();
        if self.violations.len() < 16 && !self.violations.iter().any(|x| x.signature() == sig) {
            self.violations.push(v);
        }
    }
    pub fn failed(&self) -> bool {
        !self.violations.is_empty()
    }
}

pub trait Engine: Sync + Send {
    type Case: Serialize + DeserializeOwned + Clone + Send + Sync + 'static;
    fn name(&self) -> &'static str;
    /// `index` is the ordinal of the run in its batch (enumerating engines decode it), `seed` the run seed
    fn generate(&self, index: u64, seed: u64, tier: Tier) -> Self::Case;
    fn execute(&self, case: &Self::Case) -> Outcome;
    /// simpler candidate cases, most aggressive first
    fn shrink(&self, _case: &Self::Case) -> Vec<Self::Case> {
        Vec::new()
    }
    /// compact description of a case for the evidence file
    fn sample(&self, case: &Self::Case) -> Value {
        let v = serde_json::to_value(case).unwrap_or(Value::Null);
        truncate_value(v, 24)
    }
    /// run each case on a fresh OS thread (engines with thread-local state in the code under test)
    fn fresh_thread(&self) -> bool {
        false
    }
    /// wall-clock limit for one execution; exceeding it is reported as `no-progress:wall-watchdog`
    fn wall_limit(&self) -> Duration {
        Duration::from_secs(240)
    }
    /// Clauses judged on measured CPU time. A hit of such a clause that does not show again when the minimised case
    /// is re-executed twice is measurement noise (a loaded machine), not a finding and not a harness fault: it is
    /// dropped and counted (`probe.timing_hit_unconfirmed`). Every other clause must reproduce exactly.
    fn timing_clauses(&self) -> Vec<&'static str> {
        vec![]
    }
    fn components_real(&self) -> Vec<&'static str> {
        vec![]
    }
    fn components_stub(&self) -> Vec<&'static str> {
        vec![]
    }
}

pub fn truncate_value(v: Value, max_items: usize) -> Value {
    match v {
        Value::Array(a) => {
            let n = a.len();
            let mut out: Vec<Value> = a.into_iter().take(max_items).map(|x| truncate_value(x, max_items)).collect();
            if n > max_items {
                out.push(json!(format!("… {} more", n - max_items)));
            }
            Value::Array(out)
        }
        Value::Object(o) => Value::Object(o.into_iter().map(|(k, x)| (k, truncate_value(x, max_items))).collect()),
        Value::String(s) if s.len() > 200 => Value::String(format!("{}… ({} chars)", &s[..200], s.len())),
        x => x,
    }
}

pub struct Ctx {
    pub prop: String,
    pub tier: Tier,
    pub root_seed: u64,
    pub threads: usize,
    pub known: Known,
    pub replay_dir: String,
    pub started: Instant,
}

#[derive(Debug, Clone)]
pub struct Found {
    pub engine: String,
    pub signature: String,
    pub detail: String,
    pub seed: u64,
    pub replay: String,
    pub known: Option<String>,
}

#[derive(Default)]
pub struct Report {
    pub parts: Vec<Value>,
    pub evaluations: u64,
    pub distinct: HashSet<u64>,
    pub stats: Stats,
    pub samples: Vec<Value>,
    pub sim_seconds: f64,
    pub found: Vec<Found>,
    pub harness_errors: Vec<String>,
    pub real: Vec<String>,
    pub stub: Vec<String>,
    pub rules: Vec<String>,
    pub exhaustive_notes: Vec<String>,
}

impl Report {
    pub fn unlisted(&self) -> usize {
        self.found.iter().filter(|f| f.known.is_none()).count()
    }
}

fn exec_guarded<E: Engine>(eng: &E, case: &E::Case, seed: u64) -> Outcome {
    let run = || {
        crate::entropy::seed_thread_entropy(seed);
        match panics::guarded(|| eng.execute(case)) {
            Ok(o) => o,
            Err(rec) => {
                let mut o = Outcome::default();
                if rec.in_harness {
                    o.harness_error = Some(format!("harness panic: {} at {}", rec.message, rec.location));
                } else {
                    o.violate("no-panic", rec.site(), format!("{} at {}", rec.message, rec.location), 0);
                }
                o
            }
        }
    };
    if eng.fresh_thread() {
        std::thread::scope(|s| {
            std::thread::Builder::new()
                .stack_size(8 << 20)
                .spawn_scoped(s, run)
                .expect("spawn")
                .join()
                .unwrap_or_else(|_| {
                    let mut o = Outcome::default();
                    o.harness_error = Some("run thread died".into());
                    o
                })
        })
    } else {
        run()
    }
}

/// Execute one case the way the batch runner does (used by replay).
pub fn execute_case<E: Engine>(eng: &E, case: &E::Case, seed: u64) -> Outcome {
    panics::install();
    exec_guarded(eng, case, seed)
}

fn minimise<E: Engine>(eng: &E, mut case: E::Case, seed: u64, signature: &str, budget: usize) -> (E::Case, usize) {
    let mut used = 0;
    'outer: loop {
        let cands = eng.shrink(&case);
        for c in cands {
            if used >= budget {
                break 'outer;
            }
            used += 1;
            let out = exec_guarded(eng, &c, seed);
            if out.harness_error.is_none() && out.violations.iter().any(|v| v.signature() == signature) {
                case = c;
                continue 'outer;
            }
        }
        break;
    }
    (case, used)
}

fn write_replay<E: Engine>(
    ctx: &Ctx,
    eng: &E,
    seed: u64,
    case: &E::Case,
    original: Option<&E::Case>,
    v: &Violation,
    shrink_runs: usize,
) -> String {
    let _ = std::fs::create_dir_all(&ctx.replay_dir);
    let body = json!({
        "property": ctx.prop,
        "engine": eng.name(),
        "run_seed": seed,
        "root_seed": ctx.root_seed,
        "violation": { "clause": v.clause, "site": v.site, "signature": v.signature(), "detail": v.detail, "at": v.at },
        "minimise_executions": shrink_runs,
        "case": case,
        "original": original.map(|c| serde_json::to_value(c).unwrap_or(Value::Null)),
    });
    let text = serde_json::to_string_pretty(&body).unwrap();
    let h = crate::rng::hash_str(&format!("{}{}", v.signature(), seed)) & 0xffff_ffff;
    let path = format!("{}/{}-{}-{:016x}-{:08x}.json", ctx.replay_dir, ctx.prop, eng.name(), seed, h);
    std::fs::write(&path, text).expect("write replay");
    path
}

struct Hit<C> {
    seed: u64,
    case: C,
    v: Violation,
}

/// Run `runs` seeded cases of `eng` on `ctx.threads` workers and fold the results into `report`.
pub fn run_part<E: Engine>(ctx: &Ctx, eng: &E, runs: u64, report: &mut Report) {
    panics::install();
    // debugging aid: VERIF_ONLY_SEED=<run seed> executes (and minimises) exactly that run
    let only_seed: Option<u64> = std::env::var("VERIF_ONLY_SEED").ok().and_then(|s| s.parse().ok());
    let runs = if only_seed.is_some() { 1 } else { runs };
    let t0 = Instant::now();
    let next = AtomicU64::new(0);
    let stop = AtomicBool::new(false);
    let label = format!("{}/{}", ctx.prop, eng.name());
    let hits: Mutex<Vec<Hit<E::Case>>> = Mutex::new(Vec::new());
    let herrs: Mutex<Vec<String>> = Mutex::new(Vec::new());
    let merged: Mutex<(Stats, HashSet<u64>, f64, u64, Vec<Value>)> =
        Mutex::new((Stats::default(), HashSet::new(), 0.0, 0, Vec::new()));
    // watchdog slots: (seed+1, start millis) per worker; 0 = idle
    let slots: Vec<(AtomicU64, AtomicU64, AtomicU64)> =
        (0..ctx.threads).map(|_| (AtomicU64::new(0), AtomicU64::new(0), AtomicU64::new(0))).collect();
    let done = AtomicBool::new(false);
    let wall_limit = eng.wall_limit();

    std::thread::scope(|s| {
        // watchdog
        s.spawn(|| {
            while !done.load(Ordering::Relaxed) {
                std::thread::sleep(Duration::from_millis(200));
                let now = t0.elapsed().as_millis() as u64;
                for (seed1, start, idx) in slots.iter() {
                    let sd = seed1.load(Ordering::Relaxed);
                    let st = start.load(Ordering::Relaxed);
                    if sd != 0 && st != 0 && now.saturating_sub(st) > wall_limit.as_millis() as u64 {
                        // a run that does not return under virtual time is a hang of the code under test
                        let seed = sd - 1;
                        let case = eng.generate(idx.load(Ordering::Relaxed), seed, ctx.tier);
                        let v = Violation::new(
                            "no-progress",
                            "wall-watchdog",
                            format!("one execution exceeded {:?} of wall clock", wall_limit),
                            0,
                        );
                        let path = write_replay(ctx, eng, seed, &case, None, &v, 0);
                        match ctx.known.lookup(&ctx.prop, &v.signature()) {
                            Some(k) => {
                                println!("KNOWN-FINDING: property={} {} [hang; aborting batch]", ctx.prop, k.what_fails);
                                std::process::exit(0);
                            }
                            None => {
                                println!("VIOLATION property={} replay={}", ctx.prop, path);
                                println!("  signature={} engine={} seed={}", v.signature(), eng.name(), seed);
                                std::process::exit(1);
                            }
                        }
                    }
                }
            }
        });
        let mut handles = Vec::new();
        for w in 0..ctx.threads {
            let (next, stop, hits, herrs, merged, slots, label) = (&next, &stop, &hits, &herrs, &merged, &slots, &label);
            handles.push(s.spawn(move || {
                let mut stats = Stats::default();
                let mut hashes: HashSet<u64> = HashSet::new();
                let mut sim = 0.0;
                let mut evals = 0u64;
                let mut samples = Vec::new();
                loop {
                    if stop.load(Ordering::Relaxed) {
                        break;
                    }
                    let i = next.fetch_add(1, Ordering::Relaxed);
                    if i >= runs {
                        break;
                    }
                    let seed = only_seed.unwrap_or_else(|| mix(ctx.root_seed, label, i));
                    let case = eng.generate(i, seed, ctx.tier);
                    slots[w].2.store(i, Ordering::Relaxed);
                    slots[w].0.store(seed.wrapping_add(1).max(1), Ordering::Relaxed);
                    slots[w].1.store((t0.elapsed().as_millis() as u64).max(1), Ordering::Relaxed);
                    // engines that run the whole stack leave a note of what is in flight: if the code under test brings
                    // the process down (a panic while unwinding aborts), the `check` wrapper replays the notes one by
                    // one in fresh processes and reports the case that does it
                    let inflight = eng.fresh_thread().then(|| format!("{}/tmp-inflight-{}-{w}.json", ctx.replay_dir, std::process::id()));
                    if let Some(p) = &inflight {
                        let _ = std::fs::create_dir_all(&ctx.replay_dir);
                        let body = json!({ "property": ctx.prop, "engine": eng.name(), "run_seed": seed, "root_seed": ctx.root_seed,
                            "violation": { "clause": "no-panic", "site": "process-abort", "signature": "no-panic:process-abort", "detail": "the process was brought down while this case was running", "at": 0 },
                            "case": case });
                        let _ = std::fs::write(p, serde_json::to_vec(&body).unwrap_or_default());
                    }
                    let out = exec_guarded(eng, &case, seed);
                    if let Some(p) = &inflight {
                        let _ = std::fs::remove_file(p);
                    }
                    slots[w].0.store(0, Ordering::Relaxed);
                    evals += 1;
                    stats.merge(&out.stats);
                    sim += out.sim_seconds;
                    if out.nontrivial {
                        hashes.insert(out.trace_hash);
                    }
                    if i < 3 {
                        samples.push(json!({
                            "engine": eng.name(), "run": i, "seed": seed, "case": eng.sample(&case),
                            "outcome": { "violations": out.violations.iter().map(|v| v.signature()).collect::<Vec<_>>(),
                                          "nontrivial": out.nontrivial, "trace_hash": format!("{:016x}", out.trace_hash),
                                          "stats": out.stats.0 }
                        }));
                    }
                    if let Some(e) = out.harness_error {
                        herrs.lock().unwrap().push(format!("{label} seed={seed}: {e}"));
                        stop.store(true, Ordering::Relaxed);
                        break;
                    }
                    if !out.violations.is_empty() {
                        let mut h = hits.lock().unwrap();
                        for v in out.violations {
                            let sig = v.signature();
                            if !h.iter().any(|x| x.v.signature() == sig) && h.len() < 24 {
                                let timing = eng.timing_clauses().iter().any(|c| *c == v.clause);
                                if ctx.known.lookup(&ctx.prop, &sig).is_none() && std::env::var("VERIF_KEEP_GOING").is_err() && !timing {
                                    // an unlisted violation fails the check; no need to finish the batch
                                    stop.store(true, Ordering::Relaxed);
                                }
                                h.push(Hit { seed, case: case.clone(), v });
                            }
                        }
                    }
                }
                let mut m = merged.lock().unwrap();
                m.0.merge(&stats);
                m.1.extend(hashes);
                m.2 += sim;
                m.3 += evals;
                m.4.extend(samples);
            }));
        }
        for h in handles {
            let _ = h.join();
        }
        done.store(true, Ordering::Relaxed);
    });

    let (stats, hashes, sim, evals, mut samples) = merged.into_inner().unwrap();
    samples.sort_by_key(|s| s["run"].as_u64());
    let mut hits = hits.into_inner().unwrap();
    hits.sort_by(|a, b| a.v.signature().cmp(&b.v.signature()).then(a.seed.cmp(&b.seed)));
    for e in herrs.into_inner().unwrap() {
        report.harness_errors.push(e);
    }
    for h in hits {
        let sig = h.v.signature();
        let budget = std::env::var("VERIF_MINIMISE_BUDGET").ok().and_then(|s| s.parse().ok()).unwrap_or(300);
        let (min_case, used) = minimise(eng, h.case.clone(), h.seed, &sig, budget);
        // the minimised case must reproduce, twice, or the harness is not deterministic
        let mut final_v = None;
        let mut ok = true;
        for _ in 0..2 {
            let out = exec_guarded(eng, &min_case, h.seed);
            match out.violations.into_iter().find(|v| v.signature() == sig) {
                Some(v) => final_v = Some(v),
                None => ok = false,
            }
        }
        if !ok && h.v.clause == "no-panic" {
            // A panic in the code under test can poison process-wide state (a global registry's mutex), after which
            // later executions in this process panic elsewhere: the in-process re-execution is then not faithful. The
            // panic itself was observed; it is reported with the case as drawn (replay runs in a fresh process).
            let path = write_replay(ctx, eng, h.seed, &h.case, None, &h.v, 0);
            let known = ctx.known.lookup(&ctx.prop, &sig).map(|k| k.what_fails.clone());
            report.found.push(Found { engine: eng.name().to_string(), signature: sig, detail: format!("{} [not re-executed in-process: a panic may poison shared state]", h.v.detail), seed: h.seed, replay: path, known });
            continue;
        }
        if !ok && eng.timing_clauses().iter().any(|c| *c == h.v.clause) {
            report.stats.bump("probe.timing_hit_unconfirmed");
            continue;
        }
        if !ok {
            report.harness_errors.push(format!(
                "{label} seed={}: violation {sig} did not reproduce on re-execution (non-deterministic harness)",
                h.seed
            ));
            continue;
        }
        let v = final_v.unwrap();
        let path = write_replay(ctx, eng, h.seed, &min_case, Some(&h.case), &v, used);
        let known = ctx.known.lookup(&ctx.prop, &sig).map(|k| k.what_fails.clone());
        report.found.push(Found {
            engine: eng.name().to_string(),
            signature: sig,
            detail: v.detail.clone(),
            seed: h.seed,
            replay: path,
            known,
        });
    }
    let wall = t0.elapsed().as_secs_f64();
    report.parts.push(json!({
        "engine": eng.name(), "runs": evals, "wall_s": wall,
        "runs_per_hour": if wall > 0.0 { (evals as f64 / wall * 3600.0) as u64 } else { 0 },
        "simulated_seconds": sim, "distinct_nontrivial": hashes.len(),
    }));
    report.evaluations += evals;
    // hashes of different engines live in different spaces: salt with the engine name
    let salt = crate::rng::hash_str(eng.name());
    report.distinct.extend(hashes.into_iter().map(|h| h ^ salt));
    report.stats.merge(&stats);
    report.sim_seconds += sim;
    report.samples.extend(samples);
    for c in eng.components_real() {
        if !report.real.iter().any(|x| x == c) {
            report.real.push(c.to_string());
        }
    }
    for c in eng.components_stub() {
        if !report.stub.iter().any(|x| x == c) {
            report.stub.push(c.to_string());
        }
    }
}

/// Re-run the case stored in a replay file; returns (reproduced, outcome signatures)
pub fn replay_case<E: Engine>(eng: &E, file: &Value) -> Result<(bool, Vec<String>), String> {
    let case: E::Case = serde_json::from_value(file["case"].clone()).map_err(|e| format!("case does not parse: {e}"))?;
    let seed = file["run_seed"].as_u64().unwrap_or(0);
    let want = file["violation"]["signature"].as_str().unwrap_or("").to_string();
    let out = execute_case(eng, &case, seed);
    if let Some(e) = out.harness_error {
        return Err(e);
    }
    let sigs: Vec<String> = out.violations.iter().map(|v| v.signature()).collect();
    for v in &out.violations {
        println!("  replayed: {} — {} (at {})", v.signature(), v.detail, v.at);
    }
    Ok((sigs.iter().any(|s| *s == want), sigs))
}

/// Determinism self-test (DESIGN §8): execute `n` seeded cases twice each, on the worker pool, and compare
/// trace hash, verdict and counters. Returns the seeds whose two executions differ.
pub fn determinism_check<E: Engine>(ctx: &Ctx, eng: &E, n: u64) -> Vec<(u64, String)> {
    panics::install();
    let next = AtomicU64::new(0);
    let label = format!("{}/{}", ctx.prop, eng.name());
    let bad: Mutex<Vec<(u64, String)>> = Mutex::new(Vec::new());
    std::thread::scope(|s| {
        for _ in 0..ctx.threads {
            s.spawn(|| {
                loop {
                    let i = next.fetch_add(1, Ordering::Relaxed);
                    if i >= n {
                        break;
                    }
                    let seed = mix(ctx.root_seed, &label, i);
                    let case = eng.generate(i, seed, ctx.tier);
                    let a = exec_guarded(eng, &case, seed);
                    let b = exec_guarded(eng, &case, seed);
                    let sa: Vec<String> = a.violations.iter().map(|v| v.signature()).collect();
                    let sb: Vec<String> = b.violations.iter().map(|v| v.signature()).collect();
                    // counters over text that embeds wall-clock time stamps (the shipped logger's output) are informational
                    let strip = |s: &Stats| -> BTreeMap<&'static str, u64> { s.0.iter().filter(|(k, _)| !k.starts_with("legacy_")).map(|(k, v)| (*k, *v)).collect() };
                    if a.trace_hash != b.trace_hash || sa != sb || strip(&a.stats) != strip(&b.stats) {
                        let diff: Vec<String> = a.stats.0.iter().filter(|(k, v)| b.stats.0.get(*k) != Some(v)).map(|(k, v)| format!("{k}: {v} vs {:?}", b.stats.0.get(k))).chain(b.stats.0.iter().filter(|(k, _)| !a.stats.0.contains_key(*k)).map(|(k, v)| format!("{k}: None vs {v}"))).take(6).collect();
                        bad.lock().unwrap().push((seed, format!("hash {:016x} vs {:016x}; violations {sa:?} vs {sb:?}; counters {diff:?}", a.trace_hash, b.trace_hash)));
                    }
                }
            });
        }
    });
    bad.into_inner().unwrap()
}

/// Print `seed hash verdict` for the first `n` runs (cross-process determinism: diff the outputs of two processes).
pub fn print_hashes<E: Engine>(ctx: &Ctx, eng: &E, n: u64) {
    panics::install();
    let next = AtomicU64::new(0);
    let label = format!("{}/{}", ctx.prop, eng.name());
    let rows: Mutex<Vec<(u64, String)>> = Mutex::new(Vec::new());
    std::thread::scope(|s| {
        for _ in 0..ctx.threads {
            s.spawn(|| {
                loop {
                    let i = next.fetch_add(1, Ordering::Relaxed);
                    if i >= n {
                        break;
                    }
                    let seed = mix(ctx.root_seed, &label, i);
                    let case = eng.generate(i, seed, ctx.tier);
                    let a = exec_guarded(eng, &case, seed);
                    let sa: Vec<String> = a.violations.iter().map(|v| v.signature()).collect();
                    rows.lock().unwrap().push((i, format!("{i} {seed} {:016x} {sa:?} {:?}", a.trace_hash, a.stats.0)));
                }
            });
        }
    });
    let mut rows = rows.into_inner().unwrap();
    rows.sort();
    for (_, r) in rows {
        println!("HASH {} {r}", eng.name());
    }
}
