//! Counting wakers and manual polling for the step-scheduled engines.
use std::{
    future::Future,
    pin::Pin,
    sync::{
        Arc,
        atomic::{AtomicU64, Ordering},
    },
    task::{Context, Poll, Wake, Waker},
};

#[derive(Default)]
pub struct CountWake {
    pub count: AtomicU64,
}

impl Wake for CountWake {
    fn wake(self: Arc<Self>) {
        self.count.fetch_add(1, Ordering::SeqCst);
    }
    fn wake_by_ref(self: &Arc<Self>) {
        self.count.fetch_add(1, Ordering::SeqCst);
    }
}

/// A task-like handle: a waker identity plus the number of times it was woken.
#[derive(Clone)]
pub struct Task {
    inner: Arc<CountWake>,
    waker: Waker,
    seen: u64,
}

impl Default for Task {
    fn default() -> Self {
        Self::new()
    }
}

impl Task {
    pub fn new() -> Self {
        let inner = Arc::new(CountWake::default());
        let waker = Waker::from(inner.clone());
        Task { inner, waker, seen: 0 }
    }
    pub fn waker(&self) -> &Waker {
        &self.waker
    }
    pub fn wakes(&self) -> u64 {
        self.inner.count.load(Ordering::SeqCst)
    }
    /// true iff woken since the last call to `take_woken` (or since creation)
    pub fn take_woken(&mut self) -> bool {
        let n = self.wakes();
        let w = n != self.seen;
        self.seen = n;
        w
    }
    pub fn is_woken(&self) -> bool {
        self.wakes() != self.seen
    }
    pub fn poll<F: Future + Unpin>(&self, f: &mut F) -> Poll<F::Output> {
        let mut cx = Context::from_waker(&self.waker);
        Pin::new(f).poll(&mut cx)
    }
    pub fn poll_pin<F: Future + ?Sized>(&self, f: Pin<&mut F>) -> Poll<F::Output> {
        let mut cx = Context::from_waker(&self.waker);
        f.poll(&mut cx)
    }
    pub fn with_cx<R>(&self, f: impl FnOnce(&mut Context<'_>) -> R) -> R {
        let mut cx = Context::from_waker(&self.waker);
        f(&mut cx)
    }
}
