//! Stand-alone runner for one engine (used by the `examples/run.rs` of the engine crates while they are
//! developed; the registered checks go through the `verif` binary).
use std::time::Instant;

use crate::{
    Ctx, Engine, Report, Tier,
    engine::run_part,
    known::Known,
};

/// Run `runs` seeded cases of `eng` under property name `prop`; prints parts, violations (with replay files
/// under `/var/tmp/selftest-replays`) and the merged counters; returns the number of distinct violations.
pub fn run<E: Engine>(eng: &E, prop: &str, runs: u64, tier: Tier) -> usize {
    let ctx = Ctx {
        prop: prop.to_string(),
        tier,
        root_seed: std::env::var("VERIF_SEED").ok().and_then(|s| s.parse().ok()).unwrap_or(1),
        threads: std::env::var("VERIF_THREADS").ok().and_then(|s| s.parse().ok()).unwrap_or(8),
        known: Known::default(),
        replay_dir: "/var/tmp/selftest-replays".to_string(),
        started: Instant::now(),
    };
    let mut report = Report::default();
    run_part(&ctx, eng, runs, &mut report);
    for p in &report.parts {
        println!("part {p}");
    }
    println!("counters {:?}", report.stats.0);
    for e in &report.harness_errors {
        println!("HARNESS ERROR {e}");
    }
    for f in &report.found {
        println!("VIOLATION {} seed={} replay={}\n   {}", f.signature, f.seed, f.replay, f.detail);
    }
    println!("evaluations={} distinct_nontrivial={} violations={}", report.evaluations, report.distinct.len(), report.found.len());
    report.found.len() + report.harness_errors.len()
}
