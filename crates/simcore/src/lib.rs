//! simcore — common machinery of the deterministic simulators (DESIGN §3).
pub mod alloc;
pub mod engine;
pub mod entropy;
pub mod evidence;
pub mod known;
pub mod panics;
pub mod rng;
pub mod selftest;
pub mod wake;

pub use engine::{Ctx, Engine, Outcome, Report, Stats, Tier, Violation, run_part};
pub use rng::{Rng, TraceHash, mix, prf, prf_vec};
