//! /verif/known_findings.json — committed, never written at run time (DESIGN §3.5).
use serde::{Deserialize, Serialize};

#[derive(Clone, Debug, Serialize, Deserialize)]
pub struct Finding {
    pub property: String,
    /// clause-id[:site]; a trailing `*` matches any suffix
    pub signature: String,
    /// "known" suppresses VIOLATION for exactly this signature; "fixed" suppresses nothing
    pub status: String,
    #[serde(default)]
    pub commit: Option<String>,
    pub what_fails: String,
}

#[derive(Clone, Debug, Default)]
pub struct Known {
    pub items: Vec<Finding>,
}

impl Known {
    pub fn load(path: &str) -> Result<Self, String> {
        match std::fs::read_to_string(path) {
            Ok(s) => {
                let items: Vec<Finding> = serde_json::from_str(&s).map_err(|e| format!("{path}: {e}"))?;
                Ok(Known { items })
            }
            Err(e) if e.kind() == std::io::ErrorKind::NotFound => Ok(Known::default()),
            Err(e) => Err(format!("{path}: {e}")),
        }
    }
    pub fn lookup(&self, property: &str, signature: &str) -> Option<&Finding> {
        self.items.iter().find(|f| {
            f.status == "known"
                && f.property == property
                && (f.signature == signature
                    || f.signature.strip_suffix('*').is_some_and(|p| signature.starts_with(p)))
        })
    }
}
