//! bufsim — RecvBuf (C08) and SendBuf (C09) against byte-level reference models.
pub mod recv;
pub mod send;
