//! C09: the send buffer keeps every unacknowledged byte and offers it for resending.
//!
//! Histories of write / extend / pick_up / ack / loss over previously picked ranges (and unions and
//! sub-ranges of them: frames overlap after retransmission), repeated acks, loss after ack, ack after
//! loss, `resend_flighting`. Reference model: one colour per byte.
use bytes::Bytes;
use qrecovery::send::SendBuf;
use serde::{Deserialize, Serialize};
use simcore::{Engine, Outcome, Rng, Tier, TraceHash, prf};

#[derive(Clone, Debug, Serialize, Deserialize, PartialEq)]
pub enum Op {
    Write { len: u64 },
    Extend { by: u64 },
    /// pick with a predicate that refuses offsets >= `refuse_from` (if any), allows `allowance` bytes,
    /// and a connection flow limit
    Pick { allowance: u64, flow: u64, refuse_from: Option<u64> },
    /// ack a range: `sel` selects how the range is derived from what was picked so far
    Ack { sel: RangeSel },
    Loss { sel: RangeSel },
    ResendFlighting,
}

#[derive(Clone, Debug, Serialize, Deserialize, PartialEq)]
pub enum RangeSel {
    /// the i-th picked range (mod count)
    Picked(u64),
    /// sub-range of the i-th picked range, fractions in 1/256
    Sub(u64, u8, u8),
    /// span from the start of pick i to the end of pick j
    Span(u64, u64),
    /// arbitrary range inside [0, sent), fractions in 1/65536
    Any(u16, u16),
}

#[derive(Clone, Debug, Serialize, Deserialize)]
pub struct Case {
    pub content_seed: u64,
    pub capacity: u64,
    pub ops: Vec<Op>,
}

pub struct SendBufSim;

const P: u8 = 0;
const F: u8 = 1;
const L: u8 = 2;
const R: u8 = 3;

fn resolve(sel: &RangeSel, picks: &[(u64, u64)], sent: u64) -> Option<(u64, u64)> {
    match sel {
        RangeSel::Picked(i) => picks.get((*i as usize) % picks.len().max(1)).copied(),
        RangeSel::Sub(i, a, b) => {
            let (s, e) = *picks.get((*i as usize) % picks.len().max(1))?;
            let l = e - s;
            let (a, b) = (*a.min(b) as u64, *a.max(b) as u64);
            let (x, y) = (s + l * a / 256, s + (l * b).div_ceil(256));
            Some((x, y.min(e)))
        }
        RangeSel::Span(i, j) => {
            let n = picks.len().max(1);
            let (s1, e1) = *picks.get((*i as usize) % n)?;
            let (s2, e2) = *picks.get((*j as usize) % n)?;
            Some((s1.min(s2), e1.max(e2)))
        }
        RangeSel::Any(a, b) => {
            if sent == 0 {
                return None;
            }
            let (a, b) = (*a.min(b) as u64, *a.max(b) as u64);
            Some((sent * a / 65536, (sent * b).div_ceil(65536).min(sent)))
        }
    }
    .filter(|(s, e)| s < e)
}

impl Engine for SendBufSim {
    type Case = Case;
    fn name(&self) -> &'static str {
        "bufsim-send"
    }
    fn components_real(&self) -> Vec<&'static str> {
        vec!["qrecovery::send::SendBuf (BufMap colour map, data queue)"]
    }
    fn components_stub(&self) -> Vec<&'static str> {
        vec!["packetiser (pick sizes / predicate)", "network feedback (ack / loss reports)", "application writer"]
    }

    fn generate(&self, _index: u64, seed: u64, _tier: Tier) -> Case {
        let mut r = Rng::derive(seed, "workload");
        let capacity = *r.pick(&[0u64, 1, 10, 100, 1200, 4096, 65536, 1 << 20]);
        let typical = *r.pick(&[1u64, 7, 100, 1200, 5000]);
        let long = r.one_in(4);
        let nops = r.range(1, if long { 150 } else { 50 });
        let mut ops = Vec::new();
        // swarm: per-run weights
        let w_write = r.range(1, 6);
        let w_pick = r.range(2, 10);
        let w_ack = r.range(0, 6);
        let w_loss = r.range(0, 6);
        let w_ext = r.range(0, 3);
        let w_resend = if r.one_in(4) { 1 } else { 0 };
        let total = w_write + w_pick + w_ack + w_loss + w_ext + w_resend;
        let sel = |r: &mut Rng| match r.below(10) {
            0..=4 => RangeSel::Picked(r.below(64)),
            5..=6 => RangeSel::Sub(r.below(64), r.below(257).min(255) as u8, r.below(257).min(255) as u8),
            7 => RangeSel::Span(r.below(64), r.below(64)),
            _ => RangeSel::Any(r.below(65536) as u16, r.below(65536) as u16),
        };
        for _ in 0..nops {
            let mut x = r.below(total);
            let op = if x < w_write {
                Op::Write { len: r.range(0, 2 * typical) }
            } else if {
                x -= w_write;
                x < w_pick
            } {
                Op::Pick {
                    allowance: match r.below(6) {
                        0 => 1,
                        1 => r.range(1, 16),
                        _ => r.range(1, 2 * typical),
                    },
                    flow: match r.below(6) {
                        0 => 0,
                        1 => r.range(1, 16),
                        2 => u64::MAX >> 8,
                        _ => r.range(1, 4 * typical),
                    },
                    refuse_from: if r.one_in(6) { Some(r.below(8 * typical)) } else { None },
                }
            } else if {
                x -= w_pick;
                x < w_ack
            } {
                Op::Ack { sel: sel(&mut r) }
            } else if {
                x -= w_ack;
                x < w_loss
            } {
                Op::Loss { sel: sel(&mut r) }
            } else if {
                x -= w_loss;
                x < w_ext
            } {
                Op::Extend { by: r.range(0, 4 * typical) }
            } else {
                Op::ResendFlighting
            };
            ops.push(op);
        }
        Case { content_seed: seed, capacity, ops }
    }

    fn execute(&self, case: &Case) -> Outcome {
        let mut out = Outcome::default();
        let mut th = TraceHash::default();
        let mut buf = SendBuf::with_capacity(case.capacity);
        let mut max_data = case.capacity;
        let mut written: Vec<u8> = Vec::new();
        let mut colour: Vec<u8> = Vec::new(); // per written byte (also beyond the window: P)
        let mut fresh_count: Vec<u8> = Vec::new();
        let mut picks: Vec<(u64, u64)> = Vec::new();
        let mut sent = 0u64;
        let mut retrans = 0u64;
        let mut nsteps = 0u64;

        let check_pick = |out: &mut Outcome,
                          step: u64,
                          res: Result<(std::ops::Range<u64>, bool, Vec<Bytes>), qbase::net::tx::Signals>,
                          allowance: u64,
                          flow: u64,
                          refuse_from: Option<u64>,
                          colour: &mut Vec<u8>,
                          fresh_count: &mut Vec<u8>,
                          written: &Vec<u8>,
                          max_data: u64,
                          picks: &mut Vec<(u64, u64)>,
                          sent: &mut u64,
                          retrans: &mut u64|
         -> bool {
            let window = (written.len() as u64).min(max_data);
            // first eligible byte per the statement: lost anywhere in the window, or pending if flow allows
            let first_lost = colour[..window as usize].iter().position(|c| *c == L).map(|p| p as u64);
            let first_pending = colour[..window as usize].iter().position(|c| *c == P).map(|p| p as u64);
            match res {
                Ok((range, is_fresh, data)) => {
                    if range.start >= range.end {
                        out.violate("offer-window", "empty-range", format!("pick_up returned empty range {range:?}"), step);
                        return false;
                    }
                    if range.end > window {
                        out.violate("offer-window", "beyond-window", format!("picked {range:?} beyond window {window} (written {}, max_data {max_data})", written.len()), step);
                        return false;
                    }
                    let cols = &colour[range.start as usize..range.end as usize];
                    let want = if is_fresh { P } else { L };
                    if let Some(bad) = cols.iter().position(|c| *c != want) {
                        let c = cols[bad];
                        let clause = if c == R { "acked-reoffered" } else if is_fresh { "fresh-once" } else { "offer-colour" };
                        out.violate(clause, if is_fresh { "fresh" } else { "retransmit" }, format!("picked {range:?} is_fresh={is_fresh} but byte {} has colour {} (0=P,1=F,2=L,3=R)", range.start + bad as u64, c), step);
                        return false;
                    }
                    let len = range.end - range.start;
                    if len > allowance {
                        out.violate("offer-window", "allowance", format!("picked {len} bytes, predicate allowed {allowance}"), step);
                    }
                    if is_fresh && len > flow {
                        out.violate("offer-window", "flow-limit", format!("picked {len} fresh bytes, flow limit {flow}"), step);
                    }
                    if refuse_from.is_some_and(|rf| range.start >= rf) {
                        out.violate("offer-window", "predicate-refused", format!("picked {range:?} although predicate refuses offsets >= {refuse_from:?}"), step);
                    }
                    let flat: Vec<u8> = data.iter().flat_map(|b| b.iter().copied()).collect();
                    if flat[..] != written[range.start as usize..range.end as usize] {
                        out.violate("data-value", "", format!("data returned for {range:?} ({} bytes) differs from what was written", flat.len()), step);
                        return false;
                    }
                    for p in range.clone() {
                        colour[p as usize] = F;
                        if is_fresh {
                            fresh_count[p as usize] += 1;
                            if fresh_count[p as usize] > 1 {
                                out.violate("fresh-once", "twice", format!("byte {p} counted as new data twice"), step);
                                return false;
                            }
                        }
                    }
                    if is_fresh {
                        *sent = (*sent).max(range.end);
                    } else {
                        *retrans += 1;
                    }
                    picks.push((range.start, range.end));
                    true
                }
                Err(_sig) => {
                    // refusing is only legitimate when nothing is eligible or the predicate refused the
                    // first eligible offset
                    let cand = match (first_lost, first_pending) {
                        (Some(l), Some(p)) if flow > 0 => Some(l.min(p)),
                        (Some(l), _) => Some(l),
                        (None, Some(p)) if flow > 0 => Some(p),
                        _ => None,
                    };
                    if let Some(c) = cand {
                        if refuse_from.is_none_or(|rf| c < rf) && allowance > 0 {
                            out.violate("lost-reoffered", if Some(c) == first_lost { "lost-not-offered" } else { "pending-not-offered" }, format!("pick_up refused although byte {c} is eligible (first lost {first_lost:?}, first pending {first_pending:?}, flow {flow}, window {window})"), step);
                        }
                    }
                    false
                }
            }
        };

        for (step, op) in case.ops.iter().enumerate() {
            let step = step as u64;
            nsteps += 1;
            match op {
                Op::Write { len } => {
                    let from = written.len() as u64;
                    let data: Vec<u8> = (0..*len).map(|k| prf(case.content_seed, 1, from + k)).collect();
                    written.extend_from_slice(&data);
                    colour.resize(written.len(), P);
                    fresh_count.resize(written.len(), 0);
                    buf.write(Bytes::from(data));
                    th.add(1 << 40 | len);
                }
                Op::Extend { by } => {
                    max_data += by;
                    buf.extend(max_data);
                    th.add(2 << 40 | by);
                }
                Op::Pick { allowance, flow, refuse_from } => {
                    let rf = *refuse_from;
                    let al = *allowance as usize;
                    let res = buf.pick_up(|off| if rf.is_some_and(|x| off >= x) { None } else { Some(al) }, (*flow).min(usize::MAX as u64) as usize);
                    let ok = check_pick(&mut out, step, res, *allowance, *flow, rf, &mut colour, &mut fresh_count, &written, max_data, &mut picks, &mut sent, &mut retrans);
                    th.add(3 << 40 | ok as u64);
                }
                Op::Ack { sel } => {
                    if let Some((s, e)) = resolve(sel, &picks, sent) {
                        let mut re_ack = false;
                        let mut after_loss = false;
                        for p in s..e {
                            re_ack |= colour[p as usize] == R;
                            after_loss |= colour[p as usize] == L;
                            colour[p as usize] = R;
                        }
                        if re_ack {
                            out.stats.bump("fault.repeated_ack");
                        }
                        if after_loss {
                            out.stats.bump("fault.ack_after_loss");
                        }
                        buf.on_data_acked(&(s..e));
                        th.add(4 << 40 | s << 20 | e);
                    }
                }
                Op::Loss { sel } => {
                    if let Some((s, e)) = resolve(sel, &picks, sent) {
                        let mut after_ack = false;
                        for p in s..e {
                            after_ack |= colour[p as usize] == R;
                            if colour[p as usize] == F {
                                colour[p as usize] = L;
                            }
                        }
                        if after_ack {
                            out.stats.bump("fault.loss_after_ack");
                        }
                        out.stats.bump("fault.loss_report");
                        buf.may_loss_data(&(s..e));
                        th.add(5 << 40 | s << 20 | e);
                    }
                }
                Op::ResendFlighting => {
                    for c in colour.iter_mut() {
                        if *c == F {
                            *c = L;
                        }
                    }
                    buf.resend_flighting();
                    out.stats.bump("fault.resend_flighting");
                    th.add(6 << 40);
                }
            }
            self.cross_check(&mut out, step, &buf, &colour, &written, max_data, sent);
            if out.failed() {
                break;
            }
        }
        // bounded liveness: an all-accepting packetiser drains every lost and every in-window pending byte
        if !out.failed() {
            let window = (written.len() as u64).min(max_data) as usize;
            let mut guard = 0;
            loop {
                let res = buf.pick_up(|_| Some(1 << 20), usize::MAX >> 8);
                let step = case.ops.len() as u64 + guard;
                let ok = check_pick(&mut out, step, res, 1 << 20, (usize::MAX >> 8) as u64, None, &mut colour, &mut fresh_count, &written, max_data, &mut picks, &mut sent, &mut retrans);
                self.cross_check(&mut out, step, &buf, &colour, &written, max_data, sent);
                guard += 1;
                if !ok || out.failed() || guard > 100_000 {
                    break;
                }
            }
            if !out.failed() {
                if let Some(p) = colour[..window].iter().position(|c| *c == L || *c == P) {
                    out.violate("lost-reoffered", "drain", format!("after draining, byte {p} is still {} (0=P,2=L)", colour[p]), case.ops.len() as u64);
                }
            }
            // then everything acked => completion
            if !out.failed() && window == written.len() && window > 0 {
                buf.on_data_acked(&(0..window as u64));
                for c in colour.iter_mut() {
                    *c = R;
                }
                self.cross_check(&mut out, case.ops.len() as u64 + guard, &buf, &colour, &written, max_data, sent);
            }
        }
        out.trace_hash = th.get();
        out.nontrivial = retrans > 0 && nsteps > 2;
        if retrans > 0 {
            out.stats.add("probe.retransmission_picked", retrans);
        }
        out
    }

    fn shrink(&self, case: &Case) -> Vec<Case> {
        let mut v = Vec::new();
        let n = case.ops.len();
        if n > 1 {
            v.push(Case { ops: case.ops[..n / 2].to_vec(), ..case.clone() });
            v.push(Case { ops: case.ops[..n - 1].to_vec(), ..case.clone() });
        }
        for i in 0..n.min(100) {
            let mut ops = case.ops.clone();
            ops.remove(i);
            v.push(Case { ops, ..case.clone() });
        }
        for i in 0..n.min(100) {
            let mut ops = case.ops.clone();
            let changed = match &mut ops[i] {
                Op::Write { len } if *len > 1 => {
                    *len /= 2;
                    true
                }
                Op::Pick { allowance, .. } if *allowance > 1 => {
                    *allowance /= 2;
                    true
                }
                Op::Ack { sel } | Op::Loss { sel } if !matches!(sel, RangeSel::Picked(_)) => {
                    *sel = RangeSel::Picked(0);
                    true
                }
                _ => false,
            };
            if changed {
                v.push(Case { ops, ..case.clone() });
            }
        }
        v
    }
}

impl SendBufSim {
    #[allow(clippy::too_many_arguments)]
    fn cross_check(&self, out: &mut Outcome, step: u64, buf: &SendBuf, colour: &[u8], written: &[u8], max_data: u64, sent: u64) {
        if buf.written() != written.len() as u64 {
            out.violate("counters", "written", format!("written() {} model {}", buf.written(), written.len()), step);
        }
        if buf.sent() != sent {
            out.violate("counters", "sent", format!("sent() {} model {}", buf.sent(), sent), step);
        }
        let all = colour.iter().all(|c| *c == R);
        if buf.is_all_rcvd() != all {
            out.violate("all-rcvd", "", format!("is_all_rcvd() {} but model says {} ({} bytes written)", buf.is_all_rcvd(), all, written.len()), step);
        }
        if buf.max_data() != max_data {
            out.violate("counters", "max_data", format!("max_data() {} model {}", buf.max_data(), max_data), step);
        }
        // H2: compare the colour map itself so divergence is reported at the step it occurs
        let (map, size, first_buffered) = buf.verif_colours();
        let window = (written.len() as u64).min(max_data);
        if size != window && !(written.is_empty() && size == 0) {
            out.violate("counters", "map-size", format!("colour map ends at {size}, model window {window}"), step);
            return;
        }
        // bytes before the first boundary are implicitly received
        let first = map.first().map(|m| m.0).unwrap_or(size);
        let mut ok = colour[..first.min(window) as usize].iter().all(|c| *c == R);
        let mut bad_at = 0;
        for (i, (off, c)) in map.iter().enumerate() {
            let end = map.get(i + 1).map(|m| m.0).unwrap_or(size);
            if *off > end || end > window {
                ok = false;
                bad_at = *off;
                break;
            }
            if let Some(p) = colour[*off as usize..end as usize].iter().position(|x| x != c) {
                ok = false;
                bad_at = off + p as u64;
                break;
            }
        }
        if !ok {
            out.violate("offer-colour", "map-diverged", format!("colour map {map:?} (size {size}) diverges from the per-byte model at byte {bad_at}"), step);
        }
        // everything not yet acknowledged must still be buffered
        if let Some(p) = colour.iter().position(|c| *c != R) {
            if first_buffered > p as u64 {
                out.violate("data-value", "dropped-unacked", format!("buffer starts at {first_buffered} but byte {p} is unacknowledged"), step);
            }
        }
    }
}
