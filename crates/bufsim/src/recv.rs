//! C08: the receive buffer reassembles any fragment sequence into the original bytes.
//!
//! The "network" here is the fragment history: every fragment is a slice of one underlying byte
//! sequence; loss/reordering/duplication/re-splitting of STREAM frames shows up as the order, overlap
//! and multiplicity of `(offset, len)` pairs, interleaved with application reads of any size.
use bytes::{Bytes, BytesMut};
use qrecovery::recv::RecvBuf;
use serde::{Deserialize, Serialize};
use simcore::{Engine, Outcome, Rng, Tier, TraceHash, prf};

#[derive(Clone, Debug, Serialize, Deserialize, PartialEq)]
pub enum Op {
    /// fragment [off, off+len) of the content arrives
    Recv { off: u64, len: u64 },
    /// application reads into a buffer of `cap` bytes
    Read { cap: u64 },
    /// application takes the next contiguous segment
    Next,
}

#[derive(Clone, Debug, Serialize, Deserialize)]
pub struct Case {
    pub content_seed: u64,
    pub len: u64,
    pub ops: Vec<Op>,
}

pub struct RecvBufSim {
    /// enumerate the small exhaustive core instead of sampling
    pub exhaustive: bool,
}

const EX_L: u64 = 5;

fn ex_fragments() -> Vec<(u64, u64)> {
    let mut v = Vec::new();
    for off in 0..=EX_L {
        for len in 0..=(EX_L - off) {
            v.push((off, len));
        }
    }
    v
}

const EX_READS: u64 = 5; // none, read 1, read 2, read all, next

impl RecvBufSim {
    /// number of cases of the exhaustive core for `k` fragments
    pub fn exhaustive_size(k: u32) -> u64 {
        let f = ex_fragments().len() as u64;
        (f * EX_READS).pow(k)
    }
    fn decode_exhaustive(mut i: u64, k: u32) -> Case {
        let frags = ex_fragments();
        let f = frags.len() as u64;
        let mut ops = Vec::new();
        for _ in 0..k {
            let (off, len) = frags[(i % f) as usize];
            i /= f;
            let r = i % EX_READS;
            i /= EX_READS;
            ops.push(Op::Recv { off, len });
            match r {
                0 => {}
                1 => ops.push(Op::Read { cap: 1 }),
                2 => ops.push(Op::Read { cap: 2 }),
                3 => ops.push(Op::Read { cap: EX_L + 1 }),
                _ => ops.push(Op::Next),
            }
        }
        Case { content_seed: 7, len: EX_L, ops }
    }
}

struct Model {
    covered: Vec<bool>,
    nread: u64,
    max_end: u64,
}

impl Model {
    fn available(&self) -> u64 {
        let mut n = 0;
        while self.nread + n < self.covered.len() as u64 && self.covered[(self.nread + n) as usize] {
            n += 1;
        }
        n
    }
}

impl Engine for RecvBufSim {
    type Case = Case;
    fn name(&self) -> &'static str {
        if self.exhaustive { "bufsim-recv-exhaustive" } else { "bufsim-recv" }
    }
    fn components_real(&self) -> Vec<&'static str> {
        vec!["qrecovery::recv::RecvBuf"]
    }
    fn components_stub(&self) -> Vec<&'static str> {
        vec!["network (fragment history generator)", "application reader (op list)"]
    }

    fn generate(&self, index: u64, seed: u64, tier: Tier) -> Case {
        if self.exhaustive {
            let k = if tier == Tier::Quick { 3 } else { 4 };
            return Self::decode_exhaustive(index, k);
        }
        let mut r = Rng::derive(seed, "workload");
        let len = match r.below(10) {
            0..=3 => r.range(1, 48),
            4..=6 => r.range(1, 1500),
            7..=8 => r.range(1, 9000),
            _ => r.range(1, 65536),
        };
        let long = r.one_in(4);
        let nops = r.range(1, if long { 120 } else { 40 });
        let mut ops = Vec::new();
        let mut frags: Vec<(u64, u64)> = Vec::new();
        let mut frontier = 0u64; // next byte the "sender" has not sent yet
        let mut read_est = 0u64;
        let typical = match r.below(4) {
            0 => 8,
            1 => 120,
            2 => 1200,
            _ => (len / 4).max(1),
        };
        for _ in 0..nops {
            let op = match r.below(100) {
                // fresh data at the frontier (possibly leaving a gap first = reordering/loss)
                0..=34 => {
                    let skip = if r.one_in(3) { r.below(typical + 1) } else { 0 };
                    let off = (frontier + skip).min(len);
                    let l = r.range(0, typical).min(len - off);
                    frontier = (off + l).max(frontier);
                    Op::Recv { off, len: l }
                }
                // exact duplicate / sub-slice / shifted copy of something seen
                35..=54 if !frags.is_empty() => {
                    let (o, l) = *r.pick(&frags);
                    match r.below(4) {
                        0 => Op::Recv { off: o, len: l },
                        1 => {
                            let a = r.below(l + 1);
                            let b = r.range(a, l);
                            Op::Recv { off: o + a, len: b - a }
                        }
                        2 => {
                            // super-slice: extend both ways
                            let a = o.saturating_sub(r.below(typical + 1));
                            let b = (o + l + r.below(typical + 1)).min(len);
                            Op::Recv { off: a, len: b - a }
                        }
                        _ => {
                            let a = (o + r.below(l + 1)).min(len);
                            let b = (a + r.below(typical + 1)).min(len);
                            Op::Recv { off: a, len: b - a }
                        }
                    }
                }
                // retransmission filling an arbitrary range (re-split at different boundaries)
                55..=69 => {
                    let a = r.below(frontier.max(1).min(len) + 1).min(len);
                    let b = (a + r.below(2 * typical + 1)).min(len);
                    Op::Recv { off: a, len: b - a }
                }
                // straddling / below the read cursor
                70..=74 => {
                    let a = read_est.saturating_sub(r.below(typical + 1));
                    let b = (read_est + r.below(typical + 1)).min(len);
                    Op::Recv { off: a.min(b), len: b - a.min(b) }
                }
                // spanning everything
                75..=76 => Op::Recv { off: 0, len },
                77..=91 => {
                    let cap = match r.below(5) {
                        0 => 0,
                        1 => 1,
                        2 => r.range(1, typical),
                        3 => r.range(1, 4 * typical),
                        _ => len + 1,
                    };
                    read_est = (read_est + cap).min(frontier);
                    Op::Read { cap }
                }
                _ => {
                    read_est = (read_est + typical).min(frontier);
                    Op::Next
                }
            };
            if let Op::Recv { off, len: l } = &op {
                frags.push((*off, *l));
                frontier = frontier.max(off + l);
            }
            ops.push(op);
        }
        Case { content_seed: seed, len, ops }
    }

    fn execute(&self, case: &Case) -> Outcome {
        let mut out = Outcome::default();
        let content: Vec<u8> = (0..case.len).map(|k| prf(case.content_seed, 0, k)).collect();
        let content = Bytes::from(content);
        let mut buf = RecvBuf::default();
        let mut m = Model { covered: vec![false; case.len as usize], nread: 0, max_end: 0 };
        let mut th = TraceHash::default();
        let mut fresh_sum = 0u64;
        let mut overlaps = 0u64;
        let mut reads = 0u64;
        for (step, op) in case.ops.iter().enumerate() {
            let step = step as u64;
            match op {
                Op::Recv { off, len } => {
                    let (off, len) = (*off, *len);
                    if off + len > case.len {
                        out.harness_error = Some(format!("case not consistent: fragment {off}+{len} beyond content {}", case.len));
                        return out;
                    }
                    let data = content.slice(off as usize..(off + len) as usize);
                    let ret = buf.recv(off, data);
                    fresh_sum += ret;
                    let start = off.max(m.nread);
                    let mut any_new = false;
                    let mut any_old = false;
                    for p in start..off + len {
                        if m.covered[p as usize] {
                            any_old = true;
                        } else {
                            any_new = true;
                        }
                        m.covered[p as usize] = true;
                    }
                    // the highest offset seen includes the position of an empty fragment (RFC 9000 4.1, 19.8: the
                    // largest offset of a frame is offset + length, also for length 0 — a lone FIN)
                    let new_max = m.max_end.max(off + len);
                    let expect = new_max - m.max_end;
                    m.max_end = new_max;
                    if ret != expect {
                        let site = if len > 0 { "recv" } else { "recv-empty" };
                        out.violate("fresh-sum", site, format!("recv({off},{len}) returned {ret}, highest offset seen grew by {expect}"), step);
                    }
                    if any_old || off < m.nread {
                        overlaps += 1;
                        out.stats.bump("fault.overlap_or_duplicate");
                    }
                    if len == 0 {
                        out.stats.bump("fault.empty_fragment");
                    }
                    if any_new && off > m.nread && !m.covered[m.nread as usize..off as usize].iter().all(|c| *c) {
                        out.stats.bump("fault.out_of_order");
                    }
                    th.add(off << 20 ^ len);
                }
                Op::Read { cap } => {
                    let avail = m.available();
                    let mut dst = BytesMut::with_capacity(*cap as usize);
                    let mut lim = bytes::BufMut::limit(&mut dst, *cap as usize);
                    let n = buf.try_read(&mut lim) as u64;
                    let expect = avail.min(*cap);
                    if n != expect {
                        out.violate("bytes", "try_read-count", format!("try_read(cap {cap}) returned {n}, contiguous available {avail}"), step);
                    }
                    if dst.len() as u64 != n {
                        out.violate("bytes", "try_read-count", format!("try_read reported {n} but wrote {}", dst.len()), step);
                    }
                    let end = (m.nread + dst.len() as u64).min(case.len);
                    if dst[..] != content[m.nread as usize..end as usize] {
                        out.violate("bytes", "try_read-data", format!("bytes read at {} differ from content", m.nread), step);
                    }
                    m.nread += dst.len() as u64;
                    reads += 1;
                    th.add(0xAAAA ^ n);
                }
                Op::Next => {
                    let avail = m.available();
                    match buf.try_next() {
                        Some(d) => {
                            let n = d.len() as u64;
                            if n == 0 || n > avail {
                                out.violate("bytes", "try_next-count", format!("try_next yielded {n} bytes, contiguous available {avail}"), step);
                            }
                            let end = (m.nread + n).min(case.len);
                            if d[..] != content[m.nread as usize..end as usize] {
                                out.violate("bytes", "try_next-data", format!("bytes from try_next at {} differ from content", m.nread), step);
                            }
                            m.nread += n;
                            th.add(0xBBBB ^ n);
                        }
                        None => {
                            if avail > 0 {
                                out.violate("readable", "try_next-none", format!("try_next returned None with {avail} contiguous bytes available"), step);
                            }
                        }
                    }
                    reads += 1;
                }
            }
            // cross-invariants after every step
            if m.nread > case.len {
                out.violate("bytes", "overread", format!("reader got {} bytes of a {}-byte stream", m.nread, case.len), step);
                break;
            }
            let avail = m.available();
            if buf.nread() != m.nread {
                out.violate("bytes", "nread", format!("nread() {} model {}", buf.nread(), m.nread), step);
            }
            if buf.available() != avail {
                out.violate("available", "", format!("available() {} model {}", buf.available(), avail), step);
            }
            if buf.is_readable() != (avail > 0) {
                out.violate("readable", "", format!("is_readable() {} but contiguous available {}", buf.is_readable(), avail), step);
            }
            if buf.largest_offset() != m.max_end {
                out.violate("fresh-sum", "largest_offset", format!("largest_offset() {} model {}", buf.largest_offset(), m.max_end), step);
            }
            if fresh_sum != m.max_end {
                out.violate("fresh-sum", "sum", format!("sum of recv returns {} != highest offset {}", fresh_sum, m.max_end), step);
            }
            if out.failed() {
                break;
            }
        }
        if !out.failed() {
            // drain: everything contiguous must come out, each byte once
            let avail = m.available();
            let mut dst = BytesMut::new();
            let n = buf.try_read(&mut dst) as u64;
            if n != avail || dst[..] != content[m.nread as usize..(m.nread + avail) as usize] {
                out.violate("bytes", "final-drain", format!("final drain produced {n} bytes, expected {avail}"), case.ops.len() as u64);
            }
        }
        out.trace_hash = th.get();
        out.nontrivial = overlaps > 0 && reads > 0;
        out
    }

    fn shrink(&self, case: &Case) -> Vec<Case> {
        let mut v = Vec::new();
        let n = case.ops.len();
        // drop halves, then single ops
        if n > 1 {
            v.push(Case { ops: case.ops[..n / 2].to_vec(), ..case.clone() });
            v.push(Case { ops: case.ops[n / 2..].to_vec(), ..case.clone() });
        }
        for i in 0..n.min(64) {
            let mut ops = case.ops.clone();
            ops.remove(i);
            v.push(Case { ops, ..case.clone() });
        }
        // shrink fragments
        for i in 0..n.min(64) {
            if let Op::Recv { off, len } = case.ops[i] {
                if len > 1 {
                    let mut ops = case.ops.clone();
                    ops[i] = Op::Recv { off, len: len / 2 };
                    v.push(Case { ops, ..case.clone() });
                    let mut ops = case.ops.clone();
                    ops[i] = Op::Recv { off: off + len / 2, len: len - len / 2 };
                    v.push(Case { ops, ..case.clone() });
                }
            }
        }
        // shrink content to what is used
        let used = case.ops.iter().map(|o| if let Op::Recv { off, len } = o { off + len } else { 0 }).max().unwrap_or(0);
        if used < case.len {
            v.push(Case { len: used.max(1), ..case.clone() });
        }
        v
    }
}
