//! journalsim — sent/received packet journals and packet-number coding (C07, C10) as a two-endpoint
//! mini simulation: a sender with a real `ArcSentJournal`, a receiver with a real `ArcRcvdJournal`,
//! lossy / duplicating / reordering channels in both directions, a virtual clock.
use std::collections::{BTreeMap, BTreeSet};

use qbase::{
    frame::{AckFrame, EncodeSize},
    packet::{InvalidPacketNumber, PacketNumber},
    varint::VarInt,
};
use qrecovery::journal::{ArcRcvdJournal, ArcSentJournal};
use serde::{Deserialize, Serialize};
use simcore::{Engine, Outcome, Rng, Tier, TraceHash};
use tokio::time::{Duration, Instant};

#[derive(Clone, Copy, Debug, Serialize, Deserialize, PartialEq)]
pub enum SendKind {
    /// `new_packet()`, `pn()`, dropped before anything was recorded
    Abandon,
    /// k >= 1 frames recorded, `build_with_time`
    Frames(u8),
    /// only trivial frames, `build_with_time`
    Trivial,
    /// frames and trivial frames, `build_with_time`
    Mixed(u8),
    /// trivial packet writer: `record_trivial` + `build_trivial`
    BuildTrivial,
}

#[derive(Clone, Copy, Debug, Serialize, Deserialize, PartialEq)]
pub enum Fate {
    Deliver,
    Drop,
    Dup,
}

#[derive(Clone, Debug, Serialize, Deserialize, PartialEq)]
pub enum Op {
    Send { kind: SendKind, ack_eliciting: bool, retran_ms: u32, expire_ms: u32, fate: Fate },
    Advance { ms: u32 },
    /// deliver item `idx % len` of the data channel to the receiver
    DeliverData { idx: u16 },
    /// receiver assembles an ACK for `largest` = the `sel`-th largest tracked received pn, into a
    /// frame of at most `capacity` bytes (0 = ample), carried in its next packet
    GenAck { sel: u8, capacity: u16, fate: Fate },
    /// a long one-way run: `n` packets that carry nothing to retransmit (ACK-only), none of which reaches the peer
    /// and none of which is ever acknowledged, while duplicates of an old ACK keep arriving (the journal rotates);
    /// the unacknowledged span grows beyond what two bytes can express
    TrivialBurst { n: u32 },
    /// deliver item `idx % len` of the ack channel to the sender
    DeliverAck { idx: u16 },
    /// the sender's loss detector reports an in-flight packet lost
    LossReport { sel: u16 },
    FastRetransmit,
    /// the receiver learns that its ack-carrying packets up to the `sel`-th were acknowledged
    AckOfAck { sel: u16, with_gap: bool },
}

#[derive(Clone, Debug, Serialize, Deserialize)]
pub struct Case {
    pub max_ack_delay_ms: Option<u32>,
    pub pto_ms: u32,
    pub ops: Vec<Op>,
}

/// `clauses`: the oracle clauses judged by the property this instance serves
pub struct JournalSim {
    pub clauses: &'static [&'static str],
}

pub const C07_CLAUSES: &[&str] = &["pn-reuse", "pn-not-increasing", "decode-mismatch", "no-panic"];
pub const C10_CLAUSES: &[&str] = &[
    "ack-claims-unreceived", "ack-largest", "ack-capacity", "ack-coverage", "pn-accepted-twice", "acked-frames", "acked-twice",
    "lost-frames", "lost-after-ack", "fast-retransmit-scope", "no-panic",
];

#[derive(Clone, Copy, PartialEq, Debug)]
enum PState {
    Flight,
    Lost,
    Acked,
}

struct SentPkt {
    frames: Vec<u32>,
    state: PState,
    retran_at: Instant,
    expire_at: Instant,
}

struct DataItem {
    pn: u64,
    enc: PacketNumber,
    la: u64,
    ack_eliciting: bool,
}

fn ideal_ack_size(tracked: &BTreeSet<u64>, largest: u64, delay_us: u64) -> (usize, Vec<(u64, u64)>) {
    // ranges from `largest` downward over `tracked` (all <= largest)
    let mut ranges: Vec<(u64, u64)> = Vec::new(); // (hi, lo)
    for &pn in tracked.iter().rev() {
        if pn > largest {
            continue;
        }
        match ranges.last_mut() {
            Some((_, lo)) if *lo == pn + 1 => *lo = pn,
            _ => ranges.push((pn, pn)),
        }
    }
    let vs = |v: u64| VarInt::from_u64(v).unwrap().encoding_size();
    let mut size = 1 + vs(largest) + vs(delay_us) + vs((ranges.len().saturating_sub(1)) as u64);
    if let Some((hi, lo)) = ranges.first() {
        size += vs(hi - lo);
    }
    for w in ranges.windows(2) {
        let gap = w[0].1 - w[1].0 - 2;
        size += vs(gap) + vs(w[1].0 - w[1].1);
    }
    (size, ranges)
}

/// encoded size of the ideal frame cut to the first range plus `extra` further ranges
fn truncated_ack_size(ranges: &[(u64, u64)], largest: u64, delay_us: u64, extra: usize) -> usize {
    let vs = |v: u64| VarInt::from_u64(v).unwrap().encoding_size();
    let extra = extra.min(ranges.len().saturating_sub(1));
    let mut size = 1 + vs(largest) + vs(delay_us) + vs(extra as u64);
    if let Some((hi, lo)) = ranges.first() {
        size += vs(hi - lo);
    }
    for w in ranges.windows(2).take(extra) {
        size += vs(w[0].1 - w[1].0 - 2) + vs(w[1].0 - w[1].1);
    }
    size
}

/// `GenAck::capacity` values with this bit set are relative: bits 2..15 = number of further ranges k the offered
/// space is cut for, bits 0..1 = 0/1/2 for one byte less than / exactly / one byte more than the frame with k further
/// ranges needs (the boundaries at which a size estimate that is one byte off shows)
pub const CAP_RELATIVE: u16 = 0x8000;

impl Engine for JournalSim {
    type Case = Case;
    fn name(&self) -> &'static str {
        "journalsim"
    }
    fn components_real(&self) -> Vec<&'static str> {
        vec![
            "qrecovery::journal::ArcSentJournal (NewPacketGuard, SentRotateGuard)",
            "qrecovery::journal::ArcRcvdJournal",
            "qbase::frame::AckFrame",
            "qbase::packet::PacketNumber encode/decode",
            "tokio paused clock",
        ]
    }
    fn components_stub(&self) -> Vec<&'static str> {
        vec!["frame payloads (u32 tags)", "network (two channels with drop/dup/reorder)", "loss detector (generated loss reports)"]
    }

    fn generate(&self, _index: u64, seed: u64, _tier: Tier) -> Case {
        let mut r = Rng::derive(seed, "workload");
        let long = r.one_in(5);
        // "gappy" histories: many packets, a third to a half of them lost, no rotation, so that the receiver tracks
        // dozens to hundreds of separate ranges and ACK generation runs into its size boundaries
        let gappy = r.one_in(8);
        let nops = if gappy { r.range(150, 900) } else { r.range(3, if long { 400 } else { 80 }) };
        let w_send = if gappy { 10 } else { r.range(3, 10) };
        let w_deliver = if gappy { 12 } else { r.range(1, 8) };
        let w_genack = if gappy { 2 } else { r.range(1, 5) };
        let w_dack = r.range(1, 5);
        let w_adv = if gappy { 0 } else { r.range(0, 3) };
        let w_loss = r.range(0, 3);
        let w_fr = r.range(0, 2);
        let w_aoa = if gappy { 0 } else { r.range(0, 3) };
        let p_drop = if gappy { 0.3 + r.f64() * 0.25 } else if r.one_in(2) { r.f64() * 0.4 } else { 0.0 };
        let p_dup = if r.one_in(2) { r.f64() * 0.3 } else { 0.0 };
        let reorder = r.one_in(2);
        let total = w_send + w_deliver + w_genack + w_dack + w_adv + w_loss + w_fr + w_aoa;
        let fate = |r: &mut Rng| {
            if r.chance(p_drop) {
                Fate::Drop
            } else if r.chance(p_dup) {
                Fate::Dup
            } else {
                Fate::Deliver
            }
        };
        let idx = |r: &mut Rng| if reorder && r.one_in(3) { r.below(64) as u16 } else { 0 };
        let mut ops = Vec::new();
        for _ in 0..nops {
            let mut x = r.below(total);
            let mut take = |w: u64| {
                if x < w {
                    true
                } else {
                    x -= w;
                    false
                }
            };
            let op = if take(w_send) {
                let kind = match r.below(12) {
                    0 => SendKind::Abandon,
                    1 => SendKind::Trivial,
                    2 => SendKind::BuildTrivial,
                    3 => SendKind::Mixed(r.range(1, 3) as u8),
                    _ => SendKind::Frames(r.range(1, 4) as u8),
                };
                Op::Send {
                    kind,
                    ack_eliciting: !matches!(kind, SendKind::Trivial | SendKind::BuildTrivial) || r.one_in(3),
                    retran_ms: *r.pick(&[1u32, 30, 100, 500]),
                    expire_ms: *r.pick(&[50u32, 300, 1000, 10_000]),
                    fate: fate(&mut r),
                }
            } else if take(w_deliver) {
                Op::DeliverData { idx: idx(&mut r) }
            } else if take(w_genack) {
                Op::GenAck {
                    sel: if r.one_in(4) { r.below(6) as u8 } else { 0 },
                    capacity: match r.below(if gappy { 8 } else { 5 }) {
                        0 => 0,
                        1 => r.range(3, 12) as u16,
                        2 => r.range(5, 40) as u16,
                        3 => r.range(5, 300) as u16,
                        _ => {
                            // cut for k further ranges, one byte around the exact need; k biased to the varint
                            // boundary of the range count (63 / 64)
                            let k = match r.below(4) {
                                0 => r.range(0, 8),
                                1 => r.range(60, 68),
                                2 => r.range(0, 300),
                                _ => 8191,
                            } as u16;
                            CAP_RELATIVE | (k << 2) | r.below(3) as u16
                        }
                    },
                    fate: fate(&mut r),
                }
            } else if take(w_dack) {
                Op::DeliverAck { idx: idx(&mut r) }
            } else if take(w_adv) {
                Op::Advance { ms: *r.pick(&[1u32, 5, 25, 100, 400, 2000]) }
            } else if take(w_loss) {
                Op::LossReport { sel: r.below(64) as u16 }
            } else if take(w_fr) {
                Op::FastRetransmit
            } else {
                Op::AckOfAck { sel: r.below(16) as u16, with_gap: r.one_in(3) }
            };
            ops.push(op);
        }
        if r.one_in(400) {
            // somewhere in the second half, then a few more ordinary packets
            let at = ops.len() / 2 + r.usize_below(ops.len() / 2 + 1);
            ops.insert(at.min(ops.len()), Op::TrivialBurst { n: *r.pick(&[33_000u32, 40_000, 70_000]) });
            for _ in 0..4 {
                ops.push(Op::Send { kind: SendKind::Frames(1), ack_eliciting: true, retran_ms: 100, expire_ms: 10_000, fate: Fate::Deliver });
                ops.push(Op::DeliverData { idx: 0 });
            }
        }
        Case {
            max_ack_delay_ms: if r.one_in(3) { None } else { Some(*r.pick(&[0u32, 1, 25, 200])) },
            pto_ms: *r.pick(&[1u32, 30, 100, 1000]),
            ops,
        }
    }

    fn execute(&self, case: &Case) -> Outcome {
        let rt = tokio::runtime::Builder::new_current_thread().enable_time().start_paused(true).build().unwrap();
        let mut out = rt.block_on(run(case));
        out.violations.retain(|v| self.clauses.contains(&v.clause.as_str()));
        out
    }

    fn shrink(&self, case: &Case) -> Vec<Case> {
        let mut v = Vec::new();
        let n = case.ops.len();
        if n > 1 {
            v.push(Case { ops: case.ops[..n / 2].to_vec(), ..case.clone() });
            v.push(Case { ops: case.ops[..n - 1].to_vec(), ..case.clone() });
        }
        for i in (0..n).rev().take(150) {
            let mut ops = case.ops.clone();
            ops.remove(i);
            v.push(Case { ops, ..case.clone() });
        }
        for i in 0..n.min(150) {
            let mut ops = case.ops.clone();
            let changed = match &mut ops[i] {
                Op::Send { fate, .. } | Op::GenAck { fate, .. } if *fate != Fate::Deliver => {
                    *fate = Fate::Deliver;
                    true
                }
                Op::DeliverData { idx } | Op::DeliverAck { idx } if *idx != 0 => {
                    *idx = 0;
                    true
                }
                Op::GenAck { capacity, .. } if *capacity != 0 => {
                    *capacity = 0;
                    true
                }
                _ => false,
            };
            if changed {
                v.push(Case { ops, ..case.clone() });
            }
        }
        v
    }
}

async fn run(case: &Case) -> Outcome {
    let mut out = Outcome::default();
    let mut th = TraceHash::default();
    let sent: ArcSentJournal<u32> = ArcSentJournal::with_capacity(4);
    let rcvd = ArcRcvdJournal::with_capacity(4, case.max_ack_delay_ms.map(|m| Duration::from_millis(m as u64)));
    let pto = Duration::from_millis(case.pto_ms as u64);

    // sender model
    let mut pkts: BTreeMap<u64, SentPkt> = BTreeMap::new();
    let mut last_built: Option<u64> = None;
    let mut next_tag: u32 = 1;
    let mut s_largest_acked: u64 = 0;
    // channels
    let mut data_ch: Vec<DataItem> = Vec::new();
    let mut ack_ch: Vec<(AckFrame, u64)> = Vec::new();
    // receiver model
    let mut received: BTreeMap<u64, Instant> = BTreeMap::new(); // pn -> receive time
    let mut r_next_pn: u64 = 0; // receiver's own packet numbers (ack-carrying packets)
    let mut r_pkts_delivered: BTreeSet<u64> = BTreeSet::new(); // receiver packets that reached the sender
    let mut triples: Vec<(u64, u64, u64)> = Vec::new();
    let mut faults = 0u64;
    let mut progress = 0u64;

    for (step, op) in case.ops.iter().enumerate() {
        let step = step as u64;
        match op {
            Op::Send { kind, ack_eliciting, retran_ms, expire_ms, fate } => {
                let mut guard = sent.new_packet();
                let (pn, enc) = guard.pn();
                let la = s_largest_acked;
                let mut frames = Vec::new();
                let built = match kind {
                    SendKind::Abandon => {
                        drop(guard);
                        out.stats.bump("fault.assembly_abandoned");
                        false
                    }
                    SendKind::Frames(k) | SendKind::Mixed(k) => {
                        for _ in 0..*k {
                            guard.record_frame(next_tag);
                            frames.push(next_tag);
                            next_tag += 1;
                        }
                        if matches!(kind, SendKind::Mixed(_)) {
                            guard.record_trivial();
                        }
                        guard.build_with_time(Duration::from_millis(*retran_ms as u64), Duration::from_millis(*expire_ms as u64));
                        true
                    }
                    SendKind::Trivial => {
                        guard.record_trivial();
                        guard.build_with_time(Duration::from_millis(*retran_ms as u64), Duration::from_millis(*expire_ms as u64));
                        true
                    }
                    SendKind::BuildTrivial => {
                        guard.record_trivial();
                        guard.build_trivial();
                        true
                    }
                };
                th.add(1 << 48 | pn << 8 | built as u64);
                if built {
                    // C07: a packet that leaves carries a strictly larger number than any earlier one
                    if let Some(prev) = last_built {
                        if pn == prev || pkts.contains_key(&pn) {
                            out.violate("pn-reuse", "", format!("packet number {pn} used for two packets"), step);
                        } else if pn < prev {
                            out.violate("pn-not-increasing", "", format!("packet number {pn} after {prev}"), step);
                        }
                    }
                    last_built = Some(pn);
                    let now = Instant::now();
                    pkts.insert(
                        pn,
                        SentPkt {
                            frames,
                            state: PState::Flight,
                            retran_at: now + Duration::from_millis(*retran_ms as u64),
                            expire_at: now + Duration::from_millis(*expire_ms as u64),
                        },
                    );
                    let copies = match fate {
                        Fate::Deliver => 1,
                        Fate::Drop => {
                            out.stats.bump("fault.data_drop");
                            faults += 1;
                            0
                        }
                        Fate::Dup => {
                            out.stats.bump("fault.data_dup");
                            faults += 1;
                            2
                        }
                    };
                    for _ in 0..copies {
                        data_ch.push(DataItem { pn, enc, la, ack_eliciting: *ack_eliciting });
                    }
                }
            }
            Op::TrivialBurst { n } => {
                out.stats.bump("probe.trivial_burst");
                faults += 1;
                for k in 0..*n {
                    let mut guard = sent.new_packet();
                    let (pn, _enc) = guard.pn();
                    guard.record_trivial();
                    guard.build_trivial();
                    if let Some(prev) = last_built {
                        if pn <= prev {
                            out.violate(if pn == prev { "pn-reuse" } else { "pn-not-increasing" }, "", format!("packet number {pn} after {prev}"), step);
                            break;
                        }
                    }
                    last_built = Some(pn);
                    if k % 1024 == 1023 {
                        // a duplicate of an old ACK arrives: the journal rotates, nothing is newly acknowledged
                        drop(sent.rotate());
                    }
                }
                th.add(9 << 48 | *n as u64);
            }
            Op::Advance { ms } => {
                tokio::time::advance(Duration::from_millis(*ms as u64)).await;
                out.sim_seconds += *ms as f64 / 1000.0;
                th.add(2 << 48 | *ms as u64);
            }
            Op::DeliverData { idx } => {
                if data_ch.is_empty() {
                    continue;
                }
                let i = *idx as usize % data_ch.len();
                if i != 0 {
                    out.stats.bump("fault.data_reorder");
                    faults += 1;
                }
                let item = data_ch.remove(i);
                let expected = received.keys().next_back().map(|p| p + 1).unwrap_or(0);
                let res = rcvd.decode_pn(item.enc);
                let already = received.contains_key(&item.pn);
                th.add(3 << 48 | item.pn << 8 | already as u64);
                // RFC 9000 A.3 guarantee window
                let nbits = 8 * item.enc.size() as u32;
                let hwin = 1u64 << (nbits - 1);
                let in_window = item.pn + hwin > expected && item.pn <= expected + hwin;
                match res {
                    Ok(p) => {
                        if already && p != item.pn {
                            // a stale duplicate from far behind the receiver's window reconstructs to some other, never
                            // received number: the packet then fails authentication (the number is part of the nonce)
                            // and is dropped — nothing is accepted twice
                            out.stats.bump("probe.stale_duplicate_decodes_elsewhere");
                            continue;
                        }
                        if already {
                            out.violate("pn-accepted-twice", "", format!("packet number {} accepted a second time (decoded {p})", item.pn), step);
                        } else if p != item.pn {
                            if expected <= item.pn {
                                out.violate("decode-mismatch", "in-order", format!("pn {} sent with largest_acked {} decoded to {p} at a receiver expecting {expected}", item.pn, item.la), step);
                            } else if in_window {
                                out.violate("decode-mismatch", "late", format!("late pn {} (encoding {} bytes) decoded to {p} at a receiver expecting {expected}", item.pn, item.enc.size()), step);
                            } else {
                                out.stats.bump("probe.late_outside_window");
                            }
                        }
                        if !out.failed() && !already {
                            rcvd.on_rcvd_pn(item.pn, item.ack_eliciting, pto);
                            received.insert(item.pn, Instant::now());
                            progress += 1;
                            if expected <= item.pn {
                                triples.push((item.pn, item.la, expected));
                            } else {
                                out.stats.bump("probe.late_packet_accepted");
                            }
                        }
                    }
                    Err(InvalidPacketNumber::Duplicate) => {
                        if !already {
                            if expected <= item.pn || in_window {
                                out.violate("decode-mismatch", "false-duplicate", format!("never-received pn {} rejected as duplicate (expected {expected})", item.pn), step);
                            }
                        } else {
                            out.stats.bump("probe.duplicate_rejected");
                        }
                    }
                    Err(InvalidPacketNumber::TooOld) => {
                        out.stats.bump("probe.too_old_rejected");
                        if !already && expected <= item.pn {
                            out.violate("decode-mismatch", "too-old", format!("in-order pn {} rejected as too old (expected {expected})", item.pn), step);
                        }
                    }
                    Err(InvalidPacketNumber::TooLarge) => {
                        out.violate("decode-mismatch", "too-large", format!("pn {} rejected as too large", item.pn), step);
                    }
                }
            }
            Op::GenAck { sel, capacity, fate } => {
                // which received numbers does the journal still track? observable through decode_pn:
                // Duplicate = tracked, TooOld = rotated out
                let expected = received.keys().next_back().map(|p| p + 1).unwrap_or(0);
                let mut tracked: BTreeSet<u64> = BTreeSet::new();
                for &pn in received.keys().rev() {
                    if expected - pn >= (1 << 30) {
                        break;
                    }
                    match rcvd.decode_pn(PacketNumber::U32(pn as u32)) {
                        Err(InvalidPacketNumber::Duplicate) => {
                            tracked.insert(pn);
                        }
                        Err(InvalidPacketNumber::TooOld) => break,
                        other => {
                            out.violate("pn-accepted-twice", "probe", format!("received pn {pn} would be accepted again: {other:?}"), step);
                            break;
                        }
                    }
                }
                if out.failed() || tracked.is_empty() {
                    continue;
                }
                let largest = *tracked.iter().rev().nth((*sel as usize).min(tracked.len() - 1)).unwrap();
                let rcvd_time = received[&largest];
                let my_pn = r_next_pn;
                let delay_us = rcvd_time.elapsed().as_micros() as u64;
                let (ideal, ideal_ranges) = ideal_ack_size(&tracked, largest, delay_us);
                let cap = if *capacity == 0 {
                    1200
                } else if *capacity & CAP_RELATIVE != 0 {
                    let k = ((*capacity & !CAP_RELATIVE) >> 2) as usize;
                    let need = truncated_ack_size(&ideal_ranges, largest, delay_us, k);
                    out.stats.bump("probe.ack_capacity_at_boundary");
                    if ideal_ranges.len() > 64 && k.min(ideal_ranges.len() - 1) >= 63 {
                        out.stats.bump("probe.ack_capacity_boundary_64_ranges");
                    }
                    (need + (*capacity & 3) as usize).saturating_sub(1).max(3)
                } else {
                    *capacity as usize
                };
                match rcvd.gen_ack_frame_util(my_pn, largest, rcvd_time, cap) {
                    Ok(frame) => {
                        r_next_pn += 1;
                        progress += 1;
                        th.add(4 << 48 | largest << 16 | frame.ranges().len() as u64);
                        if frame.largest() != largest {
                            out.violate("ack-largest", "", format!("asked for largest {largest}, frame says {}", frame.largest()), step);
                        }
                        if frame.encoding_size() > cap {
                            out.violate("ack-capacity", "", format!("ACK frame of {} bytes generated for capacity {cap}", frame.encoding_size()), step);
                        }
                        // covered set, with checked arithmetic (a generated frame must never go below 0)
                        let mut covered: BTreeSet<u64> = BTreeSet::new();
                        let mut ok = true;
                        let mut hi = frame.largest();
                        let mut lo = match hi.checked_sub(frame.first_range()) {
                            Some(l) => l,
                            None => {
                                ok = false;
                                0
                            }
                        };
                        if ok {
                            covered.extend(lo..=hi);
                            for (gap, len) in frame.ranges() {
                                match lo.checked_sub(gap.into_u64() + 2) {
                                    Some(h) => hi = h,
                                    None => {
                                        ok = false;
                                        break;
                                    }
                                }
                                match hi.checked_sub(len.into_u64()) {
                                    Some(l) => lo = l,
                                    None => {
                                        ok = false;
                                        break;
                                    }
                                }
                                covered.extend(lo..=hi);
                            }
                        }
                        if !ok {
                            out.violate("ack-claims-unreceived", "negative", format!("generated ACK frame descends below packet number 0: {frame:?}"), step);
                        } else if let Some(bad) = covered.iter().find(|p| !received.contains_key(p)) {
                            out.violate("ack-claims-unreceived", "", format!("generated ACK (largest {largest}) acknowledges {bad}, never received; frame {frame:?}"), step);
                        } else if ideal <= cap {
                            if let Some(miss) = tracked.iter().rev().find(|p| **p <= largest && !covered.contains(p)) {
                                out.violate("ack-coverage", "", format!("capacity {cap} suffices for all {} ranges ({ideal} bytes) but tracked received pn {miss} is not acknowledged; frame {frame:?}", ideal_ranges.len()), step);
                            }
                        } else {
                            out.stats.bump("probe.ack_truncated_by_capacity");
                        }
                        if ideal_ranges.len() > 1 {
                            out.stats.bump("probe.ack_with_gaps");
                        }
                        match fate {
                            Fate::Deliver => ack_ch.push((frame, my_pn)),
                            Fate::Dup => {
                                out.stats.bump("fault.ack_dup");
                                faults += 1;
                                ack_ch.push((frame.clone(), my_pn));
                                ack_ch.push((frame, my_pn));
                            }
                            Fate::Drop => {
                                out.stats.bump("fault.ack_drop");
                                faults += 1;
                            }
                        }
                    }
                    Err(_) => {
                        // refusing is legitimate only when not even the minimal frame fits
                        let vs = |v: u64| VarInt::from_u64(v).unwrap().encoding_size();
                        let first = ideal_ranges.first().map(|(h, l)| h - l).unwrap_or(0);
                        let min = 1 + vs(largest) + vs(delay_us) + 1 + vs(first);
                        if cap >= min + 8 {
                            out.violate("ack-capacity", "refused", format!("ACK generation refused with capacity {cap}, minimal frame needs {min}"), step);
                        }
                        out.stats.bump("probe.ack_refused_no_space");
                    }
                }
            }
            Op::DeliverAck { idx } => {
                if ack_ch.is_empty() {
                    continue;
                }
                let i = *idx as usize % ack_ch.len();
                if i != 0 {
                    out.stats.bump("fault.ack_reorder");
                    faults += 1;
                }
                let (frame, r_pn) = ack_ch.remove(i);
                r_pkts_delivered.insert(r_pn);
                let mut g = sent.rotate();
                if let Err(e) = g.update_largest(&frame) {
                    out.violate("acked-frames", "legit-ack-rejected", format!("ACK generated by the receiver rejected by the sender: {e}"), step);
                    continue;
                }
                s_largest_acked = s_largest_acked.max(frame.largest());
                let acked: Vec<u64> = frame.iter().flat_map(|r| r.rev()).collect();
                let now = Instant::now();
                for pn in acked {
                    let got: Vec<u32> = g.on_packet_acked(pn).collect();
                    th.add(5 << 48 | pn << 8 | got.len() as u64);
                    match pkts.get_mut(&pn) {
                        None => {
                            if !got.is_empty() {
                                out.violate("acked-frames", "unknown-packet", format!("ack of pn {pn} (never built) reported frames {got:?}"), step);
                            }
                        }
                        Some(p) => match p.state {
                            PState::Acked => {
                                if !got.is_empty() {
                                    out.violate("acked-twice", "", format!("pn {pn} acknowledged again reported frames {got:?} a second time"), step);
                                }
                                out.stats.bump("fault.repeated_ack");
                            }
                            PState::Flight => {
                                if got != p.frames {
                                    out.violate("acked-frames", "in-flight", format!("ack of pn {pn} reported {got:?}, packet carried {:?}", p.frames), step);
                                }
                                p.state = PState::Acked;
                                progress += 1;
                            }
                            PState::Lost => {
                                // a packet declared lost may have been expired out of the journal
                                let may_be_gone = p.expire_at <= now;
                                if got != p.frames && !(may_be_gone && got.is_empty()) {
                                    out.violate("acked-frames", "after-loss", format!("ack of lost pn {pn} reported {got:?}, packet carried {:?}", p.frames), step);
                                }
                                out.stats.bump("fault.ack_after_loss");
                                p.state = PState::Acked;
                            }
                        },
                    }
                }
            }
            Op::LossReport { sel } => {
                let cands: Vec<u64> = pkts.iter().filter(|(_, p)| p.state != PState::Acked || sel % 7 == 0).map(|(k, _)| *k).collect();
                if cands.is_empty() {
                    continue;
                }
                let pn = cands[*sel as usize % cands.len()];
                let now = Instant::now();
                let mut g = sent.rotate();
                let got: Vec<u32> = g.may_loss_packet(pn).collect();
                th.add(6 << 48 | pn << 8 | got.len() as u64);
                faults += 1;
                let p = pkts.get_mut(&pn).unwrap();
                match p.state {
                    PState::Acked => {
                        out.stats.bump("fault.loss_after_ack");
                        if !got.is_empty() {
                            out.violate("lost-after-ack", "", format!("loss report for acknowledged pn {pn} yielded frames {got:?}"), step);
                        }
                    }
                    PState::Flight => {
                        out.stats.bump("fault.loss_report");
                        if got != p.frames {
                            out.violate("lost-frames", "in-flight", format!("loss of pn {pn} reported {got:?}, packet carried {:?}", p.frames), step);
                        }
                        p.state = PState::Lost;
                    }
                    PState::Lost => {
                        out.stats.bump("fault.repeated_loss_report");
                        let may_be_gone = p.expire_at <= now;
                        if got != p.frames && !(may_be_gone && got.is_empty()) {
                            out.violate("lost-frames", "again", format!("repeated loss of pn {pn} reported {got:?}, packet carried {:?}", p.frames), step);
                        }
                    }
                }
            }
            Op::FastRetransmit => {
                let now = Instant::now();
                let mut g = sent.rotate();
                let got: Vec<u32> = g.fast_retransmit().collect();
                th.add(7 << 48 | got.len() as u64);
                // expected: frames of in-flight packets older than largest_acked whose retransmit deadline passed
                let mut must: Vec<u32> = Vec::new();
                let mut allowed: BTreeSet<u32> = BTreeSet::new();
                for (pn, p) in pkts.iter_mut() {
                    if *pn < s_largest_acked && p.state == PState::Flight && p.retran_at < now {
                        must.extend(&p.frames);
                        allowed.extend(&p.frames);
                        p.state = PState::Lost;
                    }
                }
                if let Some(bad) = got.iter().find(|t| !allowed.contains(t)) {
                    out.violate("fast-retransmit-scope", "", format!("fast_retransmit yielded frame {bad} of a packet that is acked, already lost, not older than largest_acked {s_largest_acked}, or not past its deadline"), step);
                } else if got != must {
                    out.violate("fast-retransmit-scope", "missing", format!("fast_retransmit yielded {got:?}, expected {must:?}"), step);
                }
                if !must.is_empty() {
                    out.stats.bump("probe.fast_retransmit_fired");
                }
            }
            Op::AckOfAck { sel, with_gap } => {
                // the sender acknowledges the receiver's packets it has seen
                if r_pkts_delivered.is_empty() {
                    continue;
                }
                let all: Vec<u64> = r_pkts_delivered.iter().copied().collect();
                let upto = all[(*sel as usize) % all.len()];
                let set: BTreeSet<u64> = all.iter().copied().filter(|p| *p <= upto && !(*with_gap && *p % 3 == 1 && *p != upto)).collect();
                let (_, ranges) = ideal_ack_size(&set, upto, 0);
                let first = ranges[0].0 - ranges[0].1;
                let rest: Vec<(VarInt, VarInt)> = ranges.windows(2).map(|w| (VarInt::from_u64(w[0].1 - w[1].0 - 2).unwrap(), VarInt::from_u64(w[1].0 - w[1].1).unwrap())).collect();
                let f = AckFrame::new(VarInt::from_u64(upto).unwrap(), VarInt::from_u32(0), VarInt::from_u64(first).unwrap(), rest, None);
                rcvd.on_rcvd_ack(&f);
                out.stats.bump("probe.ack_of_ack");
                th.add(8 << 48 | upto);
            }
        }
        if out.failed() {
            break;
        }
    }

    // C07 second tier: the codec is stateless, so a simulated (pn, largest_acked, expected) triple shifted
    // by a base is a legitimate history of a longer-lived connection.
    // Shifts that put a boundary of the truncated number's width (2^16, 2^24, 2^32 ...) between the receiver's expected
    // number and the packet: the aligned bases below never do (short histories live far from any boundary).
    if !out.failed() {
        'outer: for (i, (pn, la, exp)) in triples.iter().enumerate() {
            let (lo, hi) = (*pn.min(exp), *pn.max(exp));
            if hi == lo {
                continue;
            }
            let nbits = 8 * PacketNumber::encode(*pn, *la).size() as u32;
            for m in [1u64, 5, 1 << 20] {
                let Some(boundary) = m.checked_shl(nbits).filter(|b| *b < (1 << 61)) else { continue };
                let d = (i as u64 * 7 + m) % (hi - lo);
                // lo + base < boundary <= hi + base
                let Some(base) = boundary.checked_sub(lo + 1 + d) else { continue };
                if base < *la {
                    // la + base stays non-negative by construction; keep la below the boundary region sane
                }
                let dec = PacketNumber::encode(pn + base, la + base).decode(exp + base);
                out.stats.bump("boundary_crossing_triples");
                if dec != pn + base {
                    out.violate("decode-mismatch", "boundary", format!("pn {} (largest_acked {}, expected {}) decoded to {dec}: the {nbits}-bit boundary {boundary} lies between expected and pn", pn + base, la + base, exp + base), i as u64);
                    break 'outer;
                }
            }
        }
    }
    if !out.failed() {
        const BASES: [u64; 7] = [1 << 8, 1 << 16, 1 << 24, 1 << 31, 1 << 32, 1 << 48, (1 << 62) - (1 << 17)];
        for (i, (pn, la, exp)) in triples.iter().enumerate() {
            let base = BASES[i % BASES.len()];
            if pn + base >= (1 << 62) {
                continue;
            }
            let enc = PacketNumber::encode(pn + base, la + base);
            let dec = enc.decode(exp + base);
            out.stats.bump("shifted_triples");
            if dec != pn + base {
                out.violate("decode-mismatch", "shifted", format!("pn {} (largest_acked {}, expected {}) decoded to {dec}", pn + base, la + base, exp + base), i as u64);
                break;
            }
            // scaled span (input construction, reported separately): widen the unacked span so the 3- and
            // 4-byte encodings and the 2^31-1 span limit are reached
            let span = pn - la;
            if span > 0 {
                let k = [3u64, 300, 30_000, 3_000_000][i % 4];
                let span2 = (span * k).min((1 << 31) - 1);
                let pn2 = base + span2 + 5;
                let la2 = pn2 - span2;
                // receiver position anywhere in [la2+1, pn2], placed proportionally
                let frac = if *pn > *la { (exp.saturating_sub(*la)) as f64 / span as f64 } else { 1.0 };
                let exp2 = (la2 + 1 + ((span2 - 1) as f64 * frac.clamp(0.0, 1.0)) as u64).min(pn2);
                if pn2 < (1 << 62) {
                    let dec2 = PacketNumber::encode(pn2, la2).decode(exp2);
                    out.stats.bump("scaled_triples");
                    if dec2 != pn2 {
                        out.violate("decode-mismatch", "scaled", format!("pn {pn2} (largest_acked {la2}, expected {exp2}) decoded to {dec2}"), i as u64);
                        break;
                    }
                }
            }
        }
    }
    out.trace_hash = th.get();
    out.nontrivial = faults > 0 && progress > 1;
    out
}
