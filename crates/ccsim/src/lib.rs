//! ccsim — engine skeleton (see DESIGN.md §4/§5).
