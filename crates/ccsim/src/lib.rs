//! ccsim — deterministic simulation of `qcongestion::ArcCC` (NewReno, RTT, pacer, loss detection, PTO)
//! against a clause-by-clause re-implementation of RFC 9002 Appendix A/B (property C13, DESIGN §5).
//!
//! A `Case` is an explicit op list over a virtual clock; nothing is drawn at execute time.
use serde::{Deserialize, Serialize};
use simcore::{Engine, Outcome, Rng, Tier};

pub mod sim;

pub const MSS: usize = 1200;

#[derive(Clone, Copy, Debug, Serialize, Deserialize, PartialEq, Eq)]
pub enum Fate {
    /// reaches the peer `ms` virtual milliseconds after it was sent
    Deliver { ms: u32 },
    /// dropped by the path
    Drop,
    /// dropped because the path is black-holed (counted separately)
    Blackhole,
}

#[derive(Clone, Copy, Debug, Serialize, Deserialize, PartialEq, Eq)]
pub enum AckDelay {
    /// the peer reports the time it really held the largest acknowledged packet
    Truthful,
    /// the peer reports this many microseconds (may exceed max_ack_delay)
    Us(u32),
}

#[derive(Clone, Debug, Serialize, Deserialize, PartialEq, Eq)]
pub enum Op {
    /// advance the virtual clock; `do_tick` runs at every 10 ms boundary exactly as `Path::drive`
    Advance { ms: u32 },
    /// ask `send_quota()` like the burst loop, then `on_pkt_sent`
    TrySend { epoch: u8, size: u16, ack_eliciting: bool, in_flight: bool, pn_skip: u8, fate: Fate },
    /// the peer acknowledges what has reached it so far in `epoch`:
    /// the newest `skip_newest` arrivals are left out (stale / reordered ack), every `thin`-th packet number is
    /// left out (gaps, acknowledged by a later ack), at most `max_ranges` ranges (0 = no limit)
    PeerAck { epoch: u8, skip_newest: u8, max_ranges: u8, thin: u8, delay: AckDelay, ce: Option<u32>, lost: bool },
    /// a packet of the peer is received on this path (`Path::on_packet_rcvd`)
    PktRcvd { epoch: u8, ack_eliciting: bool },
    /// handshake keys became available (`HandshakeStatus::got_handshake_key`)
    HandshakeKey,
    /// handshake confirmed: `handshake_confirmed()` then both early epochs are discarded, as `handshake.rs` does
    Confirmed,
    /// `Path::grant_anti_amplification`
    AaGrant,
    /// `PathStatus::enter_anti_amplification_limit` (only has an effect before the grant, as in `Path::send_packets`)
    AaEnter,
    DiscardEpoch { epoch: u8 },
}

#[derive(Clone, Debug, Serialize, Deserialize)]
pub struct Case {
    pub server: bool,
    pub max_ack_delay_ms: u32,
    /// the handshake status is shared by all paths of a connection: a path created late starts confirmed
    pub start_confirmed: bool,
    /// answer `need_send_ack_eliciting > 0` with PING packets the way `Burst::load_ping` does
    pub auto_probe: bool,
    /// fates of the auto probes, used cyclically
    pub probe_fates: Vec<Fate>,
    pub ops: Vec<Op>,
}

pub struct CcSim;

struct Profile {
    owd: u32,
    jitter: u32,
    p_drop: f64,
    p_late: f64,
    late_ms: u32,
    p_ackloss: f64,
    p_stale: f64,
    p_thin: f64,
    p_ce: f64,
    p_delay_beyond: f64,
    p_small: f64,
    p_nonae: f64,
    p_skip: f64,
}

impl Profile {
    fn fate(&self, f: &mut Rng) -> Fate {
        if f.chance(self.p_drop) {
            return Fate::Drop;
        }
        let mut ms = self.owd + if self.jitter > 0 { f.below(self.jitter as u64 + 1) as u32 } else { 0 };
        if f.chance(self.p_late) {
            ms += 1 + f.below(self.late_ms as u64 + 1) as u32;
        }
        Fate::Deliver { ms }
    }
}

impl Engine for CcSim {
    type Case = Case;
    fn name(&self) -> &'static str {
        "ccsim"
    }
    fn components_real(&self) -> Vec<&'static str> {
        vec![
            "qcongestion::ArcCC (NewReno, Rtt, Pacer, PacketSpace loss detection, PTO) through qcongestion::Transport",
            "qcongestion::{PathStatus, HandshakeStatus}",
            "qbase::net::tx::ArcSendWaker",
            "qbase::frame::AckFrame / EcnCounts",
            "tokio paused clock",
        ]
    }
    fn components_stub(&self) -> Vec<&'static str> {
        vec![
            "Feedback trackers (record every may_loss callback)",
            "the path and the peer (case decides delivery, delay, drop, acknowledgement frames)",
            "burst loop (TrySend = send_quota + on_pkt_sent; PING probes as load_ping)",
        ]
    }

    fn generate(&self, _index: u64, seed: u64, _tier: Tier) -> Case {
        let mut c = Rng::derive(seed, "cfg");
        let mut r = Rng::derive(seed, "workload");
        let mut f = Rng::derive(seed, "faults");
        let server = c.one_in(2);
        let mad = *c.pick(&[0u32, 1, 25, 25, 25, 25, 100, 400]);
        let owd = *c.pick(&[0u32, 1, 2, 5, 10, 20, 20, 50, 50, 150, 400]);
        let sw = |c: &mut Rng, lo: f64, hi: f64| if c.one_in(2) { c.log_uniform(lo, hi) } else { 0.0 };
        let prof = Profile {
            owd,
            jitter: if c.one_in(2) { owd / 2 + c.below(4) as u32 } else { 0 },
            p_drop: sw(&mut c, 0.003, 0.3),
            p_late: sw(&mut c, 0.005, 0.3),
            late_ms: owd * 3 + 50,
            p_ackloss: sw(&mut c, 0.02, 0.5),
            p_stale: sw(&mut c, 0.02, 0.3),
            p_thin: sw(&mut c, 0.02, 0.3),
            p_ce: sw(&mut c, 0.01, 0.3),
            p_delay_beyond: sw(&mut c, 0.02, 0.5),
            p_small: if c.one_in(2) { c.f64() * 0.5 } else { 0.02 },
            p_nonae: if c.one_in(2) { c.f64() * 0.3 } else { 0.02 },
            p_skip: if c.one_in(3) { c.f64() * 0.2 } else { 0.0 },
        };
        let start_confirmed = c.one_in(4);
        let long = c.one_in(8);
        let segments = if long { r.range(150, 1200) } else { r.range(8, 150) };
        // handshake timeline, in segment ordinals
        let never_confirm = !start_confirmed && c.one_in(5);
        let hk_at = r.range(0, 6);
        let grant_at = if server { r.range(0, 5) } else { 0 };
        let confirm_at = hk_at + r.range(1, 12);
        let blackhole_bias = c.one_in(3);
        let app_limited = c.one_in(3);

        let mut ops: Vec<Op> = Vec::new();
        let mut t_ms: u64 = 0;
        let mut pkts: u64 = 0;
        let mut have_hk = start_confirmed;
        let mut confirmed = start_confirmed;
        let mut granted = !server;
        const T_BUDGET: u64 = 95_000;
        const P_BUDGET: u64 = 4_700;

        let push_send = |ops: &mut Vec<Op>, r: &mut Rng, f: &mut Rng, epoch: u8, fate: Option<Fate>, pkts: &mut u64| {
            let size = if r.chance(prof.p_small) { r.range(40, 1199) as u16 } else { 1200 };
            let (ae, inf) = if r.chance(prof.p_nonae) { if r.one_in(2) { (false, true) } else { (false, false) } } else { (true, true) };
            let pn_skip = if r.chance(prof.p_skip) { r.range(1, 4) as u8 } else { 0 };
            let fate = fate.unwrap_or_else(|| prof.fate(f));
            ops.push(Op::TrySend { epoch, size, ack_eliciting: ae, in_flight: inf, pn_skip, fate });
            *pkts += 1;
        };
        let push_ack = |ops: &mut Vec<Op>, r: &mut Rng, f: &mut Rng, epoch: u8| {
            let lost = f.chance(prof.p_ackloss);
            let delay = if f.chance(prof.p_delay_beyond) {
                AckDelay::Us(*r.pick(&[0u32, 1_000, 30_000, 200_000, 2_000_000, 16_000_000]))
            } else {
                AckDelay::Truthful
            };
            ops.push(Op::PeerAck {
                epoch,
                skip_newest: if f.chance(prof.p_stale) { r.range(1, 12) as u8 } else { 0 },
                max_ranges: if r.one_in(8) { r.range(1, 4) as u8 } else { 0 },
                thin: if f.chance(prof.p_thin) { r.range(2, 6) as u8 } else { 0 },
                delay,
                ce: if f.chance(prof.p_ce) { Some(r.range(1, 3) as u32) } else { None },
                lost,
            });
        };

        for seg in 0..segments {
            if t_ms >= T_BUDGET || pkts >= P_BUDGET {
                break;
            }
            if !start_confirmed {
                if seg == grant_at && server && !granted {
                    if r.one_in(2) {
                        ops.push(Op::PktRcvd { epoch: 0, ack_eliciting: true });
                    } else {
                        ops.push(Op::AaGrant);
                    }
                    granted = true;
                }
                if seg == hk_at && !have_hk {
                    ops.push(Op::HandshakeKey);
                    have_hk = true;
                }
                if seg == confirm_at && !never_confirm && !confirmed {
                    ops.push(Op::Confirmed);
                    confirmed = true;
                }
            }
            let cur_epoch: u8 = if confirmed {
                2
            } else if have_hk {
                *r.pick(&[1u8, 1, 1, 1, 0, 2])
            } else {
                *r.pick(&[0u8, 0, 0, 0, 0, 2])
            };
            let any_epoch = |r: &mut Rng| if r.one_in(10) { r.below(3) as u8 } else { cur_epoch };
            let rtt = (2 * owd).max(1);
            match r.below(if blackhole_bias { 26 } else { 22 }) {
                // a round: burst, wait about a round trip, acknowledgement
                0..=9 => {
                    let n = if app_limited { r.range(1, 4) } else { *r.pick(&[1u64, 2, 3, 5, 10, 10, 20, 40, 80]) };
                    for _ in 0..n {
                        push_send(&mut ops, &mut r, &mut f, cur_epoch, None, &mut pkts);
                        if r.one_in(6) {
                            let ms = r.range(1, 12) as u32;
                            ops.push(Op::Advance { ms });
                            t_ms += ms as u64;
                        }
                    }
                    let ms = match r.below(4) {
                        0 => rtt,
                        1 => rtt + r.below(mad as u64 + 1) as u32,
                        2 => rtt / 2 + 1,
                        _ => rtt + r.below(rtt as u64 * 2 + 30) as u32,
                    };
                    ops.push(Op::Advance { ms });
                    t_ms += ms as u64;
                    push_ack(&mut ops, &mut r, &mut f, cur_epoch);
                }
                // ack clocking: small groups of packets interleaved with acks
                10..=12 => {
                    let groups = r.range(2, 10);
                    for _ in 0..groups {
                        for _ in 0..r.range(1, 4) {
                            push_send(&mut ops, &mut r, &mut f, cur_epoch, None, &mut pkts);
                        }
                        let ms = r.range(1, rtt as u64 / 2 + 10) as u32;
                        ops.push(Op::Advance { ms });
                        t_ms += ms as u64;
                        push_ack(&mut ops, &mut r, &mut f, cur_epoch);
                    }
                }
                13 | 14 => {
                    let ms = *r.pick(&[1u32, 3, 10, 10, 20, 37, 100, 250, 1000, 3000]);
                    ops.push(Op::Advance { ms });
                    t_ms += ms as u64;
                }
                15 | 16 => {
                    let e = any_epoch(&mut r);
                    push_ack(&mut ops, &mut r, &mut f, e);
                }
                17 => {
                    let e = any_epoch(&mut r);
                    push_send(&mut ops, &mut r, &mut f, e, None, &mut pkts);
                }
                18 => ops.push(Op::PktRcvd { epoch: any_epoch(&mut r), ack_eliciting: !r.one_in(4) }),
                19 => {
                    if server && !confirmed && r.one_in(2) {
                        ops.push(Op::AaEnter);
                    } else if have_hk && !confirmed && r.one_in(3) {
                        ops.push(Op::DiscardEpoch { epoch: r.below(2) as u8 });
                    } else {
                        ops.push(Op::AaGrant);
                    }
                }
                // keep sending for a long stretch without any acknowledgement (window overrun, S6)
                20 => {
                    let n = r.range(5, 60);
                    for _ in 0..n {
                        for _ in 0..r.range(1, 6) {
                            push_send(&mut ops, &mut r, &mut f, cur_epoch, None, &mut pkts);
                        }
                        let ms = *r.pick(&[1u32, 5, 10, 10, 12, 25]);
                        ops.push(Op::Advance { ms });
                        t_ms += ms as u64;
                    }
                    push_ack(&mut ops, &mut r, &mut f, cur_epoch);
                }
                // blackhole: everything sent is dropped, nothing is acknowledged
                _ => {
                    let dur = *r.pick(&[300u64, 1_000, 3_000, 10_000, 30_000, 60_000]);
                    let mut spent = 0u64;
                    f.next_u64();
                    while spent < dur && t_ms + spent < T_BUDGET {
                        if r.one_in(3) && pkts < P_BUDGET {
                            push_send(&mut ops, &mut r, &mut f, cur_epoch, Some(Fate::Blackhole), &mut pkts);
                        }
                        let ms = *r.pick(&[10u32, 50, 100, 400, 1_000, 2_500]);
                        ops.push(Op::Advance { ms });
                        spent += ms as u64;
                    }
                    t_ms += spent;
                }
            }
        }
        let blackhole_probes = c.one_in(2);
        let probe_fates: Vec<Fate> = (0..8)
            .map(|_| if blackhole_probes { Fate::Blackhole } else { prof.fate(&mut f) })
            .collect();
        Case { server, max_ack_delay_ms: mad, start_confirmed, auto_probe: !c.one_in(6), probe_fates, ops }
    }

    fn execute(&self, case: &Case) -> Outcome {
        let rt = tokio::runtime::Builder::new_current_thread().enable_time().start_paused(true).build().unwrap();
        rt.block_on(sim::run(case))
    }

    fn shrink(&self, case: &Case) -> Vec<Case> {
        let mut v = Vec::new();
        let n = case.ops.len();
        let with = |ops: Vec<Op>| Case { ops, ..case.clone() };
        if n > 1 {
            v.push(with(case.ops[..n / 2].to_vec()));
            v.push(with(case.ops[..n - 1].to_vec()));
        }
        // remove chunks, large to small
        let mut chunk = n / 2;
        while chunk >= 2 {
            let mut start = 0;
            while start + chunk <= n && v.len() < 400 {
                let mut ops = case.ops[..start].to_vec();
                ops.extend_from_slice(&case.ops[start + chunk..]);
                v.push(with(ops));
                start += chunk;
            }
            chunk /= 2;
        }
        for i in (0..n).rev().take(200) {
            let mut ops = case.ops.clone();
            ops.remove(i);
            v.push(with(ops));
        }
        if case.auto_probe {
            v.push(Case { auto_probe: false, ..case.clone() });
        }
        if case.probe_fates.len() > 1 {
            v.push(Case { probe_fates: case.probe_fates[..1].to_vec(), ..case.clone() });
        }
        // simplify single ops
        for i in 0..n.min(200) {
            let mut ops = case.ops.clone();
            let changed = match &mut ops[i] {
                Op::TrySend { size, pn_skip, fate, .. } => {
                    let mut ch = false;
                    if *size != 1200 {
                        *size = 1200;
                        ch = true;
                    }
                    if *pn_skip != 0 {
                        *pn_skip = 0;
                        ch = true;
                    }
                    if let Fate::Deliver { ms } = fate {
                        if *ms > 0 {
                            *ms = 0;
                            ch = true;
                        }
                    }
                    ch
                }
                Op::PeerAck { skip_newest, max_ranges, thin, delay, ce, .. } => {
                    let mut ch = false;
                    if *skip_newest != 0 {
                        *skip_newest = 0;
                        ch = true;
                    }
                    if *max_ranges != 0 {
                        *max_ranges = 0;
                        ch = true;
                    }
                    if *thin != 0 {
                        *thin = 0;
                        ch = true;
                    }
                    if *delay != AckDelay::Us(0) {
                        *delay = AckDelay::Us(0);
                        ch = true;
                    }
                    if ce.is_some() {
                        *ce = None;
                        ch = true;
                    }
                    ch
                }
                Op::Advance { ms } if *ms > 10 => {
                    *ms = (*ms / 2).max(10);
                    true
                }
                _ => false,
            };
            if changed {
                v.push(with(ops));
            }
        }
        v
    }
}
