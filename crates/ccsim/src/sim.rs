//! Execution of a case against the real `ArcCC` plus the RFC 9002 reference oracle (clauses (a)..(h) of C13).
use std::{
    collections::BTreeMap,
    rc::Rc,
    sync::{Arc, Mutex, atomic::AtomicU16},
};

use qbase::{
    Epoch,
    frame::{AckFrame, EcnCounts},
    net::tx::ArcSendWaker,
    varint::VarInt,
};
use qcongestion::{Algorithm, ArcCC, Feedback, HandshakeStatus, PathStatus, Transport, VerifCcSnapshot};
use qevent::quic::recovery::PacketLostTrigger;
use simcore::{Outcome, TraceHash};
use tokio::time::{Duration, Instant};

use crate::{AckDelay, Case, Fate, MSS, Op};

const TICK: Duration = Duration::from_millis(10);
const GRANULARITY: Duration = Duration::from_millis(1);

type LossLog = Arc<Mutex<Vec<(usize, u8, u64)>>>;

struct Tracker {
    epoch: usize,
    log: LossLog,
}

impl Feedback for Tracker {
    fn may_loss(&self, trigger: PacketLostTrigger, pns: &mut dyn Iterator<Item = u64>) {
        let t = match trigger {
            PacketLostTrigger::ReorderingThreshold => 0,
            PacketLostTrigger::TimeThreshold => 1,
            PacketLostTrigger::PtoExpired => 2,
        };
        let mut l = self.log.lock().unwrap();
        for pn in pns {
            l.push((self.epoch, t, pn));
        }
    }
}

#[derive(Clone, Copy, PartialEq, Eq, Debug)]
enum St {
    Out,
    Acked,
    Lost,
}

struct Pkt {
    t_sent: Instant,
    size: usize,
    ae: bool,
    inf: bool,
    st: St,
    was_lost: bool,
    probed: bool,
}

#[derive(Default)]
struct Space {
    pkts: BTreeMap<u64, Pkt>,
    next_pn: u64,
    largest_acked: Option<u64>,
    arrivals: BTreeMap<u64, Instant>,
    max_arrival: Option<Instant>,
    ce: u64,
    /// largest ECN-CE count the controller has certainly processed
    ce_seen: u64,
    discarded: bool,
    rcvd_pn: u64,
}

#[derive(Clone, Copy, PartialEq, Eq, Debug)]
enum Kind {
    Send,
    Ack,
    Tick,
    Rcvd,
    Discard,
}

impl Kind {
    fn name(self) -> &'static str {
        match self {
            Kind::Send => "on-send",
            Kind::Ack => "on-ack",
            Kind::Tick => "timer",
            Kind::Rcvd => "on-pkt-rcvd",
            Kind::Discard => "on-discard",
        }
    }
}

struct Sim<'a> {
    case: &'a Case,
    cc: ArcCC,
    status: PathStatus,
    hs: Arc<HandshakeStatus>,
    log: LossLog,
    spaces: [Space; 3],
    start: Instant,
    next_tick: Instant,
    idle_ticks: u32,
    snap: Rc<VerifCcSnapshot>,
    /// sum of the sizes of the in-flight packets the model still has outstanding
    model_sum: usize,
    /// the Initial space was abandoned once (the RFC's one-time key discard)
    initial_discarded_once: bool,
    /// a legitimate reason to reset the PTO back-off happened inside the current call
    pto_reset_ok: bool,
    /// the controller abandoned the Initial space again inside the current call
    repeated_discard: bool,
    out: Outcome,
    th: TraceHash,
    mad: Duration,
    granted: bool,
    aa_limited: bool,
    have_hk: bool,
    confirmed: bool,
    /// reference: start of the current recovery period (time of the last window reduction)
    model_r: Option<Instant>,
    latest_rtt: Option<Duration>,
    first_sample: Option<Instant>,
    g_delta: i64,
    g_own_delta: i64,
    over_since: Option<Instant>,
    admitted_over: usize,
    abandoned: bool,
    probe_ord: usize,
    faults: u64,
    acked: u64,
    sent: u64,
    trace: bool,
}

fn ep(i: usize) -> Epoch {
    Epoch::EPOCHS[i]
}

fn vi(x: u64) -> VarInt {
    VarInt::from_u64(x).expect("varint range")
}

pub async fn run(case: &Case) -> Outcome {
    let mut s = Sim::new(case);
    for op in case.ops.iter() {
        if s.abandoned || s.elapsed_ms() > 110_000 {
            break;
        }
        s.apply(op).await;
    }
    if !s.abandoned {
        s.drain().await;
    }
    s.finish()
}

impl<'a> Sim<'a> {
    fn new(case: &'a Case) -> Self {
        let log: LossLog = Arc::new(Mutex::new(Vec::new()));
        // exactly as qconnection::path::Path::new + builder.rs (HandshakeStatus::new(role == Server))
        let hs = Arc::new(HandshakeStatus::new(case.server));
        if case.start_confirmed {
            hs.got_handshake_key();
            hs.received_handshake_ack();
            hs.handshake_confirmed();
        }
        let pmtu = Arc::new(AtomicU16::new(qcongestion::MSS as u16));
        let status = PathStatus::new(hs.clone(), pmtu);
        let tx_waker = ArcSendWaker::new();
        let mad = Duration::from_millis(case.max_ack_delay_ms as u64);
        let trackers: [Arc<dyn Feedback>; 3] = [
            Arc::new(Tracker { epoch: 0, log: log.clone() }),
            Arc::new(Tracker { epoch: 1, log: log.clone() }),
            Arc::new(Tracker { epoch: 2, log: log.clone() }),
        ];
        let cc = ArcCC::new(Algorithm::NewReno, mad, trackers, status.clone(), tx_waker);
        let mut granted = false;
        let mut aa_limited = true;
        // path.rs: `if !is_probed { path.grant_anti_amplification() }`: the client's own paths and paths added to an
        // established connection are granted at creation; a server's handshake path is created by a received packet.
        if !case.server || case.start_confirmed {
            cc.grant_anti_amplification();
            granted = true;
            aa_limited = false;
        }
        let start = Instant::now();
        let snap = Rc::new(cc.verif_snapshot());
        let mut spaces: [Space; 3] = Default::default();
        if case.start_confirmed {
            spaces[0].discarded = true;
            spaces[1].discarded = true;
        }
        Sim {
            case,
            cc,
            status,
            hs,
            log,
            spaces,
            start,
            next_tick: start + TICK,
            idle_ticks: 0,
            snap,
            model_sum: 0,
            initial_discarded_once: case.start_confirmed,
            pto_reset_ok: false,
            repeated_discard: false,
            out: Outcome::default(),
            th: TraceHash::default(),
            mad,
            granted,
            aa_limited,
            have_hk: case.start_confirmed,
            confirmed: case.start_confirmed,
            model_r: None,
            latest_rtt: Some(Duration::ZERO),
            first_sample: None,
            g_delta: 0,
            g_own_delta: 0,
            over_since: None,
            admitted_over: 0,
            abandoned: false,
            probe_ord: 0,
            faults: 0,
            acked: 0,
            sent: 0,
            trace: std::env::var("CCSIM_TRACE").is_ok(),
        }
    }

    fn elapsed_ms(&self) -> u64 {
        (Instant::now() - self.start).as_millis() as u64
    }

    fn ms_of(&self, t: Instant) -> i64 {
        if t >= self.start { (t - self.start).as_millis() as i64 } else { -((self.start - t).as_millis() as i64) }
    }

    fn fault(&mut self, k: &'static str) {
        self.faults += 1;
        self.out.stats.bump(k);
    }

    async fn apply(&mut self, op: &Op) {
        match op {
            Op::Advance { ms } => self.advance(Duration::from_millis(*ms as u64)).await,
            Op::TrySend { epoch, size, ack_eliciting, in_flight, pn_skip, fate } => {
                let e = (*epoch as usize).min(2);
                // a packet that is ack-eliciting is always in flight (qbase::packet: both flags derive from the frames)
                let inf = *in_flight || *ack_eliciting;
                self.try_send(e, (*size as usize).clamp(20, MSS), *ack_eliciting, inf, *pn_skip as u64, *fate, false);
            }
            Op::PeerAck { epoch, skip_newest, max_ranges, thin, delay, ce, lost } => {
                self.peer_ack((*epoch as usize).min(2), *skip_newest as usize, *max_ranges as usize, *thin as u64, *delay, *ce, *lost)
            }
            Op::PktRcvd { epoch, ack_eliciting } => {
                let e = (*epoch as usize).min(2);
                // Path::on_packet_rcvd: the limit flag is released before the controller hears about the packet
                self.status.release_anti_amplification_limit();
                self.aa_limited = false;
                let pn = self.spaces[e].rcvd_pn;
                self.spaces[e].rcvd_pn += 1;
                self.cc.on_pkt_rcvd(ep(e), pn, *ack_eliciting);
                self.after(Kind::Rcvd, &[], None);
                self.auto_probe();
            }
            Op::HandshakeKey => {
                if !self.have_hk {
                    self.hs.got_handshake_key();
                    self.have_hk = true;
                    self.out.stats.bump("phase.handshake_key");
                }
            }
            Op::Confirmed => {
                if !self.confirmed {
                    // handshake.rs: inform_cc.handshake_confirmed(); paths.discard_initial_and_handshake_space()
                    self.hs.got_handshake_key();
                    self.have_hk = true;
                    self.hs.handshake_confirmed();
                    self.confirmed = true;
                    self.out.stats.bump("phase.confirmed");
                    for e in 0..2 {
                        self.discard(e);
                    }
                }
            }
            Op::AaGrant => {
                self.cc.grant_anti_amplification();
                self.granted = true;
                self.aa_limited = false;
                self.out.stats.bump("phase.aa_granted");
            }
            Op::AaEnter => {
                if !self.granted {
                    self.status.enter_anti_amplification_limit();
                    self.aa_limited = true;
                    self.out.stats.bump("phase.aa_entered");
                }
            }
            Op::DiscardEpoch { epoch } => {
                let e = (*epoch as usize).min(1);
                self.discard(e);
            }
        }
    }

    fn discard(&mut self, e: usize) {
        self.pto_reset_ok = true;
        if e == 0 {
            self.initial_discarded_once = true;
        }
        self.cc.discard_epoch(ep(e));
        self.model_discard(e);
        self.out.stats.bump("probe.epoch_discarded");
        self.after(Kind::Discard, &[], None);
    }

    fn model_discard(&mut self, e: usize) {
        let gone: usize = self.spaces[e].pkts.values().filter(|p| p.inf && p.st == St::Out).map(|p| p.size).sum();
        self.model_sum -= gone;
        let sp = &mut self.spaces[e];
        sp.pkts.clear();
        sp.arrivals.clear();
        sp.discarded = true;
    }

    async fn advance(&mut self, d: Duration) {
        let target = Instant::now() + d;
        while self.next_tick <= target && !self.abandoned {
            let now = Instant::now();
            if self.next_tick > now {
                tokio::time::advance(self.next_tick - now).await;
            }
            self.tick();
            self.next_tick += TICK;
        }
        let now = Instant::now();
        if target > now && !self.abandoned {
            tokio::time::advance(target - now).await;
        }
    }

    fn tick(&mut self) {
        let now = Instant::now();
        let due = self.snap.loss_detection_timer.is_some_and(|t| t <= now);
        if !due {
            // nothing but the pacer can change; take the full snapshot only now and then
            let r = self.cc.do_tick();
            if r.is_err() {
                self.out.violate("c-pto-backoff", "abandoned-without-timeout", "do_tick returned TooManyPtos although no timer was due", self.elapsed_ms());
                self.abandoned = true;
            }
            self.idle_ticks += 1;
            if self.idle_ticks % 16 == 0 || !self.log.lock().unwrap().is_empty() {
                self.after(Kind::Tick, &[], None);
            }
            self.auto_probe();
            return;
        }
        let pto_pre: [Duration; 3] = [self.cc.get_pto(ep(0)), self.cc.get_pto(ep(1)), self.cc.get_pto(ep(2))];
        let pre_count = self.snap.pto_count;
        let pre_need: usize = self.snap.need_send_ack_eliciting.iter().sum();
        let pre_rtt = (self.snap.smoothed_rtt, self.snap.rttvar);
        let r = self.cc.do_tick();
        self.after(Kind::Tick, &[], None);
        let at = self.elapsed_ms();
        let post_need: usize = self.snap.need_send_ack_eliciting.iter().sum();
        if self.snap.pto_count > pre_count || post_need > pre_need {
            self.out.stats.bump("probe.pto_fired");
            if post_need <= pre_need {
                self.out.violate(
                    "c-orphan-in-flight",
                    "pto-fired-without-probe",
                    format!("pto_count {}→{} but no ack-eliciting probe was requested", pre_count, self.snap.pto_count),
                    at,
                );
            }
            if pre_rtt == (self.snap.smoothed_rtt, self.snap.rttvar) {
                let mut ok = true;
                for e in 0..3 {
                    let post = self.cc.get_pto(ep(e));
                    let want = pto_pre[e] * 2;
                    let diff = if post > want { post - want } else { want - post };
                    if diff > Duration::from_micros(2) {
                        ok = false;
                        self.out.violate(
                            "c-pto-backoff",
                            if post <= pto_pre[e] + Duration::from_micros(2) { "period-not-increased" } else { "period-not-doubled" },
                            format!(
                                "PTO period of epoch {e} went {:?} → {:?} when pto_count went {}→{} (RFC 9002 §6.2.1: twice the current value = {:?}); srtt={:?} rttvar={:?}",
                                pto_pre[e], post, pre_count, self.snap.pto_count, want, self.snap.smoothed_rtt, self.snap.rttvar
                            ),
                            at,
                        );
                    }
                }
                if ok {
                    self.out.stats.bump("probe.pto_backoff_doubled");
                } else {
                    self.out.stats.bump("probe.pto_backoff_not_doubled");
                }
            }
            if self.snap.pto_count >= 10 && r.is_ok() {
                self.out.violate("c-pto-backoff", "never-abandoned", format!("pto_count={} and the path is still driven", self.snap.pto_count), at);
            }
        }
        if r.is_err() {
            self.out.stats.bump("probe.too_many_ptos");
            self.abandoned = true;
            return;
        }
        self.auto_probe();
    }

    fn sendable(&self, e: usize) -> bool {
        if self.spaces[e].discarded {
            return false;
        }
        match e {
            1 => self.have_hk,
            2 => self.have_hk || !self.case.server,
            _ => true,
        }
    }

    /// `Burst::load_ping`: one PING packet per datagram while the controller asks for ack-eliciting packets
    fn auto_probe(&mut self) {
        if !self.case.auto_probe || self.abandoned {
            return;
        }
        for e in [2usize, 1, 0] {
            let mut guard = 0;
            while guard < 4 && self.cc.need_send_ack_eliciting(ep(e)) > 0 {
                if !self.sendable(e) {
                    self.out.stats.bump("probe.probe_epoch_unsendable");
                    break;
                }
                let fate = if self.case.probe_fates.is_empty() {
                    Fate::Blackhole
                } else {
                    self.case.probe_fates[self.probe_ord % self.case.probe_fates.len()]
                };
                if !self.try_send(e, MSS, true, true, 0, fate, true) {
                    break;
                }
                self.probe_ord += 1;
                self.out.stats.bump("probe.pto_probe_sent");
                guard += 1;
            }
        }
    }

    #[allow(clippy::too_many_arguments)]
    fn try_send(&mut self, e: usize, size: usize, ae: bool, inf: bool, pn_skip: u64, fate: Fate, is_probe: bool) -> bool {
        if !self.sendable(e) {
            self.out.stats.bump("skipped.epoch_unsendable");
            return false;
        }
        if self.aa_limited {
            // Burst: `anti_amplifier.balance()?` refuses before anything is assembled
            self.out.stats.bump("skipped.aa_limited");
            return false;
        }
        let now = Instant::now();
        let quota = match self.cc.send_quota() {
            Ok(q) => q,
            Err(_) => {
                self.out.stats.bump("probe.quota_blocked");
                return false;
            }
        };
        let size = size.min(quota);
        // (h) admission
        let over = self.snap.bytes_in_flight >= self.snap.cwnd;
        let need_pre = self.snap.need_send_ack_eliciting[e];
        if over && inf && need_pre == 0 && !is_probe {
            self.admitted_over += size;
            if let Some(since) = self.over_since {
                let allowance = (10 * MSS).max(self.snap.cwnd);
                if now - since > TICK && self.admitted_over > allowance && quota >= MSS {
                    self.out.stats.bump("probe.admitted_over_window");
                    self.out.violate(
                        "h-admission",
                        "full-datagram-while-over-window",
                        format!(
                            "send_quota()={} admitted a full datagram with bytes_in_flight={} >= cwnd={} for {:?}; {} bytes already added while over the window",
                            quota,
                            self.snap.bytes_in_flight,
                            self.snap.cwnd,
                            now - since,
                            self.admitted_over
                        ),
                        self.elapsed_ms(),
                    );
                }
            }
        }
        let sp = &mut self.spaces[e];
        let pn = sp.next_pn + pn_skip;
        sp.next_pn = pn + 1;
        // PacketSpace::new_packet reads the retransmit/expire times for every packet it starts
        let _ = self.cc.retransmit_and_expire_time(ep(e));
        self.cc.on_pkt_sent(ep(e), pn, ae, size, inf, None);
        self.sent += 1;
        self.spaces[e].pkts.insert(pn, Pkt { t_sent: now, size, ae, inf, st: St::Out, was_lost: false, probed: false });
        if inf {
            self.model_sum += size;
        }
        match fate {
            Fate::Deliver { ms } => {
                let at = now + Duration::from_millis(ms as u64);
                let sp = &mut self.spaces[e];
                if sp.max_arrival.is_some_and(|m| at < m) {
                    self.faults += 1;
                    self.out.stats.bump("fault.reordered_delivery");
                }
                let sp = &mut self.spaces[e];
                sp.max_arrival = Some(sp.max_arrival.map_or(at, |m| m.max(at)));
                sp.arrivals.insert(pn, at);
                if ms > 0 {
                    self.out.stats.bump("fault.delay");
                }
            }
            Fate::Drop => self.fault("fault.drop"),
            Fate::Blackhole => self.fault("fault.blackhole"),
        }
        if e == 1 && !self.case.server {
            // ArcCC::on_pkt_sent: a client that sends a Handshake packet abandons the Initial space
            // (RFC 9001 §4.9.1: once, when it first sends a Handshake packet)
            if !self.initial_discarded_once {
                self.initial_discarded_once = true;
                self.pto_reset_ok = true;
            } else {
                self.repeated_discard = true;
            }
            self.model_discard(0);
        }
        self.after(Kind::Send, &[], None);
        true
    }

    #[allow(clippy::too_many_arguments)]
    fn peer_ack(&mut self, e: usize, skip_newest: usize, max_ranges: usize, thin: u64, delay: AckDelay, ce: Option<u32>, lost: bool) {
        let now = Instant::now();
        if self.spaces[e].discarded {
            self.out.stats.bump("skipped.ack_discarded_epoch");
            return;
        }
        let sp = &mut self.spaces[e];
        let mut pns: Vec<u64> = sp.arrivals.iter().filter(|(_, t)| **t <= now).map(|(p, _)| *p).collect();
        if skip_newest > 0 {
            let keep = pns.len().saturating_sub(skip_newest);
            pns.truncate(keep);
        }
        if thin >= 2 {
            pns.retain(|p| p % thin != thin - 1);
        }
        let Some(&largest) = pns.last() else {
            self.out.stats.bump("skipped.ack_nothing_arrived");
            return;
        };
        pns.retain(|p| *p + 2000 >= largest);
        // ranges, descending
        let mut ranges: Vec<(u64, u64)> = Vec::new(); // (hi, lo)
        for &p in pns.iter().rev() {
            match ranges.last_mut() {
                Some((_, lo)) if *lo == p + 1 => *lo = p,
                _ => ranges.push((p, p)),
            }
        }
        if max_ranges > 0 && ranges.len() > max_ranges {
            ranges.truncate(max_ranges);
            self.out.stats.bump("fault.ack_range_limited");
        }
        if ranges.len() > 64 {
            ranges.truncate(64);
        }
        if let Some(n) = ce {
            sp.ce += n as u64;
        }
        let ce_total = sp.ce;
        let held = now - sp.arrivals[&largest];
        let delay_us = match delay {
            AckDelay::Truthful => held.as_micros() as u64,
            AckDelay::Us(us) => us as u64,
        };
        if lost {
            self.fault("fault.ack_loss");
            return;
        }
        if skip_newest > 0 {
            self.fault("fault.ack_reordered");
        }
        if thin >= 2 {
            self.fault("fault.ack_gaps");
        }
        if Duration::from_micros(delay_us) > self.mad {
            self.fault("fault.ack_delay_beyond_max");
        }
        if ce.is_some() {
            self.fault("fault.ecn_ce");
        }
        let rest: Vec<(VarInt, VarInt)> =
            ranges.windows(2).map(|w| (vi(w[0].1 - w[1].0 - 2), vi(w[1].0 - w[1].1))).collect();
        let ecn = if ce.is_some() || ce_total > 0 { Some(EcnCounts::new(vi(pns.len() as u64), vi(0), vi(ce_total))) } else { None };
        let frame = AckFrame::new(vi(largest), vi(delay_us), vi(ranges[0].0 - ranges[0].1), rest, ecn);

        // ---- reference model: OnAckReceived up to the loss detection
        let sp = &mut self.spaces[e];
        sp.largest_acked = Some(sp.largest_acked.map_or(largest, |l| l.max(largest)));
        let mut newly: Vec<(u64, Instant, bool, bool, bool)> = Vec::new(); // pn, t_sent, ae, inf, was_lost
        let mut acked_bytes = 0usize;
        for (hi, lo) in &ranges {
            for (pn, p) in sp.pkts.range_mut(*lo..=*hi) {
                if p.st != St::Acked {
                    newly.push((*pn, p.t_sent, p.ae, p.inf, p.st == St::Lost));
                    if p.st == St::Out && p.inf {
                        acked_bytes += p.size;
                    }
                    if p.st == St::Lost {
                        p.was_lost = true;
                    }
                    p.st = St::Acked;
                }
            }
        }
        self.model_sum -= acked_bytes;
        let mut ce_trigger = None;
        if !newly.is_empty() {
            // OnAckReceived resets pto_count (if the peer has validated the address)
            self.pto_reset_ok = true;
            self.acked += newly.len() as u64;
            let big = newly.iter().max_by_key(|n| n.0).unwrap();
            let clean_ae = newly.iter().any(|n| n.2 && !n.4);
            let dirty_ae = newly.iter().any(|n| n.2 && n.4);
            if big.0 == largest {
                if big.4 || (!clean_ae && dirty_ae) {
                    // whether the code still remembers a packet it declared lost depends on its queue: unknown sample
                    self.latest_rtt = None;
                } else if clean_ae {
                    self.latest_rtt = Some(now - big.1);
                    if self.first_sample.is_none() {
                        self.first_sample = Some(now);
                    }
                    self.out.stats.bump("probe.rtt_sample");
                }
            }
            if newly.iter().any(|n| n.4) {
                self.out.stats.bump("probe.ack_of_declared_lost");
            }
            // ProcessECN runs only when something was newly acknowledged; whether an ACK that only covers packets the
            // controller already declared lost counts depends on its queue, so the processed count is a lower bound
            if ecn.is_some() && ce_total > self.spaces[e].ce_seen {
                ce_trigger = Some(big.1);
                if newly.iter().any(|n| !n.4) {
                    self.spaces[e].ce_seen = ce_total;
                }
            }
        }
        // ---- the real call, in the order of space/{initial,handshake,data}.rs
        self.cc.on_ack_rcvd(ep(e), &frame);
        if e == 1 {
            self.hs.received_handshake_ack();
            if self.case.server {
                // ArcCC::on_ack_rcvd: a server that gets a Handshake ACK abandons the Initial space
                if !self.initial_discarded_once {
                    self.initial_discarded_once = true;
                    self.pto_reset_ok = true;
                } else {
                    self.repeated_discard = true;
                }
                self.model_discard(0);
            }
        }
        self.out.stats.bump("probe.ack_delivered");
        self.after(Kind::Ack, &newly, ce_trigger);
    }

    /// Judge everything observable after one call into the controller.
    fn after(&mut self, kind: Kind, newly: &[(u64, Instant, bool, bool, bool)], ce_trigger: Option<Instant>) {
        let now = Instant::now();
        let at = self.elapsed_ms();
        let pre = self.snap.clone();
        let post = Rc::new(self.cc.verif_snapshot());
        self.snap = post.clone();
        let mut lost: Vec<(usize, u64, bool)> =
            std::mem::take(&mut *self.log.lock().unwrap()).into_iter().map(|(e, _, pn)| (e, pn, false)).collect();
        // packets whose state turned "declared lost" without a callback
        for e in 0..3 {
            for (pn, _, _, _, _, state) in &post.sent[e] {
                if *state == 2 {
                    if let Some(p) = self.spaces[e].pkts.get(pn) {
                        if p.st == St::Out && !lost.iter().any(|l| l.0 == e && l.1 == *pn) {
                            lost.push((e, *pn, true));
                        }
                    }
                }
            }
        }

        // ---- (a), (b)
        let srtt_lo = pre.smoothed_rtt.min(post.smoothed_rtt);
        let mut lost_inflight_latest: Option<Instant> = None;
        let mut lost_pkts: Vec<(usize, u64, Instant, bool)> = Vec::new();
        for (e, pn, silent) in &lost {
            let (e, pn) = (*e, *pn);
            let la = self.spaces[e].largest_acked;
            let Some(p) = self.spaces[e].pkts.get_mut(&pn) else {
                self.out.stats.bump("probe.loss_report_unknown_pn");
                continue;
            };
            let sfx = if *silent { ":silent" } else { "" };
            if p.st == St::Acked {
                self.out.violate(
                    "b-acked-declared-lost",
                    format!("{}{}", kind.name(), sfx),
                    format!("epoch {e} pn {pn} was acknowledged and is now declared lost"),
                    at,
                );
                continue;
            }
            if p.st == St::Lost {
                self.out.stats.bump("probe.loss_reported_twice");
                continue;
            }
            let age = now - p.t_sent;
            match la {
                Some(la) if la > pn => {
                    if pn + 3 <= la {
                        self.out.stats.bump("probe.packet_threshold_loss");
                    } else {
                        // time threshold: 9/8 * max(smoothed_rtt, latest_rtt), at least the timer granularity
                        let latest_lo = self.latest_rtt.unwrap_or(Duration::ZERO);
                        let need = (srtt_lo.max(latest_lo) * 9 / 8).max(GRANULARITY);
                        let tol = need / 500 + Duration::from_micros(2);
                        if age + tol < need {
                            self.out.violate(
                                "a-loss-threshold",
                                format!("{}{}", kind.name(), sfx),
                                format!(
                                    "epoch {e} pn {pn} declared lost: largest_acked={la} (fewer than 3 newer), sent {:?} ago < time threshold {:?} (srtt {:?}, latest_rtt {:?})",
                                    age, need, srtt_lo, latest_lo
                                ),
                                at,
                            );
                        } else {
                            self.out.stats.bump("probe.time_threshold_loss");
                        }
                    }
                }
                _ => {
                    let why = if la.is_none() { "no-ack-in-space" } else { "not-older-than-largest-acked" };
                    self.out.stats.bump("probe.loss_without_later_ack");
                    self.out.violate(
                        "a-loss-needs-later-ack",
                        format!("{}:{}{}", kind.name(), why, sfx),
                        format!(
                            "epoch {e} pn {pn} (sent {:?} ago) declared lost while largest acknowledged in that space is {:?}",
                            age, la
                        ),
                        at,
                    );
                }
            }
            p.st = St::Lost;
            if p.inf {
                self.model_sum -= p.size;
                lost_inflight_latest = Some(lost_inflight_latest.map_or(p.t_sent, |t| t.max(p.t_sent)));
            }
            lost_pkts.push((e, pn, p.t_sent, p.ae));
        }

        // ---- (c) bookkeeping: a requested probe covers everything outstanding
        if post.need_send_ack_eliciting.iter().any(|n| *n > 0) {
            for sp in self.spaces.iter_mut() {
                for p in sp.pkts.values_mut() {
                    if p.st == St::Out && p.ae {
                        p.probed = true;
                    }
                }
            }
        }

        // ---- (c) the back-off is only reset by an acknowledgement or by discarding keys
        if post.pto_count < pre.pto_count && !self.pto_reset_ok {
            self.out.stats.bump("probe.pto_backoff_reset_without_cause");
            self.out.violate(
                "c-pto-backoff",
                if self.repeated_discard { "backoff-reset:initial-space-discarded-again".to_string() } else { format!("backoff-reset:{}", kind.name()) },
                format!(
                    "pto_count {} → {} although nothing was newly acknowledged and no packet number space was discarded for the first time",
                    pre.pto_count, post.pto_count
                ),
                at,
            );
        }
        self.pto_reset_ok = false;
        self.repeated_discard = false;

        // ---- (d)
        if post.cwnd < 2 * MSS && pre.cwnd >= 2 * MSS {
            self.out.violate("d-min-window", kind.name(), format!("cwnd={} < 2*{}", post.cwnd, MSS), at);
        }

        // ---- (e), (f)
        let reduction_event = post.recovery_start != pre.recovery_start || post.ssthresh != pre.ssthresh;
        if reduction_event {
            if post.recovery_start.is_some() && post.recovery_start != pre.recovery_start {
                self.out.stats.bump("probe.recovery_entered");
            }
            if pre.ssthresh == usize::MAX {
                self.out.stats.bump("probe.slow_start_exit");
            }
            let code_persistent = post.recovery_start.is_none();
            if code_persistent {
                self.out.stats.bump("probe.persistent_congestion");
            }
            let rfc_pc = self.rfc_persistent_congestion(&lost_pkts, &post);
            if rfc_pc {
                self.out.stats.bump("probe.rfc_persistent_congestion");
            }
            let trigger = match (lost_inflight_latest, ce_trigger) {
                (Some(a), Some(b)) => Some(a.max(b)),
                (a, b) => a.or(b),
            };
            if ce_trigger.is_some() && lost_inflight_latest.is_none() {
                self.out.stats.bump("probe.ecn_reduction");
            }
            let shrank = post.cwnd < pre.cwnd;
            let mut legit = true;
            match trigger {
                None => {
                    if shrank {
                        legit = false;
                        if lost_pkts.is_empty() {
                            self.out.violate(
                                "e-double-reduction",
                                format!("no-loss-or-ecn:{}", kind.name()),
                                format!("cwnd {} → {} with no packet lost and no new ECN-CE mark", pre.cwnd, post.cwnd),
                                at,
                            );
                        } else {
                            self.out.violate(
                                "e-double-reduction",
                                "only-non-inflight-packets-lost",
                                format!(
                                    "cwnd {} → {} although the {} packets declared lost were not counted in flight (ACK-only packets) and there is no new ECN-CE mark",
                                    pre.cwnd,
                                    post.cwnd,
                                    lost_pkts.len()
                                ),
                                at,
                            );
                        }
                    }
                }
                Some(t) => {
                    if let Some(r) = self.model_r {
                        if t <= r && !rfc_pc {
                            legit = false;
                            if shrank {
                                let site = if code_persistent {
                                    "consecutive-loss-halving-in-recovery"
                                } else if pre.recovery_start.is_none() {
                                    "after-recovery-reset"
                                } else {
                                    "within-recovery"
                                };
                                self.out.violate(
                                    "e-double-reduction",
                                    site,
                                    format!(
                                        "cwnd {} → {} at {} ms although the window was already reduced at {} ms and every lost/marked packet was sent at or before that ({} ms): second reduction in one round trip",
                                        pre.cwnd,
                                        post.cwnd,
                                        at,
                                        self.ms_of(r),
                                        self.ms_of(t)
                                    ),
                                    at,
                                );
                            }
                        }
                    }
                }
            }
            if legit || shrank {
                self.model_r = if rfc_pc { None } else { Some(now) };
            }
        } else if post.cwnd > pre.cwnd {
            if kind != Kind::Ack {
                self.out.violate(
                    "f-growth-in-recovery",
                    format!("not-on-ack:{}", kind.name()),
                    format!("cwnd {} → {} without an acknowledgement", pre.cwnd, post.cwnd),
                    at,
                );
            } else {
                let cands: Vec<&(u64, Instant, bool, bool, bool)> = newly.iter().filter(|n| n.3).collect();
                if cands.is_empty() {
                    self.out.violate(
                        "f-growth-in-recovery",
                        "no-newly-acked",
                        format!("cwnd {} → {} on an ACK that newly acknowledged no in-flight packet", pre.cwnd, post.cwnd),
                        at,
                    );
                } else if let Some(r) = self.model_r {
                    if cands.iter().all(|n| n.1 <= r) {
                        let site = if pre.recovery_start.is_none() { "after-recovery-reset" } else { "in-recovery" };
                        self.out.violate(
                            "f-growth-in-recovery",
                            site,
                            format!(
                                "cwnd {} → {} on an ACK whose newly acknowledged packets were all sent at or before the recovery start ({} ms)",
                                pre.cwnd,
                                post.cwnd,
                                self.ms_of(r)
                            ),
                            at,
                        );
                    } else if post.ssthresh != usize::MAX && pre.cwnd >= post.ssthresh {
                        self.out.stats.bump("probe.congestion_avoidance_growth");
                    }
                } else {
                    self.out.stats.bump("probe.slow_start_growth");
                }
            }
        }

        // ---- (g)
        let model_sum = self.model_sum;
        let delta = post.bytes_in_flight as i64 - model_sum as i64;
        if delta != self.g_delta {
            self.out.violate(
                "g-inflight-accounting",
                kind.name(),
                format!(
                    "bytes_in_flight={} but the in-flight packets still outstanding (not acknowledged, not declared lost, not discarded) add up to {}",
                    post.bytes_in_flight, model_sum
                ),
                at,
            );
            self.g_delta = delta;
        }
        let own_sum: usize = post.sent.iter().flatten().filter(|p| p.3 && p.5 == 0).map(|p| p.4).sum();
        let own_delta = post.bytes_in_flight as i64 - own_sum as i64;
        if own_delta != self.g_own_delta {
            if delta == 0 || own_delta != delta {
                self.out.violate(
                    "g-inflight-accounting",
                    format!("{}:own-list", kind.name()),
                    format!("bytes_in_flight={} but the controller's own list of in-flight packets adds up to {}", post.bytes_in_flight, own_sum),
                    at,
                );
            }
            self.g_own_delta = own_delta;
        }

        // ---- (h) bookkeeping
        if post.bytes_in_flight >= post.cwnd {
            if self.over_since.is_none() {
                self.over_since = Some(now);
                self.admitted_over = 0;
                self.out.stats.bump("probe.window_full");
            }
        } else {
            self.over_since = None;
            self.admitted_over = 0;
        }

        if self.trace {
            eprintln!(
                "[{at:>6} ms] {:<11} cwnd {}→{} ssthresh {} bif {}→{} rec {:?}→{:?} pto_count {} timer {:?} loss_time {:?} need {:?} srtt {:?} rttvar {:?} lost {:?} newly {:?} la {:?}",
                kind.name(),
                pre.cwnd,
                post.cwnd,
                if post.ssthresh == usize::MAX { -1 } else { post.ssthresh as i64 },
                pre.bytes_in_flight,
                post.bytes_in_flight,
                pre.recovery_start.map(|t| self.ms_of(t)),
                post.recovery_start.map(|t| self.ms_of(t)),
                post.pto_count,
                post.loss_detection_timer.map(|t| self.ms_of(t)),
                post.loss_time.map(|t| t.map(|t| self.ms_of(t))),
                post.need_send_ack_eliciting,
                post.smoothed_rtt,
                post.rttvar,
                lost,
                newly.iter().map(|n| (n.0, self.ms_of(n.1), n.4)).collect::<Vec<_>>(),
                post.largest_acked,
            );
        }
        // ---- trace
        self.th.add(kind as u64);
        self.th.add(at);
        self.th.add(post.cwnd as u64);
        self.th.add(post.bytes_in_flight as u64);
        self.th.add(post.pto_count as u64);
        self.th.add(post.loss_detection_timer.map_or(u64::MAX, |t| self.ms_of(t) as u64));
        for (e, pn, _) in &lost {
            self.th.add(((*e as u64) << 56) | *pn);
        }
    }

    /// RFC 9002 §7.6: the lost packets of one detection span more than the persistent congestion duration,
    /// both ends ack-eliciting and sent after the first RTT sample, nothing in between acknowledged.
    fn rfc_persistent_congestion(&self, lost: &[(usize, u64, Instant, bool)], post: &VerifCcSnapshot) -> bool {
        let Some(first) = self.first_sample else { return false };
        let dur = (post.smoothed_rtt + (4 * post.rttvar).max(GRANULARITY) + self.mad) * 3;
        for e in 0..3 {
            let el: Vec<&(usize, u64, Instant, bool)> = lost.iter().filter(|l| l.0 == e && l.3 && l.2 > first).collect();
            if el.len() < 2 {
                continue;
            }
            let lo = el.iter().min_by_key(|l| l.1).unwrap();
            let hi = el.iter().max_by_key(|l| l.1).unwrap();
            if hi.2 > lo.2 && hi.2 - lo.2 > dur {
                let acked_between = self.spaces[e].pkts.range(lo.1..=hi.1).any(|(_, p)| p.st == St::Acked);
                if !acked_between {
                    return true;
                }
            }
        }
        false
    }

    fn unresolved(&self) -> Vec<(usize, u64)> {
        let mut v = Vec::new();
        for e in 0..3 {
            for (pn, p) in &self.spaces[e].pkts {
                if p.st == St::Out && p.ae && !p.probed {
                    v.push((e, *pn));
                }
            }
        }
        v
    }

    /// After the last op nothing more is acknowledged: every ack-eliciting packet still in flight must be
    /// declared lost or probed by a PTO (or the path abandoned) within a bounded time.
    async fn drain(&mut self) {
        self.after(Kind::Tick, &[], None);
        let exempt_aa = self.aa_limited;
        let judged = |s: &Self| -> Vec<(usize, u64)> {
            s.unresolved().into_iter().filter(|(e, _)| !(*e == 2 && !s.confirmed) && !exempt_aa).collect()
        };
        if !self.unresolved().is_empty() && judged(self).is_empty() {
            self.out.stats.bump("probe.orphan_check_exempt");
        }
        // the loss timer may legitimately be far away (large RTT samples, PTO back-off): wait for it, inside the
        // 120 s bound of a case; without a timer nothing can ever happen any more
        let t0 = Instant::now();
        let deadline = self.start + Duration::from_secs(119);
        while !self.abandoned && Instant::now() < deadline && !judged(self).is_empty() {
            if self.snap.loss_detection_timer.is_none() && self.snap.need_send_ack_eliciting.iter().all(|n| *n == 0) {
                break;
            }
            self.advance(TICK).await;
        }
        let budget = Instant::now() - t0;
        if self.abandoned {
            return;
        }
        self.after(Kind::Tick, &[], None);
        let left = judged(self);
        if !left.is_empty() && Instant::now() >= deadline && self.snap.loss_detection_timer.is_some() {
            self.out.stats.bump("probe.orphan_check_inconclusive");
        } else if let Some((e, pn)) = left.first() {
            let p = &self.spaces[*e].pkts[pn];
            let site = format!("{}:{}", ["initial", "handshake", "data"][*e], if self.snap.loss_detection_timer.is_none() { "no-timer" } else { "timer-armed" });
            self.out.violate(
                "c-orphan-in-flight",
                site,
                format!(
                    "epoch {e} pn {pn} (ack-eliciting, sent at {} ms) was neither acknowledged, declared lost nor followed by a PTO probe {:?} after the last event; {} such packets; timer={:?} pto_count={}",
                    self.ms_of(p.t_sent),
                    budget,
                    left.len(),
                    self.snap.loss_detection_timer.map(|t| self.ms_of(t)),
                    self.snap.pto_count
                ),
                self.elapsed_ms(),
            );
        } else {
            self.out.stats.bump("probe.drain_resolved");
        }
    }

    fn finish(mut self) -> Outcome {
        self.out.stats.add("sim.packets_sent", self.sent);
        self.out.stats.add("sim.packets_acked", self.acked);
        self.out.trace_hash = self.th.get();
        self.out.nontrivial = self.faults > 0 && self.acked > 0;
        self.out.sim_seconds = (Instant::now() - self.start).as_secs_f64();
        self.out
    }
}
