//! Stand-alone runner.
//! `run [N]`                 — N seeded cases (default 5000); exit code 1 if anything was reported
//! `run --replay <file>...`  — re-execute the `case` of replay files (or bare case files) and print the violations
//! `run --determinism N`     — execute N seeded cases twice and compare trace hash, verdict and counters
//! `run --hashes N`          — print `seed hash verdict` lines (diff the output of two processes)
use std::time::Instant;

#[global_allocator]
static A: simcore::alloc::CountingAlloc = simcore::alloc::CountingAlloc;

fn ctx() -> simcore::Ctx {
    simcore::Ctx {
        prop: "C13".to_string(),
        tier: simcore::Tier::Quick,
        root_seed: std::env::var("VERIF_SEED").ok().and_then(|s| s.parse().ok()).unwrap_or(1),
        threads: std::env::var("VERIF_THREADS").ok().and_then(|s| s.parse().ok()).unwrap_or(8),
        known: Default::default(),
        replay_dir: "/var/tmp/selftest-replays".to_string(),
        started: Instant::now(),
    }
}

fn main() {
    let args: Vec<String> = std::env::args().skip(1).collect();
    match args.first().map(|s| s.as_str()) {
        Some("--replay") | Some("replay") => {
            let mut bad = 0;
            for f in &args[1..] {
                let text = std::fs::read_to_string(f).expect("read replay file");
                let v: serde_json::Value = serde_json::from_str(&text).expect("json");
                let case_v = if v.get("case").is_some() { v["case"].clone() } else { v.clone() };
                let case: ccsim::Case = serde_json::from_value(case_v).expect("case");
                let out = simcore::engine::execute_case(&ccsim::CcSim, &case, v["run_seed"].as_u64().unwrap_or(0));
                println!("{f}: trace {:016x} harness_error={:?} ops={}", out.trace_hash, out.harness_error, case.ops.len());
                for x in &out.violations {
                    println!("  {} — {} (at {} ms)", x.signature(), x.detail, x.at);
                }
                if out.violations.is_empty() {
                    println!("  no violation");
                }
                if std::env::var("CCSIM_STATS").is_ok() {
                    println!("  counters {:?}", out.stats.0);
                }
                if let Some(want) = v["violation"]["signature"].as_str() {
                    if !out.violations.iter().any(|x| x.signature() == want) {
                        println!("  NOT REPRODUCED: wanted {want}");
                        bad += 1;
                    }
                }
            }
            std::process::exit(if bad > 0 { 2 } else { 0 });
        }
        Some("--determinism") => {
            let n: u64 = args.get(1).and_then(|s| s.parse().ok()).unwrap_or(500);
            let bad = simcore::engine::determinism_check(&ctx(), &ccsim::CcSim, n);
            for (seed, what) in &bad {
                println!("NONDETERMINISTIC seed={seed} {what}");
            }
            println!("determinism: {n} cases executed twice, {} differ", bad.len());
            std::process::exit(if bad.is_empty() { 0 } else { 2 });
        }
        Some("--hashes") => {
            let n: u64 = args.get(1).and_then(|s| s.parse().ok()).unwrap_or(200);
            simcore::engine::print_hashes(&ctx(), &ccsim::CcSim, n);
        }
        _ => {
            let runs: u64 = args.first().and_then(|s| s.parse().ok()).unwrap_or(5000);
            let t0 = Instant::now();
            let n = simcore::selftest::run(&ccsim::CcSim, "C13", runs, simcore::Tier::Quick);
            println!("wall {:.1}s", t0.elapsed().as_secs_f64());
            if n > 0 {
                std::process::exit(1);
            }
        }
    }
}
