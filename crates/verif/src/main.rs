//! `verif <ID> [--tier quick|thorough] [--replay FILE] [--runs-scale F]`
use std::time::Instant;

use simcore::{
    Ctx, Engine, Report, Tier,
    engine::{replay_case, run_part},
    known::Known,
};

#[global_allocator]
static ALLOC: simcore::alloc::CountingAlloc = simcore::alloc::CountingAlloc;

struct Args {
    prop: String,
    tier: Tier,
    replay: Option<String>,
    scale: f64,
    run_seed: Option<u64>,
    determinism: Option<u64>,
    hashes: Option<u64>,
}

fn parse_args() -> Args {
    let mut it = std::env::args().skip(1);
    let mut a = Args {
        prop: String::new(),
        tier: match std::env::var("VERIF_TIER").as_deref() {
            Ok("thorough") => Tier::Thorough,
            _ => Tier::Quick,
        },
        replay: None,
        scale: 1.0,
        run_seed: None,
        determinism: None,
        hashes: None,
    };
    while let Some(x) = it.next() {
        match x.as_str() {
            "--tier" => {
                a.tier = match it.next().as_deref() {
                    Some("thorough") => Tier::Thorough,
                    Some("quick") => Tier::Quick,
                    o => die(&format!("bad tier {o:?}")),
                }
            }
            "--replay" => a.replay = it.next(),
            "--hashes" => a.hashes = it.next().and_then(|s| s.parse().ok()),
            "--determinism" => a.determinism = it.next().and_then(|s| s.parse().ok()),
            "--run-seed" => a.run_seed = it.next().and_then(|s| s.parse().ok()),
            "--runs-scale" => a.scale = it.next().and_then(|s| s.parse().ok()).unwrap_or(1.0),
            s if a.prop.is_empty() => a.prop = s.to_string(),
            s => die(&format!("unexpected argument {s}")),
        }
    }
    if a.prop.is_empty() {
        die("usage: verif <ID> [--tier quick|thorough] [--replay FILE]");
    }
    a
}

fn die(msg: &str) -> ! {
    eprintln!("harness error: {msg}");
    std::process::exit(2)
}

/// What a property's check consists of: a list of engine parts with their run budgets.
struct Plan<'a> {
    ctx: &'a Ctx,
    report: Report,
    replay: Option<&'a serde_json::Value>,
    replay_result: Option<Result<(bool, Vec<String>), String>>,
    scale: f64,
    run_seed: Option<u64>,
    determinism: Option<u64>,
    hashes: Option<u64>,
    det_bad: usize,
    assumptions: Vec<&'static str>,
}

impl Plan<'_> {
    fn part<E: Engine>(&mut self, eng: E, quick: u64, thorough: u64, rule: &str) {
        if let Some(n) = self.hashes {
            simcore::engine::print_hashes(self.ctx, &eng, n);
            return;
        }
        if let Some(n) = self.determinism {
            let bad = simcore::engine::determinism_check(self.ctx, &eng, n);
            println!("determinism[{}]: {} seeds x2, {} differ", eng.name(), n, bad.len());
            for (seed, what) in bad.iter().take(10) {
                println!("  seed {seed}: {what}");
            }
            self.det_bad += bad.len();
            return;
        }
        if let Some(seed) = self.run_seed {
            // debugging aid: execute the case of one run seed twice and print what happened
            let case = eng.generate(0, seed, self.ctx.tier);
            println!("case: {}", serde_json::to_string(&eng.sample(&case)).unwrap());
            for k in 0..2 {
                let t = Instant::now();
                let out = simcore::engine::execute_case(&eng, &case, seed);
                println!("exec {k}: hash={:016x} nontrivial={} sim_s={:.3} wall_ms={} violations={:?} harness_error={:?}", out.trace_hash, out.nontrivial, out.sim_seconds, t.elapsed().as_millis(), out.violations.iter().map(|v| format!("{} — {}", v.signature(), v.detail)).collect::<Vec<_>>(), out.harness_error);
                println!("   stats={:?}", out.stats.0);
            }
            return;
        }
        if let Some(file) = self.replay {
            if file["engine"].as_str() == Some(eng.name()) {
                self.replay_result = Some(replay_case(&eng, file));
            }
            return;
        }
        let runs = match self.ctx.tier {
            Tier::Quick => quick,
            Tier::Thorough => thorough,
        };
        let runs = ((runs as f64) * self.scale).ceil() as u64;
        self.report.rules.push(format!("[{}] {}", eng.name(), rule));
        run_part(self.ctx, &eng, runs, &mut self.report);
    }
}

fn plan(p: &mut Plan<'_>) {
    match p.ctx.prop.as_str() {
        "C08" => {
            let k = if p.ctx.tier == Tier::Quick { 3 } else { 4 };
            let n = bufsim::recv::RecvBufSim::exhaustive_size(k);
            p.report.exhaustive_notes.push(format!(
                "bufsim-recv-exhaustive: all sequences of {k} fragments (every (offset,len) inside a 5-byte stream, 21 choices) each followed by one of 5 read actions: {n} cases, enumerated completely"
            ));
            p.part(bufsim::recv::RecvBufSim { exhaustive: true }, n, n, "complete enumeration of short fragment/read histories over a 5-byte stream; non-trivial = at least one overlapping or duplicate fragment and at least one read; distinct = hash of the (offset,len,read) history");
            p.part(bufsim::recv::RecvBufSim { exhaustive: false }, 300_000, 30_000_000, "seeded fragment histories (fresh, duplicate, sub-/super-slice, empty, straddling or below the read cursor, gaps) over content up to 64 KiB interleaved with try_read/try_next; non-trivial = some fragment overlapped already-covered bytes and some read happened; distinct = hash of the op history");
            p.assumptions = vec!["fragments are slices of one underlying byte sequence (the property's precondition)", "the highest offset seen includes the position of an empty fragment (a lone FIN); RFC 9000 4.1 charges flow control with offset + length also for length 0"];
        }
        "C09" => {
            p.part(bufsim::send::SendBufSim, 300_000, 30_000_000, "seeded histories of write/extend/pick_up/ack/loss/resend_flighting with swarm-drawn op weights, then a draining packetiser; ack and loss ranges are picked ranges, sub-ranges, spans or arbitrary ranges below sent(); non-trivial = at least one retransmission was picked; distinct = hash of the op/result history");
            p.part(streamsim::StreamSim { mode: streamsim::Mode::C01 }, 6_000, 600_000, "stream-level share: the buffer as the stream sender drives it (Ready/Send/DataSent/ResetSent states decide which ack and loss reports reach the buffer, FIN handling, window updates): two real DataStreams endpoints exchanging real frames through a drop/duplicate/reorder channel with spurious loss reports and late acks; every byte read equals the byte written at that position, and after the last fault every written byte and the FIN are delivered and flush/shutdown complete (a lost byte that is never offered again shows as a stalled stream); non-trivial = a fault fired and data moved");
            p.assumptions = vec!["ack/loss ranges never cover never-sent bytes (API precondition, debug_assert in BufMap)", "predicate allowance >= 1 (all in-tree callers)", "hook H2 (verif_colours) is a faithful read-only dump"];
        }
        "C07" | "C10" => {
            let clauses = if p.ctx.prop == "C07" { journalsim::C07_CLAUSES } else { journalsim::C10_CLAUSES };
            p.part(journalsim::JournalSim { clauses }, 600_000, 20_000_000, "two-endpoint journal simulation: packet assemblies (built, trivial, abandoned) through drop/dup/reorder channels, receiver ACK generation at drawn capacities, acks / loss reports / fast retransmit / expiry on the virtual clock; non-trivial = some fault fired and packets were received and acknowledged; distinct = hash of the event history");
            if p.ctx.prop == "C07" {
                p.part(netsim::NetSim { mode: netsim::Mode::C07 }, 400, 20_000, "whole-stack share: C02-style client/server runs (loss, duplication, reordering, delay, corruption, black holes, PTO probes, retransmission, closing) with a capturing event log on both endpoints; per connection object and packet-number space the numbers of the packets that leave the endpoint, in assembly order, must strictly increase and never repeat (0-RTT and 1-RTT share a space); non-trivial = a fault fired and the handshake or a stream progressed; distinct = hash of wire + application trace");
            }
            p.assumptions = vec!["frames are u32 tags", "abandonment only before anything is recorded (the only one reachable through PacketWriter)", "gen_ack largest is a received, still tracked packet number", "a packet declared lost whose expiry passed may be forgotten by the journal"];
        }
        "C02" => {
            p.part(netsim::NetSim { mode: netsim::Mode::C02 }, 4000, 60_000, "full client/server runs over SimNet with a seeded fault tape (bounded = survivable, liveness judged; unbounded = safety + bounded failure); non-trivial = a fault fired and the handshake or some stream made progress; distinct = hash of the wire trace and application event trace");
            p.assumptions = vec!["TLS key material is not seeded (Ed25519 chain keeps message sizes fixed)", "single-threaded seeded executor: task order is permuted, polls never run truly concurrently"];
        }
        "C06" => {
            p.part(netsim::NetSim { mode: netsim::Mode::C06 }, 120, 10_000, "whole-stack runs with a capturing qlog on both endpoints and 1..3 FlipSweep faults: for a drawn in-flight datagram the network delivers every single-bit corruption, every truncation, the original and a replay; packet logs of both vantage points are compared; non-trivial = a sweep fired and packets round-tripped; distinct = wire+app trace hash");
            p.part(netsim::protsim::ProtSim, 20_000, 2_000_000, "component run: two endpoints with genuine keys (Initial secrets; Handshake and 1-RTT keys from a real in-memory TLS 1.3 handshake) assemble Initial (token 0..1000 bytes), Handshake and 1-RTT packets with the real PacketWriter for connection ids of 0..20 bytes, payloads from the sampling minimum to a full datagram and whatever packet-number length the encoder picks; key updates by either side when RFC 9001 6.1 allows; the network delays and reorders, drops, truncates, flips single bits (complete sweeps of chosen packets), reflects packets to their sender and presents them under a different packet number; the real receive path must recover every genuine packet whose number is decodable and whose key generation is current, next or previous, bit for bit, and silently discard everything else; non-trivial = a fault fired and a packet was recovered; distinct = hash of the send/receive history");
            p.assumptions = vec!["netsim share: the stack never initiates key updates and always uses 8-byte connection ids, hence the component run", "frame equality in the netsim share is judged on kind and the fields both vantage points log", "component run: 0-RTT keys are not produced; a key generation two or more behind the receiver may be discarded (RFC 9001 6.5)"];
        }
        "C15" => {
            p.part(netsim::NetSim { mode: netsim::Mode::C15 }, 700, 20_000, "whole-stack runs biased to the unvalidated phase: RSA chain (first server flight > 3x1200 bytes), client second-flight loss/truncation/duplication so the server retransmits while unvalidated; the network's per-address byte ledger is checked after every server send until the server first processes a Handshake packet; non-trivial = a fault fired and handshake progressed; distinct = trace hash");
            p.part(netsim::aasim::AaSim, 300_000, 30_000_000, "component run: one real AntiAmplifier<3> with its ArcSendWaker under generated histories of packet arrivals (sizes 0..1452), send bursts of 1..5 datagrams each cut to the credit read for it (bytes fed back per datagram, or per burst as Path::send_packets does), grants, aborts and a send task parking on CREDIT; after every credit read balance() is compared with the signed model 3*received - sent (exact while the contract is kept), an overdrawn burst must not wrap into an unlimited allowance, and a parked task must be woken by arrival / grant / abort; non-trivial = datagrams were sent and more than one packet arrived; distinct = hash of the op/result history");
            p.part(netsim::pathsim::PathSim, 30_000, 3_000_000, "component run: one real qconnection Path over an I/O that swallows what is sent, built as a probed (peer-opened) path: its real validate() task on the paused clock, packet arrivals, sends cut to the credit and charged through Path::send_packets, PATH_RESPONSE frames that echo the outstanding challenge / carry random data / are one bit off, time advancing past the probe timeouts, a send task parked on CREDIT; observed through hook H4; reference: validated iff a matching response arrived while validation ran, credit 3*received - sent until then, unlimited and parked sender woken afterwards; non-trivial = validation started and packets arrived; distinct = hash of the op/validated history");
            p.assumptions = vec!["bytes delivered to the server's socket from the client address are an upper bound of what the server may count as received", "validation instant = the server's first packet_received qlog event of type handshake", "component run: grant and abort are first-one-wins, as the type documents"];
        }
        "C17" => {
            p.part(netsim::NetSim { mode: netsim::Mode::C17 }, 1200, 40_000, "whole-stack runs with a close event at a drawn virtual time (local close, peer close, both in the same millisecond, idle expiry with drawn timeouts incl. 0, path loss by blackhole) while drawn operations are parked (accept, open-until-blocked, datagram recv, handshaked, terminated) and streams are mid-transfer; completion times on the virtual clock, state order and silence after closing from qlog; non-trivial = a close/idle/path-loss event happened with operations parked; distinct = trace hash");
            p.assumptions = vec!["release bound after termination: 1 s + 6 RTT of virtual time", "idle clauses only on fault-free runs; the endpoint terminating first is judged against the negotiated timeout"];
        }
        "C19" => {
            p.part(netsim::NetSim { mode: netsim::Mode::C19 }, 1000, 20_000, "whole-stack runs in which both applications send unreliable datagrams of sizes around the peer's max_datagram_frame_size (0 = disabled, 1, 2, 100, 1200, 65535) under loss or loss-free; refusal rule, payload integrity (no merge/alter), order among delivered, and on loss-free uncongested runs every accepted datagram must reach the peer; non-trivial = datagrams were accepted; distinct = trace hash");
            p.part(streamsim::dgram::DgramSim, 200_000, 6_000_000, "component run: two real DatagramFlows built as the connection builds them; the simulator plays the applications (send / send_bytes of sizes around the peer's limit and the varint boundaries 63/64 and 16383/16384; recv / read / read_buf), the packet assembler (remaining room around the datagram size, other frames loaded first, repeated loading into one packet) and the network (loss, delay) plus a hostile peer (frames at / over the local maximum in both encodings) and connection errors; every packet is decoded by the real FrameReader; reference = FIFO of byte vectors per direction + RFC 9221 size rule; non-trivial = a packet was lost or delayed and a datagram was read; distinct = hash of the op/result history");
            p.assumptions = vec!["RFC 9221: max_datagram_frame_size bounds the whole frame (type, length, payload); the smallest encoding of a payload of n bytes is n+1", "an assembler offering at least payload+9 bytes of room must get the head datagram (any encoding fits); between payload+1 and payload+8 either answer is accepted", "network reordering is modelled as delay: the reader must return datagrams in arrival order"];
        }
        "C20" => {
            p.part(netsim::NetSim { mode: netsim::Mode::C20 }, 250, 6_000, "each seeded whole-stack case (handshake, transfer, loss, close at a drawn time, idle expiry, path loss) is executed seven times under exporter configurations no-op / discard-all / capturing / capturing+raw / filtered / shipped LegacySeqLogger into memory / the same logger into a sink that fails after a seed-drawn number of bytes (short write, then errors); wire and application traces must be identical; every captured event must serialise with the mandatory fields, parse back equal and convert to the legacy form without panicking; non-trivial = faults fired and progress; distinct = trace hash");
            p.assumptions = vec!["event time stamps are wall-clock and excluded from comparisons", "the legacy logger (own writer task, two of the eight configurations) is judged on no-panic and record well-formedness only", "event-builder field-value enumeration is not claimed (input enumeration)"];
        }
        "C18" => {
            p.part(paramsim::ParamSim, 300_000, 30_000_000, "one handshake seen from one endpoint: the peer's transport-parameter extension built id by id from a legal baseline plus 0..3 injections (absent mandatory id, value just beyond a bound, role-inappropriate id, duplicate, unknown/GREASE id, wrong-length / truncated / trailing-byte values, over-long connection ids, lying lengths, cid mismatch, Retry variants), delivered to the real parser and Parameters in both arrival orders with 0..3 waiters, spurious polls and connection errors at drawn points; reference = RFC 9000 tables; non-trivial = at least one injection or waiter interaction; distinct = hash of the op/result history");
            p.assumptions = vec!["reference tables written from RFC 9000 §4.6 §7.3 §7.4 §10.1 §18.2, RFC 9221 §3, RFC 9287 §3", "duplicated parameters: both outcomes accepted (RFC: MAY)", "max_udp_payload_size above 65527 is not generated (RFC and implementation disagree on an unusable range)", "idle timer probed 1 ms around the expected value on the paused tokio clock"];
        }
        "C14" => {
            p.part(cidsim::CidSim, 30_000, 3_000_000, "1..3 connections on one shared QuicRouter; the peer's NEW_CONNECTION_ID / RETIRE_CONNECTION_ID streams pass reorder / duplicate / delay channels; paths apply, borrow, hold, release and retire ids; connections are created and dropped at drawn points; Byzantine final moves (retire unissued, issue over limit, reuse a sequence); reference = sets/maps from RFC 9000 5.1, 19.15, 19.16; non-trivial = a fault fired and ids moved; distinct = hash of the op/result history");
            p.assumptions = vec!["sequence numbers stay below 60 (huge values belong to C04)", "one borrow per cell at a time, as the packet assembler does", "same sequence with a different id is not judged (RFC: MAY)"];
        }
        "C16" => {
            let n = wakesim::enumerated_total();
            p.report.exhaustive_notes.push(format!("wakesim: every order-preserving merge of the actor scripts of every scenario with <= 8 steps, {n} interleavings over 35 protocols, enumerated completely (indexes below {n})"));
            p.part(wakesim::WakeSim, 200_000, 50_000_000, "one real waiter/notifier protocol per case, each op one lock-protected call into the real type (poll, re-poll with another waker, drop the future; set condition, notify, close); all interleavings of small scenarios enumerated, larger ones sampled; composite send-loop waits scripted as check-then-register; oracle = audit poll at quiescence; non-trivial = a notifier or closer ran while a waiter was registered or about to register; distinct = hash of protocol + op/result history");
            p.assumptions = vec!["interleavings at the granularity of whole lock-protected calls (sub-call interleavings would need the shuttle tier, not built)", "single-consumer types are driven with one consumer and a stable waker; what happens otherwise is a probe, not a verdict"];
        }
        "C01" => {
            p.part(streamsim::StreamSim { mode: streamsim::Mode::C01 }, 20_000, 1_000_000, "two real DataStreams + FlowController endpoints; 1..6 concurrent uni/bidi streams from both roles, writes in drawn chunks with/without shutdown, resets and stop-sending; packets of drawn capacities (25..1452 bytes) so STREAM frames split at every boundary; per-packet and per-ack fates from the tape (drop, duplicate, delay/reorder), spurious loss reports, late acks after loss; scheduler picks the interleaving of application polls, send opportunities, acks and loss detection; bounded liveness after the tape's last fault with an audit poll; non-trivial = a fault fired and data moved; distinct = hash of packet/ack/accept history");
            p.assumptions = vec!["glue mirrors qconnection (packages order, FlowControlledDataStreams, AckDataSpace, DataTracker::may_loss); the real glue is exercised by the netsim checks", "duplicates at packet level are absorbed by the packet-number check (as the journals do)"];
        }
        "C11" => {
            p.part(streamsim::StreamSim { mode: streamsim::Mode::C11 }, 20_000, 1_000_000, "as C01 with all six flow parameters of each side drawn independently from {0,1,100,1200,4096,65536,2^20}; every emitted STREAM frame is checked against the stream and connection limits delivered so far; advertised limits must not decrease; two real endpoints must never raise an error against each other; 70% of the runs end with a forged STREAM one byte beyond the advertised stream or connection window (must be FLOW_CONTROL_ERROR)");
            p.assumptions = vec!["limits 'delivered so far' = initial transport parameter for the stream's kind and initiator raised by MAX_* frames already processed by the sender", "forged frames use a fresh peer stream index the peer application never opens"];
        }
        "C12" => {
            p.part(streamsim::StreamSim { mode: streamsim::Mode::C12 }, 20_000, 1_000_000, "as C01 with initial stream counts from {0,1,2,3,10,100} and both concurrency strategies; local opens never exceed the delivered limit; accept yields every peer stream once, in order; 70% of the runs end with a forged frame: stream index at/over the advertised count, STREAM or RESET_STREAM on a send-only stream, STOP_SENDING / MAX_STREAM_DATA on a receive-only stream, frames for a local stream never opened, four final-size contradictions; expected error kinds from RFC 9000");
            p.assumptions = vec!["legality of a forged frame is judged against what the target endpoint has emitted (advertised), not what was delivered"];
        }
        "C13" => {
            p.part(ccsim::CcSim, 5_000, 1_000_000, "one real congestion controller (ArcCC: NewReno, RTT estimator, pacer, loss detection, PTO) on tokio's paused clock, ticked every 10 ms as Path::drive does; the case scripts sends in three spaces (sizes, ack-eliciting / in-flight flags, packet-number gaps), per-packet fates (deliver after a delay, drop, black hole), acknowledgement frames built from what reached the peer (gaps, range limits, stale, delayed beyond max_ack_delay, ECN-CE counts), handshake phase changes, anti-amplification flags and epoch discards on both roles; reference model = set of outstanding packets + RFC 9002 rules evaluated on the H1 snapshot after every call; drain phase without acks bounded to 120 virtual seconds; non-trivial = a fault fired and packets were acknowledged; distinct = hash of the call/result history");
            p.assumptions = vec!["loss threshold judged with 0.2% tolerance against 9/8 of the larger of smoothed and latest RTT, at least 1 ms", "RFC 9002 7.6 duration-based persistent congestion is accepted as a legitimate second reduction", "ack-eliciting-but-not-in-flight packets are not generated (unreachable through qbase::packet)"];
        }
        "C04" => {
            p.part(byzsim::ByzSim, 20_000, 2_000_000, "one forged but well-formed frame (or packet number) per case after a short legitimate history (0..200 ops) on the real handlers in the stack's dispatch order: ACK into ArcCC / rcvd-journal / sent-journal, packet-number jumps into decode_pn / on_rcvd_pn / ACK generation, NEW_CONNECTION_ID / RETIRE_CONNECTION_ID / active_connection_id_limit into the cid managers on a shared router, stream / flow-control / stream-count frames into DataStreams + FlowController, CRYPTO offsets into the crypto stream; the field under test takes values from {0, 1, state boundary +-1, 2^8..2^22 ladder, 2^31+-1, 2^62-1}; per handler the bytes allocated (exact) and the thread CPU time are metered along the ladder with state and frame size constant; expected error kinds from an RFC 9000 reference model of the state; non-trivial = a history preceded the forged frame; distinct = hash of field, answers, emitted frames per probe");
            p.assumptions = vec!["work thresholds: memory >= 1 MiB and > 256 B per (frame byte + state entry) + 64 KiB and >= 64x the ladder bottom; CPU >= 2 ms for the chain and > 1 us per unit + 0.5 ms, named handler >= 0.5 ms and >= 64x its ladder bottom, minimum of 3..8 readings", "values above 2^22 are only sent to handler chains the ladder showed to be value-independent", "frames are handed over as decrypted payload: packet protection and assembly are not part of the metered work"];
        }
        other => die(&format!("no check for property {other}")),
    }
}

fn main() {
    let args = parse_args();
    let root_seed: u64 = std::env::var("VERIF_SEED").ok().and_then(|s| s.parse().ok()).unwrap_or(1);
    let threads: usize = std::env::var("VERIF_THREADS").ok().and_then(|s| s.parse().ok()).unwrap_or(16);
    let base = std::env::var("VERIF_DIR").unwrap_or_else(|_| "/verif".to_string());
    let known = Known::load(&format!("{base}/known_findings.json")).unwrap_or_else(|e| die(&e));
    let ctx = Ctx {
        prop: args.prop.clone(),
        tier: args.tier,
        root_seed,
        threads,
        known,
        replay_dir: std::env::var("VERIF_REPLAY_DIR").unwrap_or_else(|_| format!("{base}/replays")),
        started: Instant::now(),
    };
    println!("VERIF_SEED={root_seed} property={} tier={} threads={threads}", ctx.prop, ctx.tier.as_str());

    let replay_val = args.replay.as_ref().map(|path| {
        let text = std::fs::read_to_string(path).unwrap_or_else(|e| die(&format!("{path}: {e}")));
        serde_json::from_str::<serde_json::Value>(&text).unwrap_or_else(|e| die(&format!("{path}: {e}")))
    });
    let mut p = Plan { ctx: &ctx, report: Report::default(), replay: replay_val.as_ref(), replay_result: None, scale: args.scale, run_seed: args.run_seed, determinism: args.determinism, hashes: args.hashes, det_bad: 0, assumptions: vec![] };
    plan(&mut p);

    if args.hashes.is_some() {
        return;
    }
    if args.determinism.is_some() {
        std::process::exit(if p.det_bad == 0 { 0 } else { 2 });
    }
    if args.run_seed.is_some() {
        return;
    }
    if let Some(path) = &args.replay {
        match p.replay_result {
            Some(Ok((true, _))) => {
                println!("VIOLATION property={} replay={}", ctx.prop, path);
                std::process::exit(1);
            }
            Some(Ok((false, sigs))) => {
                println!("replay did not reproduce the recorded violation; violations now: {sigs:?}");
                std::process::exit(if sigs.is_empty() { 0 } else { 1 });
            }
            Some(Err(e)) => die(&e),
            None => die("replay file names an engine this property does not use"),
        }
    }

    let report = p.report;
    // seeded-change campaigns (tools/run_seeded.sh) keep their output away from the committed evidence
    let evidence_dir = std::env::var("VERIF_EVIDENCE_DIR").unwrap_or_else(|_| format!("{base}/evidence"));
    simcore::evidence::write(&ctx, &report, &p.assumptions, &format!("{evidence_dir}/{}.json", ctx.prop));
    for part in &report.parts {
        println!("part {part}");
    }
    for f in &report.found {
        if let Some(k) = &f.known {
            println!("KNOWN-FINDING: property={} {} [signature={} seed={} replay={}]", ctx.prop, k, f.signature, f.seed, f.replay);
        }
    }
    if !report.harness_errors.is_empty() {
        for e in &report.harness_errors {
            eprintln!("harness error: {e}");
        }
        std::process::exit(2);
    }
    let mut failed = false;
    for f in report.found.iter().filter(|f| f.known.is_none()) {
        failed = true;
        println!("VIOLATION property={} replay={}", ctx.prop, f.replay);
        println!("  signature={} engine={} seed={} detail={}", f.signature, f.engine, f.seed, f.detail);
    }
    println!(
        "property={} evaluations={} distinct_nontrivial={} wall_s={:.1} verdict={}",
        ctx.prop,
        report.evaluations,
        report.distinct.len(),
        ctx.started.elapsed().as_secs_f64(),
        if failed { "VIOLATED" } else { "held" }
    );
    std::process::exit(if failed { 1 } else { 0 });
}
