//! cidsim — connection-ID issuing, use, retirement and routing (C14).
//!
//! One case = 1..3 connection slots sharing one real `QuicRouter`. Each connection is the bundle the
//! connection builder of qconnection creates: `QuicRouter::registry_on_issuing_scid` → `gen_unique_cid`
//! (initial scid) → optional `router.insert(odcid)` (server) → `ArcLocalCids::new(scid, registry)` and
//! `ArcRemoteCids::new(limit, sink)`; paths are `apply_dcid` cells. The far endpoint is a model: it issues
//! NEW_CONNECTION_ID frames to us and retires the ids we issue. All four frame streams (both kinds, both
//! directions) pass through channels whose delivery order, duplication and delay the op list decides.
//!
//! The reference models are plain sets written from RFC 9000 §5.1, §19.15, §19.16.
use std::{
    collections::{BTreeMap, BTreeSet, HashMap},
    future::Future,
    pin::Pin,
    sync::{
        Arc, Mutex,
        atomic::{AtomicU64, Ordering},
    },
    task::Poll,
};

use bytes::BytesMut;
use qbase::{
    cid::{ArcCidCell, ArcLocalCids, ArcRemoteCids, BorrowedCid, ConnectionId, GenUniqueCid},
    error::ErrorKind,
    frame::{
        NewConnectionIdFrame, RetireConnectionIdFrame,
        io::{ReceiveFrame, SendFrame},
    },
    net::{
        route::{Link, Pathway},
        tx::{ArcSendWaker, Signals},
    },
    packet::{DataHeader, DataPacket, Packet, SpinBit, header::OneRttHeader},
    varint::VarInt,
};
use qinterface::{
    bind_uri::BindUri,
    component::route::{QuicRouter, QuicRouterEntry, QuicRouterRegistry, RcvdPacketQueue, Way},
};
use serde::{Deserialize, Serialize};
use simcore::{Engine, Outcome, Rng, Tier, TraceHash, wake::Task};

/// sequence numbers stay below this bound (huge sequence numbers are property C04)
const SEQ_BOUND: usize = 60;
const MAX_PATHS: usize = 6;

#[derive(Clone, Debug, Serialize, Deserialize, PartialEq)]
pub enum Op {
    /// build a connection in an empty slot exactly as `ConnectionFoundation::with_cids` + `PendingConnection::run`
    Create {
        slot: u8,
        server: bool,
        /// our active_connection_id_limit (bounds the peer's ids we store)
        local_limit: u8,
        /// the peer's active_connection_id_limit (bounds the ids we issue)
        peer_limit: u8,
        /// server only: index into a tiny pool of original destination connection ids (reuse after drop)
        odcid: u8,
        /// paths created before the handshake (each `apply_dcid`)
        paths: u8,
        /// peer's Retire Prior To policy: 0 never raised, 1 lowest unretired sequence (what LocalCids does), 2 raised by `PeerIssue.bump`
        rpt_mode: u8,
        /// peer issues a replacement as soon as a RETIRE_CONNECTION_ID reaches it
        auto_replace: bool,
    },
    /// first Initial packet processed: `apply_initial_dcid(peer scid, cell of path)`
    Handshake { slot: u8, path: u8 },
    /// TLS finished: `ArcLocalCids::set_limit(peer_limit)`
    SetLimit { slot: u8 },
    /// the peer issues its next NEW_CONNECTION_ID; `bump` (mode 2) raises Retire Prior To into (current, seq];
    /// `byz`: issue even if that exceeds our limit
    PeerIssue { slot: u8, bump: u8, byz: bool },
    /// deliver item `idx % len` of the peer→us NEW_CONNECTION_ID channel (`dup`: a copy stays in the channel)
    DeliverNewCid { slot: u8, idx: u8, dup: bool },
    /// one of our RETIRE_CONNECTION_ID frames reaches the peer
    PeerRecvRetire { slot: u8, idx: u8, dup: bool },
    /// one of our NEW_CONNECTION_ID frames reaches the peer
    PeerRecvNewCid { slot: u8, idx: u8, dup: bool },
    /// the peer retires one of our ids it knows (`byz` = 0) or the never-issued sequence next+byz-1
    PeerRetire { slot: u8, sel: u8, byz: u8 },
    /// deliver item `idx % len` of the peer→us RETIRE_CONNECTION_ID channel
    DeliverRetire { slot: u8, idx: u8, dup: bool },
    NewPath { slot: u8 },
    /// next step of the path's send loop: idle → `borrow_cid` (kept if `hold`, else dropped at once);
    /// borrowed → drop the borrow; blocked → poll `tx_waker.wait_for(CONNECTION_ID)`
    PathStep { slot: u8, path: u8, hold: bool },
    /// `ArcCidCell::retire`
    PathRetire { slot: u8, path: u8 },
    /// the peer reuses a known sequence number for a different connection id (RFC: MAY be rejected); ends judging of the connection
    ConflictCid { slot: u8, sel: u8 },
    /// `ArcLocalCids::clear` (termination), the connection object is dropped later
    ClearLocal { slot: u8 },
    /// drop every part of the connection
    Drop { slot: u8 },
    /// look every id ever issued on the router up
    RouteAudit,
}

#[derive(Clone, Debug, Serialize, Deserialize)]
pub struct Case {
    pub slots: u8,
    pub ops: Vec<Op>,
}

pub struct CidSim;

// ---------------------------------------------------------------------------------------------
// frame sink handed to the real code (what ArcReliableFrameDeque is in qconnection)

#[derive(Default)]
struct SinkInner {
    new_cid: Vec<NewConnectionIdFrame>,
    retire: Vec<RetireConnectionIdFrame>,
}

#[derive(Clone, Default)]
struct Sink(Arc<Mutex<SinkInner>>);

impl SendFrame<NewConnectionIdFrame> for Sink {
    fn send_frame<I: IntoIterator<Item = NewConnectionIdFrame>>(&self, iter: I) {
        self.0.lock().unwrap().new_cid.extend(iter);
    }
}

impl SendFrame<RetireConnectionIdFrame> for Sink {
    fn send_frame<I: IntoIterator<Item = RetireConnectionIdFrame>>(&self, iter: I) {
        self.0.lock().unwrap().retire.extend(iter);
    }
}

type Registry = QuicRouterRegistry<Sink>;
type Local = ArcLocalCids<Registry>;
type Remote = ArcRemoteCids<Sink>;
type Cell = ArcCidCell<Sink>;

#[derive(Clone, Copy, PartialEq, Debug)]
enum PState {
    Idle,
    Borrowed,
    /// `borrow_cid` returned `Err(CONNECTION_ID)`; the wait future was created but not polled yet
    NeedWait,
    Waiting,
}

struct PathActor {
    // field order matters: the borrow must drop before the cell handle it points into
    borrow: Option<BorrowedCid<'static, Sink>>,
    wait: Option<Pin<Box<dyn Future<Output = ()>>>>,
    cell: Cell,
    waker: ArcSendWaker,
    task: Task,
    state: PState,
    retired: bool,
    /// sequence number of the id the last successful borrow returned
    current: Option<u64>,
}

fn borrow_static(cell: &Cell, w: ArcSendWaker) -> Result<Option<BorrowedCid<'static, Sink>>, Signals> {
    // SAFETY: `BorrowedCid` holds a reference to the mutex inside the cell's `Arc` allocation. `PathActor` keeps
    // a clone of that `Arc` in `cell` and declares `borrow` before it, so the borrow is always dropped first and
    // the reference never dangles; moving the `PathActor` does not move the allocation.
    unsafe {
        std::mem::transmute::<Result<Option<BorrowedCid<'_, Sink>>, Signals>, Result<Option<BorrowedCid<'static, Sink>>, Signals>>(
            cell.borrow_cid(w),
        )
    }
}

struct Conn {
    // real parts -----------------------------------------------------------------------------
    paths: Vec<PathActor>,
    remote: Remote,
    local: Option<Local>,
    /// second handle, as the clones of `cid_registry.local` held by spaces / bursts
    local2: Option<Local>,
    odcid_entry: Option<QuicRouterEntry>,
    queue: Arc<RcvdPacketQueue>,
    sink: Sink,
    // configuration --------------------------------------------------------------------------
    conn_id: u32,
    odcid: Option<ConnectionId>,
    local_limit: u64,
    peer_limit: u64,
    rpt_mode: u8,
    auto_replace: bool,
    handshaken: bool,
    limit_set: bool,
    cleared: bool,
    /// a connection error was returned or was due: the real stack would be closing; nothing more is judged or fed
    dead: bool,
    // local-side reference: ids we issued (index = sequence number) -------------------------------
    issued: Vec<(ConnectionId, bool)>,
    // channels ---------------------------------------------------------------------------------
    n_in: Vec<(NewConnectionIdFrame, u64)>,
    r_in: Vec<(u64, u64)>,
    n_out: Vec<(NewConnectionIdFrame, u64)>,
    r_out: Vec<(u64, u64)>,
    // peer model, consumer of our ids ------------------------------------------------------------
    peer_known: BTreeSet<u64>,
    peer_retired_sent: BTreeSet<u64>,
    // peer model, issuer of its ids ---------------------------------------------------------------
    p_issued: Vec<ConnectionId>,
    p_rpt: u64,
    p_retired_rcvd: BTreeSet<u64>,
    // remote-side reference: what we received / emitted ----------------------------------------------
    received: BTreeMap<u64, ConnectionId>,
    cid2seq: HashMap<ConnectionId, u64>,
    rpt_max: u64,
    retired_emitted: BTreeSet<u64>,
}

struct Grave {
    conn_id: u32,
    ids: Vec<ConnectionId>,
    odcid: Option<ConnectionId>,
    queue: Arc<RcvdPacketQueue>,
}

struct Cx {
    out: Outcome,
    th: TraceHash,
    step: u64,
    faults: u64,
    progress: u64,
}

impl Cx {
    fn fault(&mut self, k: &'static str) {
        self.out.stats.bump(k);
        self.faults += 1;
    }
    fn probe(&mut self, k: &'static str) {
        self.out.stats.bump(k);
    }
    fn violate(&mut self, clause: &str, site: &str, detail: String) {
        let step = self.step;
        self.out.violate(clause, site, detail, step);
    }
}

fn kind_name(k: ErrorKind) -> &'static str {
    match k {
        ErrorKind::ConnectionIdLimit => "ConnectionIdLimit",
        ErrorKind::ProtocolViolation => "ProtocolViolation",
        ErrorKind::FrameEncoding => "FrameEncoding",
        ErrorKind::TransportParameter => "TransportParameter",
        ErrorKind::Internal => "Internal",
        _ => "other",
    }
}

fn peer_cid(conn_id: u32, seq: u64, variant: u8) -> ConnectionId {
    // first byte has the top bit clear: never equal to an id from `random_gen_with_mark(8, 0x80, 0x7f)`
    ConnectionId::from_slice(&[0x20, (conn_id >> 8) as u8, conn_id as u8, seq as u8, 0xa5, 0x5a, 0x01, variant])
}

fn odcid_of(pool_idx: u8) -> ConnectionId {
    ConnectionId::from_slice(&[0x10, 0xd0, 0xc1, 0xd0, 0, 0, 0, pool_idx])
}

enum RetCtx {
    /// frames emitted by anything but `ArcCidCell::retire`: only ids below the largest Retire Prior To may go
    Generic,
    /// the borrow was dropped
    Release,
    PathRetire,
}

impl Conn {
    fn live_paths(&self) -> usize {
        self.paths.iter().filter(|p| !p.retired).count()
    }

    fn issued_live(&self) -> usize {
        self.issued.iter().filter(|(_, l)| *l).count()
    }

    /// Move what the real code emitted into the outgoing channels, judging every frame on the way.
    /// `expect_new`: `Some(n)` = exactly n NEW_CONNECTION_ID frames are due (a live id was retired).
    fn pump(&mut self, cx: &mut Cx, expect_new: Option<usize>, rctx: RetCtx) {
        let (news, rets) = {
            let mut s = self.sink.0.lock().unwrap();
            (std::mem::take(&mut s.new_cid), std::mem::take(&mut s.retire))
        };
        if self.dead {
            return;
        }
        // ---- local side -----------------------------------------------------------------------
        for f in &news {
            let want = self.issued.len() as u64;
            if f.sequence() != want {
                cx.violate("local-seq-gap", "", format!("NEW_CONNECTION_ID carries sequence {} where {want} is next", f.sequence()));
            }
            if f.retire_prior_to() > f.sequence() {
                cx.violate("local-seq-gap", "retire-prior-to", format!("issued sequence {} with retire_prior_to {}", f.sequence(), f.retire_prior_to()));
            }
            self.issued.push((*f.connection_id(), true));
            self.n_out.push((*f, cx.step));
            cx.th.add(0x11 << 48 | f.sequence() << 8 | f.retire_prior_to());
        }
        if let Some(n) = expect_new {
            if news.len() != n {
                let site = if news.is_empty() { "" } else { "multiple" };
                cx.violate("retire-not-replaced", site, format!("retiring a live id produced {} NEW_CONNECTION_ID frames, expected {n}", news.len()));
            }
        }
        let limit_eff = if self.limit_set { self.peer_limit } else { 2 };
        let live = self.issued_live() as u64;
        if live > limit_eff {
            cx.violate("local-over-limit", "", format!("{live} unretired ids outstanding, peer's limit is {limit_eff}"));
        }
        if live == limit_eff && !news.is_empty() {
            cx.probe("probe.local_at_limit");
        }
        // ---- remote side ----------------------------------------------------------------------
        if !rets.is_empty() {
            match rctx {
                RetCtx::Release => cx.probe("probe.retire_delayed_until_release"),
                RetCtx::PathRetire if rets.len() > 1 => cx.probe("probe.path_retire_multi"),
                _ => {}
            }
        }
        for f in &rets {
            let seq = f.sequence();
            cx.th.add(0x12 << 48 | seq);
            if self.retired_emitted.contains(&seq) {
                cx.violate("retire-frame-count", "duplicate", format!("second RETIRE_CONNECTION_ID for sequence {seq}"));
            }
            let known = self.received.contains_key(&seq);
            let ok = match rctx {
                RetCtx::PathRetire => known || seq < self.rpt_max,
                _ => seq < self.rpt_max,
            };
            if !ok {
                let site = if seq >= self.p_issued.len() as u64 { "unissued" } else { "spurious" };
                cx.violate(
                    "retire-frame-count",
                    site,
                    format!("RETIRE_CONNECTION_ID for sequence {seq}: largest retire_prior_to seen is {}, received={known}, no path retirement accounts for it", self.rpt_max),
                );
            }
            if !known {
                cx.probe("probe.retire_of_never_received_seq");
            }
            self.retired_emitted.insert(seq);
            self.r_out.push((seq, cx.step));
        }
    }

    /// number of active peer ids by RFC 9000 §5.1.1 after a frame (seq, rpt) has been processed
    fn active_after(&self, seq: u64, rpt: u64) -> u64 {
        let floor = self.rpt_max.max(rpt);
        let mut n = self.received.keys().filter(|s| **s >= floor && **s != seq && !self.retired_emitted.contains(s)).count() as u64;
        if seq >= floor && !self.retired_emitted.contains(&seq) {
            n += 1;
        }
        n
    }

    fn peer_active_after(&self, seq: u64, rpt: u64) -> u64 {
        (rpt..=seq).filter(|s| !self.p_retired_rcvd.contains(s)).count() as u64
    }

    /// the peer issues its next id (conforming unless `byz`)
    fn peer_issue(&mut self, cx: &mut Cx, bump: u8, byz: bool) -> bool {
        if !self.handshaken || self.dead {
            return false;
        }
        let seq = self.p_issued.len() as u64;
        if seq as usize >= SEQ_BOUND {
            return false;
        }
        let mut rpt = self.p_rpt;
        match self.rpt_mode {
            1 => {
                while rpt < seq && self.p_retired_rcvd.contains(&rpt) {
                    rpt += 1;
                }
            }
            2 if bump > 0 && seq > rpt => {
                rpt = rpt + 1 + (bump as u64 - 1) % (seq - rpt);
            }
            _ => {}
        }
        let after = self.peer_active_after(seq, rpt);
        if after > self.local_limit {
            if !byz {
                return false;
            }
            cx.fault("fault.byz_issue_over_limit");
        }
        if rpt > self.p_rpt {
            cx.probe("probe.peer_raised_retire_prior_to");
        }
        self.p_rpt = rpt;
        let cid = peer_cid(self.conn_id, seq, 0);
        self.p_issued.push(cid);
        let f = NewConnectionIdFrame::new(cid, VarInt::from_u32(seq as u32), VarInt::from_u32(rpt as u32));
        self.n_in.push((f, cx.step));
        cx.th.add(0x21 << 48 | seq << 8 | rpt);
        true
    }

    fn deliver_new_cid(&mut self, cx: &mut Cx, f: NewConnectionIdFrame) {
        let (seq, rpt) = (f.sequence(), f.retire_prior_to());
        let expect_err = self.active_after(seq, rpt) > self.local_limit;
        if self.received.contains_key(&seq) {
            cx.probe("probe.new_cid_duplicate_seen");
        }
        if seq < self.rpt_max {
            cx.probe("probe.new_cid_below_retire_prior_to");
        }
        if self.received.keys().next_back().is_some_and(|m| seq > *m + 1) {
            cx.probe("probe.new_cid_gap");
        }
        if rpt < self.rpt_max {
            cx.probe("probe.stale_retire_prior_to");
        }
        // reference model update (RFC 9000 §5.1.2: Retire Prior To only ever grows)
        if rpt > self.rpt_max {
            for p in &self.paths {
                if let Some(c) = p.current {
                    if c < rpt && c >= self.rpt_max && !p.retired {
                        if p.state == PState::Borrowed {
                            cx.probe("probe.retire_prior_to_passed_borrowed_id");
                        } else {
                            cx.probe("probe.retire_prior_to_passed_id_in_use");
                        }
                    }
                }
            }
            self.rpt_max = rpt;
        }
        self.received.insert(seq, *f.connection_id());
        self.cid2seq.insert(*f.connection_id(), seq);

        let res = self.remote.recv_frame(f);
        self.pump(cx, None, RetCtx::Generic);
        cx.th.add(0x22 << 48 | seq << 16 | rpt << 8 | res.is_ok() as u64);
        match (&res, expect_err) {
            (Ok(_), false) => cx.progress += 1,
            (Ok(_), true) => {
                cx.violate(
                    "remote-over-limit-accepted",
                    "",
                    format!(
                        "NEW_CONNECTION_ID seq {seq} retire_prior_to {rpt} accepted: {} active ids > active_connection_id_limit {}",
                        self.active_after(seq, rpt),
                        self.local_limit
                    ),
                );
                self.dead = true;
            }
            (Err(e), true) => {
                cx.probe("probe.connection_id_limit_error");
                if e.kind() != ErrorKind::ConnectionIdLimit {
                    cx.violate("error-kind", "new-cid-over-limit", format!("over-limit NEW_CONNECTION_ID rejected with {}, RFC 9000 §5.1.1 requires CONNECTION_ID_LIMIT_ERROR", kind_name(e.kind())));
                }
                self.dead = true;
            }
            (Err(e), false) => {
                cx.violate(
                    "remote-legal-rejected",
                    kind_name(e.kind()),
                    format!(
                        "NEW_CONNECTION_ID seq {seq} retire_prior_to {rpt} rejected ({e}) although only {} ids are active (limit {}; RETIRE_CONNECTION_ID already sent for {:?})",
                        self.active_after(seq, rpt),
                        self.local_limit,
                        self.retired_emitted.iter().filter(|s| **s >= self.rpt_max).collect::<Vec<_>>()
                    ),
                );
                self.dead = true;
            }
        }
    }

    fn deliver_retire(&mut self, cx: &mut Cx, seq: u64) {
        let Some(local) = self.local.clone() else { return };
        let next = self.issued.len() as u64;
        let (expect_err, expect_new) = if seq >= next {
            (true, 0)
        } else if self.issued[seq as usize].1 {
            (false, 1)
        } else {
            cx.probe("probe.retire_duplicate_ignored");
            (false, 0)
        };
        let old = (seq < next).then(|| self.issued[seq as usize]);
        if !expect_err {
            self.issued[seq as usize].1 = false;
        }
        let res = local.recv_frame(RetireConnectionIdFrame::new(VarInt::from_u32(seq as u32)));
        drop(local);
        cx.th.add(0x31 << 48 | seq << 8 | res.is_ok() as u64);
        match (&res, expect_err) {
            (Ok(()), false) => {
                cx.progress += 1;
                self.pump(cx, Some(expect_new), RetCtx::Generic);
                if let Some((_, true)) = old {
                    cx.probe("probe.live_id_retired_by_peer");
                }
            }
            (Ok(()), true) => {
                self.pump(cx, None, RetCtx::Generic);
                cx.violate("retire-unissued-accepted", "", format!("RETIRE_CONNECTION_ID for sequence {seq} accepted, only 0..{next} were ever issued"));
                self.dead = true;
            }
            (Err(e), true) => {
                self.pump(cx, None, RetCtx::Generic);
                cx.probe("probe.retire_unissued_rejected");
                if e.kind() != ErrorKind::ProtocolViolation {
                    cx.violate(
                        "error-kind",
                        "retire-unissued",
                        format!("RETIRE_CONNECTION_ID for never-issued sequence {seq} rejected with {}, RFC 9000 §19.16 requires PROTOCOL_VIOLATION", kind_name(e.kind())),
                    );
                }
                self.dead = true;
            }
            (Err(e), false) => {
                self.pump(cx, None, RetCtx::Generic);
                cx.violate("retire-issued-rejected", kind_name(e.kind()), format!("RETIRE_CONNECTION_ID for issued sequence {seq} (next {next}) rejected: {e}"));
                self.dead = true;
            }
        }
    }

    fn new_path(&mut self, cx: &mut Cx) {
        let cell = self.remote.apply_dcid();
        self.paths.push(PathActor {
            borrow: None,
            wait: None,
            cell,
            waker: ArcSendWaker::new(),
            task: Task::new(),
            state: PState::Idle,
            retired: false,
            current: None,
        });
        self.pump(cx, None, RetCtx::Generic);
    }

    /// judge the id a borrow returned
    fn judge_borrowed(&mut self, cx: &mut Cx, pi: usize, cid: ConnectionId) {
        let Some(&seq) = self.cid2seq.get(&cid) else {
            cx.violate("remote-stale-id", "unknown", format!("path {pi} borrowed {cid}, which the peer never issued"));
            return;
        };
        cx.th.add(0x41 << 48 | (pi as u64) << 16 | seq);
        if self.retired_emitted.contains(&seq) {
            cx.violate("remote-stale-id", "retired", format!("path {pi} borrowed the id of sequence {seq} after RETIRE_CONNECTION_ID was sent for it"));
        }
        for (qi, q) in self.paths.iter().enumerate() {
            if qi != pi && !q.retired && q.current == Some(seq) {
                cx.violate("remote-two-in-use", "shared", format!("paths {qi} and {pi} both use the id of sequence {seq}"));
            }
        }
        let prev = self.paths[pi].current;
        if let Some(x) = prev {
            if x != seq {
                cx.probe("probe.path_switched_id");
                if !self.retired_emitted.contains(&x) {
                    cx.violate("remote-two-in-use", "old-not-retired", format!("path {pi} moved from sequence {x} to {seq} without retiring {x}"));
                }
            }
        }
        self.paths[pi].current = Some(seq);
    }

    fn path_step(&mut self, cx: &mut Cx, pi: usize, hold: bool) {
        let st = self.paths[pi].state;
        match st {
            PState::Idle => {
                let p = &mut self.paths[pi];
                match borrow_static(&p.cell, p.waker.clone()) {
                    Ok(Some(b)) => {
                        let cid = *b;
                        let retired = p.retired;
                        if hold {
                            p.borrow = Some(b);
                            p.state = PState::Borrowed;
                        } else {
                            drop(b);
                        }
                        cx.progress += 1;
                        if retired {
                            cx.violate("remote-stale-id", "retired-path", format!("path {pi} was retired and still borrowed an id"));
                        } else {
                            self.judge_borrowed(cx, pi, cid);
                        }
                        if !hold {
                            self.pump(cx, None, RetCtx::Release);
                        }
                    }
                    Ok(None) => {
                        cx.th.add(0x42 << 48 | pi as u64);
                        if !p.retired {
                            cx.violate("remote-stale-id", "none-on-live-path", format!("borrow_cid told live path {pi} that it was retired"));
                        } else {
                            cx.probe("probe.borrow_on_retired_path");
                        }
                    }
                    Err(sig) => {
                        cx.th.add(0x43 << 48 | pi as u64);
                        cx.probe("probe.borrow_blocked");
                        let w = p.waker.clone();
                        p.wait = Some(Box::pin(async move { w.wait_for(sig).await }));
                        p.state = PState::NeedWait;
                        let _ = p.task.take_woken();
                    }
                }
            }
            PState::Borrowed => {
                let p = &mut self.paths[pi];
                p.borrow = None;
                p.state = PState::Idle;
                cx.th.add(0x44 << 48 | pi as u64);
                self.pump(cx, None, RetCtx::Release);
            }
            PState::NeedWait | PState::Waiting => {
                let p = &mut self.paths[pi];
                let woken = p.task.take_woken();
                let r = p.task.poll_pin(p.wait.as_mut().unwrap().as_mut());
                cx.th.add(0x45 << 48 | (pi as u64) << 8 | r.is_ready() as u64);
                match r {
                    Poll::Ready(()) => {
                        if st == PState::Waiting && !woken {
                            cx.violate("lost-wakeup", "ready-without-wake", format!("path {pi}: wait_for(CONNECTION_ID) became ready but the registered waker was never called"));
                        }
                        if st == PState::NeedWait {
                            cx.probe("probe.id_arrived_before_wait_registered");
                        } else {
                            cx.probe("probe.waiter_woken");
                        }
                        p.wait = None;
                        p.state = PState::Idle;
                    }
                    Poll::Pending => {
                        if st == PState::Waiting && !woken {
                            cx.probe("probe.spurious_poll");
                        }
                        p.state = PState::Waiting;
                    }
                }
            }
        }
    }

    fn path_retire(&mut self, cx: &mut Cx, pi: usize) {
        let p = &mut self.paths[pi];
        if p.retired {
            return;
        }
        p.cell.retire();
        p.retired = true;
        let cur = p.current;
        self.pump(cx, None, RetCtx::PathRetire);
        cx.th.add(0x46 << 48 | pi as u64);
        if let Some(x) = cur {
            if !self.retired_emitted.contains(&x) {
                cx.violate("retire-frame-count", "missing-on-path-retire", format!("path {pi} was retired while using sequence {x}; no RETIRE_CONNECTION_ID for it"));
            }
        }
    }
}

struct World {
    router: Arc<QuicRouter>,
    unrouted: Arc<AtomicU64>,
    slots: Vec<Option<Conn>>,
    grave: Vec<Grave>,
    next_conn_id: u32,
    probe_task: Task,
    way: Way,
}

impl World {
    fn new(slots: usize) -> Self {
        let router = Arc::new(QuicRouter::new());
        let unrouted = Arc::new(AtomicU64::new(0));
        let u = unrouted.clone();
        router.on_connectless_packets(move |_p, _w| {
            u.fetch_add(1, Ordering::SeqCst);
        });
        let src: std::net::SocketAddr = "127.0.0.1:4433".parse().unwrap();
        let dst: std::net::SocketAddr = "127.0.0.1:5544".parse().unwrap();
        let way: Way = (BindUri::from("inet://127.0.0.1:4433"), Pathway::new(src.into(), dst.into()), Link::new(src, dst));
        World { router, unrouted, slots: (0..slots).map(|_| None).collect(), grave: Vec::new(), next_conn_id: 1, probe_task: Task::new(), way }
    }

    /// hand a 1-RTT packet addressed to `cid` to the router; true iff some queue took it
    fn route(&self, cid: ConnectionId) -> bool {
        let before = self.unrouted.load(Ordering::SeqCst);
        let pkt = Packet::Data(DataPacket { header: DataHeader::Short(OneRttHeader::new(SpinBit::default(), cid)), bytes: BytesMut::new(), offset: 0 });
        let mut fut = std::pin::pin!(self.router.deliver(pkt, self.way.clone()));
        match self.probe_task.poll_pin(fut.as_mut()) {
            Poll::Ready(()) => {}
            Poll::Pending => panic!("QuicRouter::deliver did not complete"),
        }
        self.unrouted.load(Ordering::SeqCst) == before
    }

    fn take_one(&self, q: &RcvdPacketQueue) -> bool {
        let mut fut = std::pin::pin!(q.one_rtt().recv());
        matches!(self.probe_task.poll_pin(fut.as_mut()), Poll::Ready(Some(_)))
    }

    /// which connection's queue holds the packet just delivered (drains it)
    fn find_taker(&self) -> Option<u32> {
        for c in self.slots.iter().flatten() {
            if self.take_one(&c.queue) {
                return Some(c.conn_id);
            }
        }
        for g in &self.grave {
            if self.take_one(&g.queue) {
                return Some(g.conn_id);
            }
        }
        None
    }

    /// `owner`: connection and its queue that must receive packets for `cid`, or `None` and the reason it must miss
    fn check_route(&self, cx: &mut Cx, cid: ConnectionId, owner: Result<(u32, &Arc<RcvdPacketQueue>), &'static str>, what: &str) {
        let routed = self.route(cid);
        match owner {
            Ok((conn_id, q)) => {
                cx.probe("probe.route_hit_checked");
                if !routed {
                    cx.violate("route-wrong-conn", "live-id-unroutable", format!("{what} of connection #{conn_id} is live but the router has no entry for it"));
                } else if !self.take_one(q) {
                    let taker = self.find_taker();
                    cx.violate("route-wrong-conn", "other-conn", format!("{what} of connection #{conn_id} was routed to {taker:?}"));
                }
            }
            Err(why) => {
                cx.probe("probe.route_miss_checked");
                if routed {
                    let taker = self.find_taker();
                    cx.violate("route-after-retire", why, format!("{what} is still routed (to connection {taker:?}) although: {why}"));
                }
            }
        }
    }

    fn odcid_owner(&self, odcid: &ConnectionId) -> Option<&Conn> {
        self.slots.iter().flatten().find(|c| c.odcid.as_ref() == Some(odcid))
    }

    fn audit_conn_ids(&self, cx: &mut Cx, c: &Conn, only: Option<&[u64]>) {
        for (seq, (cid, live)) in c.issued.iter().enumerate() {
            if only.is_some_and(|o| !o.contains(&(seq as u64))) {
                continue;
            }
            let owner = if c.cleared {
                Err("cleared")
            } else if *live {
                Ok((c.conn_id, &c.queue))
            } else {
                Err("retired")
            };
            self.check_route(cx, *cid, owner, &format!("id seq {seq}"));
        }
    }

    fn audit_all(&self, cx: &mut Cx) {
        for c in self.slots.iter().flatten() {
            self.audit_conn_ids(cx, c, None);
            if let Some(od) = &c.odcid {
                self.check_route(cx, *od, Ok((c.conn_id, &c.queue)), "original dcid");
            }
        }
        for g in &self.grave {
            for cid in &g.ids {
                self.check_route(cx, *cid, Err("connection-dropped"), &format!("an id of dropped connection #{}", g.conn_id));
            }
            if let Some(od) = &g.odcid {
                match self.odcid_owner(od) {
                    Some(c) => self.check_route(cx, *od, Ok((c.conn_id, &c.queue)), "reused original dcid"),
                    None => self.check_route(cx, *od, Err("connection-dropped"), &format!("original dcid of dropped connection #{}", g.conn_id)),
                }
            }
        }
    }

    #[allow(clippy::too_many_arguments)]
    fn create(&mut self, cx: &mut Cx, slot: usize, server: bool, local_limit: u8, peer_limit: u8, odcid: u8, paths: u8, rpt_mode: u8, auto_replace: bool) {
        let odcid = server.then(|| odcid_of(odcid % 3));
        if let Some(od) = &odcid {
            if self.odcid_owner(od).is_some() {
                // a packet with this dcid would be routed to the live connection; the server creates none
                return;
            }
            if self.grave.iter().any(|g| g.odcid.as_ref() == Some(od)) {
                cx.probe("probe.odcid_reused_after_drop");
            }
        }
        let conn_id = self.next_conn_id;
        self.next_conn_id += 1;
        // ConnectionFoundation::with_cids
        let queue = Arc::new(RcvdPacketQueue::new());
        let sink = Sink::default();
        let registry = self.router.registry_on_issuing_scid(queue.clone(), sink.clone());
        let initial_scid = registry.gen_unique_cid();
        let odcid_entry = odcid.map(|od| self.router.insert(od.into(), queue.clone()));
        // PendingConnection::run
        let local = ArcLocalCids::new(initial_scid, registry);
        let remote = ArcRemoteCids::new(local_limit as u64, sink.clone());
        let mut c = Conn {
            paths: Vec::new(),
            remote,
            local2: Some(local.clone()),
            local: Some(local),
            odcid_entry,
            queue,
            sink,
            conn_id,
            odcid,
            local_limit: local_limit as u64,
            peer_limit: peer_limit as u64,
            rpt_mode: rpt_mode % 3,
            auto_replace,
            handshaken: false,
            limit_set: false,
            cleared: false,
            dead: false,
            issued: vec![(initial_scid, true)],
            n_in: Vec::new(),
            r_in: Vec::new(),
            n_out: Vec::new(),
            r_out: Vec::new(),
            peer_known: BTreeSet::new(),
            peer_retired_sent: BTreeSet::new(),
            p_issued: Vec::new(),
            p_rpt: 0,
            p_retired_rcvd: BTreeSet::new(),
            received: BTreeMap::new(),
            cid2seq: HashMap::new(),
            rpt_max: 0,
            retired_emitted: BTreeSet::new(),
        };
        c.pump(cx, None, RetCtx::Generic);
        for _ in 0..paths.clamp(1, 3) {
            c.new_path(cx);
        }
        cx.th.add(0x01 << 48 | (slot as u64) << 32 | (server as u64) << 24 | (local_limit as u64) << 16 | (peer_limit as u64) << 8 | c.issued.len() as u64);
        self.audit_conn_ids(cx, &c, None);
        if let Some(od) = &c.odcid {
            self.check_route(cx, *od, Ok((c.conn_id, &c.queue)), "original dcid");
        }
        self.slots[slot] = Some(c);
        cx.progress += 1;
    }

    fn drop_conn(&mut self, cx: &mut Cx, slot: usize) {
        let Some(c) = self.slots[slot].take() else { return };
        cx.fault("fault.connection_dropped");
        if c.paths.iter().any(|p| p.state == PState::Borrowed) {
            cx.probe("probe.dropped_with_borrow_outstanding");
        }
        if !c.n_in.is_empty() || !c.r_in.is_empty() {
            cx.probe("probe.dropped_with_frames_in_flight");
        }
        let Conn { paths, remote, local, local2, odcid_entry, queue, sink, conn_id, odcid, issued, .. } = c;
        drop(paths);
        drop(remote);
        drop(local);
        drop(local2);
        drop(odcid_entry);
        drop(sink);
        self.grave.push(Grave { conn_id, ids: issued.iter().map(|(c, _)| *c).collect(), odcid, queue });
        cx.th.add(0x02 << 48 | slot as u64);
        self.audit_all(cx);
    }
}

fn op_slot(o: &Op) -> Option<u8> {
    match o {
        Op::Create { slot, .. }
        | Op::Handshake { slot, .. }
        | Op::SetLimit { slot }
        | Op::PeerIssue { slot, .. }
        | Op::DeliverNewCid { slot, .. }
        | Op::PeerRecvRetire { slot, .. }
        | Op::PeerRecvNewCid { slot, .. }
        | Op::PeerRetire { slot, .. }
        | Op::DeliverRetire { slot, .. }
        | Op::NewPath { slot }
        | Op::PathStep { slot, .. }
        | Op::PathRetire { slot, .. }
        | Op::ConflictCid { slot, .. }
        | Op::ClearLocal { slot }
        | Op::Drop { slot } => Some(*slot),
        Op::RouteAudit => None,
    }
}

fn op_kind(o: &Op) -> u8 {
    match o {
        Op::Create { .. } => 0,
        Op::Handshake { .. } => 1,
        Op::SetLimit { .. } => 2,
        Op::PeerIssue { .. } => 3,
        Op::DeliverNewCid { .. } => 4,
        Op::PeerRecvRetire { .. } => 5,
        Op::PeerRecvNewCid { .. } => 6,
        Op::PeerRetire { .. } => 7,
        Op::DeliverRetire { .. } => 8,
        Op::NewPath { .. } => 9,
        Op::PathStep { .. } => 10,
        Op::PathRetire { .. } => 11,
        Op::ConflictCid { .. } => 12,
        Op::ClearLocal { .. } => 13,
        Op::Drop { .. } => 14,
        Op::RouteAudit => 15,
    }
}

fn sel<T>(v: &[T], idx: u8) -> Option<usize> {
    // 255 = the newest item in the channel
    if v.is_empty() { None } else if idx == 255 { Some(v.len() - 1) } else { Some(idx as usize % v.len()) }
}

fn take_item<T: Copy>(cx: &mut Cx, ch: &mut Vec<(T, u64)>, idx: u8, dup: bool) -> Option<T> {
    let i = sel(ch, idx)?;
    if i != 0 {
        cx.fault("fault.reorder");
    }
    let (item, at) = ch[i];
    if cx.step.saturating_sub(at) >= 12 {
        cx.fault("fault.delayed_frame");
    }
    if dup {
        cx.fault("fault.duplicate");
    } else {
        ch.remove(i);
    }
    Some(item)
}

impl World {
    fn apply(&mut self, cx: &mut Cx, op: &Op) {
        let nslots = self.slots.len();
        match *op {
            Op::Create { slot, server, local_limit, peer_limit, odcid, paths, rpt_mode, auto_replace } => {
                let s = slot as usize % nslots;
                if self.slots[s].is_none() {
                    self.create(cx, s, server, local_limit.clamp(2, 8), peer_limit.clamp(2, 8), odcid, paths, rpt_mode, auto_replace);
                }
            }
            Op::Drop { slot } => self.drop_conn(cx, slot as usize % nslots),
            Op::RouteAudit => {
                cx.th.add(0x03 << 48);
                self.audit_all(cx)
            }
            Op::ClearLocal { slot } => {
                let s = slot as usize % nslots;
                let Some(c) = self.slots[s].as_mut() else { return };
                if c.cleared {
                    return;
                }
                cx.fault("fault.cleared_before_drop");
                c.local.as_ref().unwrap().clear();
                c.cleared = true;
                c.pump(cx, None, RetCtx::Generic);
                c.dead = true;
                cx.th.add(0x04 << 48 | s as u64);
                self.audit_all(cx);
            }
            Op::Handshake { slot, path } => {
                let Some(c) = self.slots[slot as usize % nslots].as_mut() else { return };
                handshake(cx, c, path);
            }
            Op::SetLimit { slot } => {
                let s = slot as usize % nslots;
                let Some(c) = self.slots[s].as_mut() else { return };
                if set_limit(cx, c) {
                    let c = self.slots[s].as_ref().unwrap();
                    self.audit_conn_ids(cx, c, None);
                }
            }
            Op::PeerIssue { slot, bump, byz } => {
                let Some(c) = self.slots[slot as usize % nslots].as_mut() else { return };
                c.peer_issue(cx, bump, byz);
            }
            Op::DeliverNewCid { slot, idx, dup } => {
                let Some(c) = self.slots[slot as usize % nslots].as_mut() else { return };
                if c.dead {
                    return;
                }
                if let Some(f) = take_item(cx, &mut c.n_in, idx, dup) {
                    c.deliver_new_cid(cx, f);
                }
            }
            Op::PeerRecvRetire { slot, idx, dup } => {
                let Some(c) = self.slots[slot as usize % nslots].as_mut() else { return };
                if c.dead {
                    return;
                }
                if let Some(seq) = take_item(cx, &mut c.r_out, idx, dup) {
                    peer_recv_retire(cx, c, seq, c.auto_replace);
                }
            }
            Op::PeerRecvNewCid { slot, idx, dup } => {
                let Some(c) = self.slots[slot as usize % nslots].as_mut() else { return };
                if c.dead {
                    return;
                }
                if let Some(f) = take_item(cx, &mut c.n_out, idx, dup) {
                    peer_recv_new_cid(cx, c, f);
                }
            }
            Op::PeerRetire { slot, sel: which, byz } => {
                let Some(c) = self.slots[slot as usize % nslots].as_mut() else { return };
                if c.dead || !c.limit_set || !c.handshaken || c.issued.len() + c.r_in.len() >= SEQ_BOUND {
                    return;
                }
                if byz > 0 {
                    let seq = c.issued.len() as u64 + (byz as u64 - 1) % 4;
                    cx.fault("fault.byz_retire_unissued");
                    c.r_in.push((seq, cx.step));
                    cx.th.add(0x32 << 48 | seq);
                } else {
                    let cand: Vec<u64> = c.peer_known.iter().copied().filter(|s| !c.peer_retired_sent.contains(s)).collect();
                    if let Some(i) = sel(&cand, which) {
                        let seq = cand[i];
                        c.peer_retired_sent.insert(seq);
                        c.r_in.push((seq, cx.step));
                        cx.th.add(0x33 << 48 | seq);
                    }
                }
            }
            Op::DeliverRetire { slot, idx, dup } => {
                let s = slot as usize % nslots;
                let Some(c) = self.slots[s].as_mut() else { return };
                if c.dead {
                    return;
                }
                if let Some(seq) = take_item(cx, &mut c.r_in, idx, dup) {
                    let before = c.issued.len() as u64;
                    c.deliver_retire(cx, seq);
                    let c = self.slots[s].as_ref().unwrap();
                    let mut touched: Vec<u64> = (before..c.issued.len() as u64).collect();
                    if seq < before {
                        touched.push(seq);
                    }
                    self.audit_conn_ids(cx, c, Some(&touched));
                }
            }
            Op::NewPath { slot } => {
                let Some(c) = self.slots[slot as usize % nslots].as_mut() else { return };
                if c.dead || c.paths.len() >= MAX_PATHS {
                    return;
                }
                c.new_path(cx);
                cx.th.add(0x47 << 48 | c.paths.len() as u64);
            }
            Op::PathStep { slot, path, hold } => {
                let Some(c) = self.slots[slot as usize % nslots].as_mut() else { return };
                if c.dead {
                    return;
                }
                if let Some(pi) = sel(&c.paths, path) {
                    c.path_step(cx, pi, hold);
                }
            }
            Op::PathRetire { slot, path } => {
                let Some(c) = self.slots[slot as usize % nslots].as_mut() else { return };
                if c.dead {
                    return;
                }
                if let Some(pi) = sel(&c.paths, path) {
                    if !c.paths[pi].retired {
                        // before the handshake the initial path must stay: apply_initial_dcid needs a pending cell
                        if !c.handshaken && c.live_paths() <= 1 {
                            return;
                        }
                        cx.fault("fault.path_retired");
                        c.path_retire(cx, pi);
                    }
                }
            }
            Op::ConflictCid { slot, sel: which } => {
                let Some(c) = self.slots[slot as usize % nslots].as_mut() else { return };
                if c.dead || !c.handshaken {
                    return;
                }
                let known: Vec<u64> = c.received.keys().copied().filter(|s| *s >= c.rpt_max).collect();
                if let Some(i) = sel(&known, which) {
                    let seq = known[i];
                    cx.fault("fault.byz_seq_reused_for_other_cid");
                    let f = NewConnectionIdFrame::new(peer_cid(c.conn_id, seq, 1), VarInt::from_u32(seq as u32), VarInt::from_u32(c.rpt_max.min(seq) as u32));
                    // RFC 9000 §19.15: MAY be treated as PROTOCOL_VIOLATION; either outcome is legal, only a panic is not
                    let r = c.remote.recv_frame(f);
                    cx.th.add(0x23 << 48 | seq << 8 | r.is_ok() as u64);
                    if r.is_err() {
                        cx.probe("probe.conflicting_cid_rejected");
                    } else {
                        cx.probe("probe.conflicting_cid_accepted");
                    }
                    c.dead = true;
                    c.pump(cx, None, RetCtx::Generic);
                }
            }
        }
    }
}

fn handshake(cx: &mut Cx, c: &mut Conn, path: u8) -> bool {
    if c.handshaken || c.dead {
        return false;
    }
    let live: Vec<usize> = (0..c.paths.len()).filter(|i| !c.paths[*i].retired).collect();
    let pi = match sel(&live, path) {
        Some(i) => live[i],
        None => {
            c.new_path(cx);
            c.paths.len() - 1
        }
    };
    let scid0 = peer_cid(c.conn_id, 0, 0);
    c.p_issued.push(scid0);
    c.received.insert(0, scid0);
    c.cid2seq.insert(scid0, 0);
    // the peer learnt our initial scid from the same flight
    c.peer_known.insert(0);
    c.remote.apply_initial_dcid(scid0, &c.paths[pi].cell);
    c.handshaken = true;
    c.pump(cx, None, RetCtx::Generic);
    cx.th.add(0x05 << 48 | pi as u64);
    cx.progress += 1;
    true
}

fn set_limit(cx: &mut Cx, c: &mut Conn) -> bool {
    if c.limit_set || c.dead || !c.handshaken {
        return false;
    }
    let r = c.local.as_ref().unwrap().set_limit(c.peer_limit);
    c.limit_set = true;
    c.pump(cx, None, RetCtx::Generic);
    cx.th.add(0x06 << 48 | c.issued.len() as u64);
    if let Err(e) = r {
        cx.violate("retire-issued-rejected", "set-limit", format!("set_limit({}) failed: {e}", c.peer_limit));
        c.dead = true;
    }
    true
}

fn peer_recv_retire(cx: &mut Cx, c: &mut Conn, seq: u64, replace: bool) {
    c.p_retired_rcvd.insert(seq);
    cx.th.add(0x24 << 48 | seq);
    if replace {
        c.peer_issue(cx, 0, false);
    }
}

fn peer_recv_new_cid(cx: &mut Cx, c: &mut Conn, f: NewConnectionIdFrame) {
    c.peer_known.insert(f.sequence());
    cx.th.add(0x34 << 48 | f.sequence());
    // a conforming peer retires what Retire Prior To asks for
    let rpt = f.retire_prior_to();
    let todo: Vec<u64> = c.peer_known.iter().copied().filter(|s| *s < rpt && !c.peer_retired_sent.contains(s)).collect();
    for s in todo {
        c.peer_retired_sent.insert(s);
        c.r_in.push((s, cx.step));
        cx.probe("probe.peer_retired_on_our_retire_prior_to");
    }
}

/// Let everything in flight arrive, let the conforming peer replace what was retired, let every path run until
/// it is blocked or has an id; then audit.
fn settle(w: &mut World, cx: &mut Cx) {
    let n = w.slots.len();
    for s in 0..n {
        let Some(c) = w.slots[s].as_mut() else { continue };
        if c.dead {
            continue;
        }
        handshake(cx, c, 0);
        set_limit(cx, c);
        // drop every outstanding borrow
        for pi in 0..c.paths.len() {
            if c.paths[pi].state == PState::Borrowed {
                c.path_step(cx, pi, false);
            }
        }
        let mut rounds = 0;
        loop {
            rounds += 1;
            if rounds > 200 {
                cx.violate("no-progress", "settle", format!("connection in slot {s} does not quiesce: frames keep being produced"));
                break;
            }
            let mut moved = false;
            while !c.dead && !c.n_out.is_empty() {
                let (f, _) = c.n_out.remove(0);
                peer_recv_new_cid(cx, c, f);
                moved = true;
            }
            while !c.dead && !c.r_out.is_empty() {
                let (seq, _) = c.r_out.remove(0);
                peer_recv_retire(cx, c, seq, false);
                moved = true;
            }
            // conforming peer keeps us supplied up to our limit
            while !c.dead && c.peer_issue(cx, 0, false) {
                moved = true;
            }
            while !c.dead && !c.n_in.is_empty() {
                let (f, _) = c.n_in.remove(0);
                c.deliver_new_cid(cx, f);
                moved = true;
            }
            while !c.dead && !c.r_in.is_empty() {
                let (seq, _) = c.r_in.remove(0);
                c.deliver_retire(cx, seq);
                moved = true;
            }
            if c.dead {
                break;
            }
            // paths: whoever was woken polls; whoever is idle sends once
            for pi in 0..c.paths.len() {
                match c.paths[pi].state {
                    PState::Idle => {
                        c.path_step(cx, pi, false);
                        if c.paths[pi].state == PState::NeedWait {
                            c.path_step(cx, pi, false);
                        }
                    }
                    PState::NeedWait => c.path_step(cx, pi, false),
                    PState::Waiting => {
                        if c.paths[pi].task.is_woken() {
                            c.path_step(cx, pi, false);
                            moved = true;
                        }
                    }
                    PState::Borrowed => unreachable!(),
                }
            }
            if !moved && c.n_out.is_empty() && c.r_out.is_empty() {
                break;
            }
        }
        if c.dead {
            continue;
        }
        // ---- quiescence audits, remote side ---------------------------------------------------------
        let live_paths = c.live_paths() as u64;
        let supplied = live_paths <= c.local_limit && (c.p_issued.len() < SEQ_BOUND);
        if !supplied {
            cx.probe("probe.more_paths_than_ids_at_end");
        }
        for pi in 0..c.paths.len() {
            if c.paths[pi].retired {
                continue;
            }
            let blocked = matches!(c.paths[pi].state, PState::Waiting | PState::NeedWait);
            if blocked {
                // audit poll: would the sleeper get an id if it looked again?
                let woken = c.paths[pi].task.is_woken();
                let p = &mut c.paths[pi];
                let got = match borrow_static(&p.cell, p.waker.clone()) {
                    Ok(Some(b)) => Some(*b),
                    _ => None,
                };
                if let Some(cid) = got {
                    if !woken {
                        cx.violate("lost-wakeup", "borrow_cid", format!("path {pi} sleeps on CONNECTION_ID although borrow_cid now yields {cid}"));
                    }
                    c.pump(cx, None, RetCtx::Release);
                } else if supplied {
                    cx.violate(
                        "waiter-starved",
                        "",
                        format!("at quiescence path {pi} still has no id although {live_paths} live paths <= limit {} and the peer keeps {} ids active", c.local_limit, c.local_limit),
                    );
                } else {
                    cx.probe("probe.path_starved_at_end");
                }
            } else if let Some(x) = c.paths[pi].current {
                // the path has an id: it must be one the peer still wants us to use
                if x < c.rpt_max && supplied {
                    cx.violate("remote-stale-id", "below-retire-prior-to", format!("at quiescence path {pi} still uses sequence {x}, retire_prior_to is {}", c.rpt_max));
                }
            }
        }
        if supplied {
            let missing: Vec<u64> = (0..c.rpt_max).filter(|s| !c.retired_emitted.contains(s)).collect();
            if !missing.is_empty() {
                cx.violate("retire-frame-count", "missing", format!("at quiescence no RETIRE_CONNECTION_ID was ever sent for sequences {missing:?} (retire_prior_to {})", c.rpt_max));
            }
        }
    }
    w.audit_all(cx);
}

fn run(case: &Case) -> Outcome {
    let mut w = World::new(case.slots.clamp(1, 3) as usize);
    let mut cx = Cx { out: Outcome::default(), th: TraceHash::default(), step: 0, faults: 0, progress: 0 };
    for (i, op) in case.ops.iter().enumerate() {
        cx.step = i as u64;
        w.apply(&mut cx, op);
        if cx.out.failed() {
            break;
        }
    }
    if !cx.out.failed() {
        cx.step = case.ops.len() as u64;
        settle(&mut w, &mut cx);
    }
    let Cx { mut out, th, faults, progress, .. } = cx;
    for sig in out.violations.iter().map(|v| v.signature()).collect::<Vec<_>>() {
        out.stats.bump(simcore::engine::intern(&format!("violating_runs.{sig}")));
    }
    out.trace_hash = th.get();
    out.nontrivial = faults > 0 && progress > 2;
    out
}

impl Engine for CidSim {
    type Case = Case;

    fn name(&self) -> &'static str {
        "cidsim"
    }

    fn fresh_thread(&self) -> bool {
        // connection ids come from rand's thread-local generator, which is seeded once per thread
        true
    }

    fn components_real(&self) -> Vec<&'static str> {
        vec![
            "qbase::cid::ArcLocalCids",
            "qbase::cid::ArcRemoteCids",
            "qbase::cid::ArcCidCell / BorrowedCid",
            "qbase::net::tx::ArcSendWaker",
            "qinterface::component::route::QuicRouter",
            "qinterface::component::route::QuicRouterRegistry",
            "qinterface::component::route::QuicRouterEntry",
            "qinterface::component::route::RcvdPacketQueue",
        ]
    }

    fn components_stub(&self) -> Vec<&'static str> {
        vec!["frame transport (four channels per connection with reorder/duplicate/delay)", "the peer endpoint (reference model)", "connections (bundles of the real parts)"]
    }

    fn generate(&self, _index: u64, seed: u64, tier: Tier) -> Case {
        let mut r = Rng::derive(seed, "workload");
        let mut f = Rng::derive(seed, "faults");
        let slots = r.range(1, 3) as u8;
        let long = r.one_in(5);
        let scale = if tier == Tier::Thorough { 2 } else { 1 };
        let nops = r.range(12, if long { 320 } else { 110 }) * scale;
        // swarm: each fault kind on or off per run
        let p_reorder = if f.one_in(2) { 0.1 + f.f64() * 0.6 } else { 0.0 };
        let p_dup = if f.one_in(2) { f.f64() * 0.35 } else { 0.0 };
        let byz_retire = f.one_in(5);
        let byz_issue = f.one_in(5);
        let conflict = f.one_in(10);
        let w_path_retire = if f.one_in(2) { f.range(1, 4) } else { 0 };
        let w_drop = if f.one_in(2) { f.range(1, 2) } else { 0 };
        let clear = f.one_in(4);
        let lazy = f.one_in(4); // deliveries are rare: long delays, deep channels
        let w_issue = r.range(2, 7);
        let w_dnew = if lazy { 2 } else { r.range(5, 12) };
        let w_step = r.range(6, 16);
        let w_newpath = r.range(0, 3);
        let w_prr = if lazy { 2 } else { r.range(3, 10) };
        let w_prn = if lazy { 1 } else { r.range(2, 7) };
        let w_pret = r.range(1, 7);
        let w_dret = if lazy { 2 } else { r.range(3, 10) };
        let w_audit = 1;
        let total = w_issue + w_dnew + w_step + w_newpath + w_prr + w_prn + w_pret + w_dret + w_audit + w_path_retire + w_drop;
        let limit = |r: &mut Rng| match r.below(8) {
            0 | 1 => 2,
            2 => 3,
            3 => 8,
            _ => r.range(2, 8),
        } as u8;
        let idx = |f: &mut Rng| if f.chance(p_reorder) { f.below(16) as u8 } else { 0 };
        let mut occupied = vec![false; slots as usize];
        let mut scheduled: Vec<(usize, Op)> = Vec::new();
        let mut ops: Vec<Op> = Vec::new();
        while (ops.len() as u64) < nops {
            let now = ops.len();
            if let Some(p) = scheduled.iter().position(|(at, _)| *at <= now) {
                ops.push(scheduled.remove(p).1);
                continue;
            }
            let free: Vec<usize> = (0..slots as usize).filter(|s| !occupied[*s]).collect();
            let any = occupied.iter().any(|o| *o);
            if !free.is_empty() && (!any || r.one_in(8)) {
                let slot = *r.pick(&free) as u8;
                occupied[slot as usize] = true;
                ops.push(Op::Create {
                    slot,
                    server: r.one_in(2),
                    local_limit: limit(&mut r),
                    peer_limit: limit(&mut r),
                    odcid: r.below(3) as u8,
                    paths: if r.one_in(4) { r.range(2, 3) as u8 } else { 1 },
                    rpt_mode: *r.pick(&[0u8, 1, 1, 2, 2, 2]),
                    auto_replace: r.chance(0.7),
                });
                let hs = now + 1 + r.usize_below(5);
                scheduled.push((hs, Op::Handshake { slot, path: r.below(4) as u8 }));
                scheduled.push((hs + 1 + r.usize_below(5), Op::SetLimit { slot }));
                continue;
            }
            let occ: Vec<usize> = (0..slots as usize).filter(|s| occupied[*s]).collect();
            let slot = if r.one_in(12) { r.below(slots as u64) as u8 } else { *r.pick(&occ) as u8 };
            if byz_retire && f.one_in(60) {
                ops.push(Op::PeerRetire { slot, sel: 0, byz: f.range(1, 4) as u8 });
                continue;
            }
            if byz_issue && f.one_in(40) {
                if f.one_in(2) {
                    // over-issue hidden by reordering: the channel is drained, the peer issues up to the limit and
                    // one id more, and the frames arrive newest first, so that the frame which takes the endpoint
                    // over its limit is one that fills a gap, not the one with the largest sequence number
                    for _ in 0..10 {
                        ops.push(Op::DeliverNewCid { slot, idx: 0, dup: false });
                    }
                    for _ in 0..9 {
                        ops.push(Op::PeerIssue { slot, bump: 0, byz: false });
                    }
                    ops.push(Op::PeerIssue { slot, bump: 0, byz: true });
                    for _ in 0..10 {
                        ops.push(Op::DeliverNewCid { slot, idx: 255, dup: false });
                    }
                } else {
                    ops.push(Op::PeerIssue { slot, bump: 0, byz: true });
                }
                continue;
            }
            if conflict && f.one_in(80) {
                ops.push(Op::ConflictCid { slot, sel: f.below(8) as u8 });
                continue;
            }
            if clear && f.one_in(120) {
                ops.push(Op::ClearLocal { slot });
                continue;
            }
            let mut x = r.below(total);
            let mut take = |w: u64| {
                if x < w {
                    true
                } else {
                    x -= w;
                    false
                }
            };
            let op = if take(w_issue) {
                Op::PeerIssue { slot, bump: if r.one_in(3) { r.range(1, 64) as u8 } else { 0 }, byz: false }
            } else if take(w_dnew) {
                Op::DeliverNewCid { slot, idx: idx(&mut f), dup: f.chance(p_dup) }
            } else if take(w_step) {
                Op::PathStep { slot, path: r.below(MAX_PATHS as u64) as u8, hold: r.one_in(3) }
            } else if take(w_newpath) {
                Op::NewPath { slot }
            } else if take(w_prr) {
                Op::PeerRecvRetire { slot, idx: idx(&mut f), dup: f.chance(p_dup) }
            } else if take(w_prn) {
                Op::PeerRecvNewCid { slot, idx: idx(&mut f), dup: f.chance(p_dup) }
            } else if take(w_pret) {
                Op::PeerRetire { slot, sel: r.below(16) as u8, byz: 0 }
            } else if take(w_dret) {
                Op::DeliverRetire { slot, idx: idx(&mut f), dup: f.chance(p_dup) }
            } else if take(w_audit) {
                Op::RouteAudit
            } else if take(w_path_retire) {
                Op::PathRetire { slot, path: r.below(MAX_PATHS as u64) as u8 }
            } else {
                occupied[slot as usize] = false;
                scheduled.retain(|(_, o)| !matches!(o, Op::Handshake { slot: s, .. } | Op::SetLimit { slot: s } if *s == slot));
                Op::Drop { slot }
            };
            ops.push(op);
        }
        Case { slots, ops }
    }

    fn execute(&self, case: &Case) -> Outcome {
        run(case)
    }

    fn shrink(&self, case: &Case) -> Vec<Case> {
        let mut v = Vec::new();
        let n = case.ops.len();
        if n > 1 {
            v.push(Case { ops: case.ops[..n / 2].to_vec(), ..case.clone() });
            v.push(Case { ops: case.ops[..n - 1].to_vec(), ..case.clone() });
        }
        // one connection slot at a time, one op kind at a time
        for keep in 0..case.slots {
            let ops: Vec<Op> = case.ops.iter().filter(|o| op_slot(o).is_none_or(|s| s % case.slots.max(1) == keep)).cloned().collect();
            if ops.len() < n {
                v.push(Case { ops, ..case.clone() });
            }
        }
        for kind in 0..16u8 {
            let ops: Vec<Op> = case.ops.iter().filter(|o| op_kind(o) != kind).cloned().collect();
            if ops.len() < n && kind != 0 {
                v.push(Case { ops, ..case.clone() });
            }
        }
        // chunks, then single ops
        let mut chunk = n / 4;
        while chunk >= 2 {
            let mut start = 0;
            while start + chunk <= n {
                let mut ops = case.ops.clone();
                ops.drain(start..start + chunk);
                v.push(Case { ops, ..case.clone() });
                start += chunk;
            }
            chunk /= 2;
        }
        for i in (0..n).rev().take(200) {
            let mut ops = case.ops.clone();
            ops.remove(i);
            v.push(Case { ops, ..case.clone() });
        }
        for i in 0..n.min(200) {
            let mut ops = case.ops.clone();
            let changed = match &mut ops[i] {
                Op::DeliverNewCid { idx, dup, .. } | Op::DeliverRetire { idx, dup, .. } | Op::PeerRecvRetire { idx, dup, .. } | Op::PeerRecvNewCid { idx, dup, .. }
                    if *idx != 0 || *dup =>
                {
                    *idx = 0;
                    *dup = false;
                    true
                }
                Op::PathStep { hold, .. } if *hold => {
                    *hold = false;
                    true
                }
                Op::Create { paths, .. } if *paths > 1 => {
                    *paths = 1;
                    true
                }
                Op::PeerIssue { bump, .. } if *bump > 1 => {
                    *bump = 1;
                    true
                }
                _ => false,
            };
            if changed {
                v.push(Case { ops, ..case.clone() });
            }
        }
        if case.slots > 1 {
            v.push(Case { slots: case.slots - 1, ops: case.ops.clone() });
        }
        v
    }
}
