//! `cargo run --release -p <crate> --example run -- <runs>`: run the engine stand-alone.
fn main() {
    println!("engine not implemented yet");
}
