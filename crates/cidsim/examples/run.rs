//! `cargo run --release -p cidsim --example run -- <runs>`: run the engine stand-alone.
//! `run --replay <file>` re-executes the case of a replay file; `run --determinism <n>` executes n cases twice.
#[global_allocator]
static A: simcore::alloc::CountingAlloc = simcore::alloc::CountingAlloc;

use simcore::Engine;

fn main() {
    let args: Vec<String> = std::env::args().collect();
    if args.get(1).map(|s| s.as_str()) == Some("--replay") {
        let text = std::fs::read_to_string(&args[2]).expect("read replay file");
        let v: serde_json::Value = serde_json::from_str(&text).expect("replay file is json");
        match simcore::engine::replay_case(&cidsim::CidSim, &v) {
            Ok((true, sigs)) => println!("reproduced {sigs:?}"),
            Ok((false, sigs)) => {
                println!("NOT reproduced; got {sigs:?}");
                std::process::exit(2);
            }
            Err(e) => {
                println!("harness error: {e}");
                std::process::exit(2);
            }
        }
        return;
    }
    if args.get(1).map(|s| s.as_str()) == Some("--determinism") {
        let n: u64 = args.get(2).and_then(|s| s.parse().ok()).unwrap_or(2000);
        let eng = cidsim::CidSim;
        let mut bad = 0;
        for i in 0..n {
            let seed = simcore::mix(1, "C14/cidsim", i);
            let case = eng.generate(i, seed, simcore::Tier::Quick);
            let a = simcore::engine::execute_case(&eng, &case, seed);
            let b = simcore::engine::execute_case(&eng, &case, seed);
            let sa: Vec<String> = a.violations.iter().map(|v| v.signature()).collect();
            let sb: Vec<String> = b.violations.iter().map(|v| v.signature()).collect();
            if a.trace_hash != b.trace_hash || sa != sb || a.stats.0 != b.stats.0 {
                println!("run {i} seed {seed} differs: {:016x} {sa:?} vs {:016x} {sb:?}", a.trace_hash, b.trace_hash);
                bad += 1;
            }
        }
        println!("determinism: {n} cases executed twice, {bad} differ");
        std::process::exit(if bad > 0 { 2 } else { 0 });
    }
    let runs: u64 = args.get(1).and_then(|s| s.parse().ok()).unwrap_or(30000);
    let n = simcore::selftest::run(&cidsim::CidSim, "C14", runs, simcore::Tier::Quick);
    if n > 0 {
        std::process::exit(1);
    }
}
