//! `cargo run --release -p byzsim --example run -- [N]`: run the engine stand-alone (default 20000 probes).
//! `run --replay <file>` re-executes the case of a replay file; `run --determinism <n>` executes n cases twice.
#[global_allocator]
static A: simcore::alloc::CountingAlloc = simcore::alloc::CountingAlloc;

use simcore::Engine;

fn main() {
    let args: Vec<String> = std::env::args().collect();
    if args.get(1).map(|s| s.as_str()) == Some("--replay") {
        let text = std::fs::read_to_string(&args[2]).expect("read replay file");
        let v: serde_json::Value = serde_json::from_str(&text).expect("replay file is json");
        match simcore::engine::replay_case(&byzsim::ByzSim, &v) {
            Ok((true, sigs)) => println!("reproduced {sigs:?}"),
            Ok((false, sigs)) => {
                println!("NOT reproduced; got {sigs:?}");
                std::process::exit(2);
            }
            Err(e) => {
                println!("harness error: {e}");
                std::process::exit(2);
            }
        }
        return;
    }
    if args.get(1).map(|s| s.as_str()) == Some("--determinism") {
        let n: u64 = args.get(2).and_then(|s| s.parse().ok()).unwrap_or(2000);
        let ctx = simcore::Ctx {
            prop: "C04".into(),
            tier: simcore::Tier::Quick,
            root_seed: 1,
            threads: std::env::var("VERIF_THREADS").ok().and_then(|s| s.parse().ok()).unwrap_or(8),
            known: Default::default(),
            replay_dir: "/var/tmp/selftest-replays".into(),
            started: std::time::Instant::now(),
        };
        let bad = simcore::engine::determinism_check(&ctx, &byzsim::ByzSim, n);
        for (seed, what) in &bad {
            println!("seed {seed} differs: {what}");
        }
        println!("determinism: {n} cases executed twice, {} differ", bad.len());
        std::process::exit(if bad.is_empty() { 0 } else { 2 });
    }
    if args.get(1).map(|s| s.as_str()) == Some("--seed") {
        // debugging aid: print the case generated for a run seed and execute it
        let seed: u64 = args[2].parse().expect("seed");
        let eng = byzsim::ByzSim;
        let case = eng.generate(0, seed, simcore::Tier::Quick);
        println!("{}", serde_json::to_string_pretty(&case).unwrap());
        let out = simcore::engine::execute_case(&eng, &case, seed);
        println!("violations {:?}\nstats {:?}\nharness_error {:?}", out.violations, out.stats.0, out.harness_error);
        return;
    }
    let runs: u64 = args.get(1).and_then(|s| s.parse().ok()).unwrap_or(20000);
    let n = simcore::selftest::run(&byzsim::ByzSim, "C04", runs, simcore::Tier::Quick);
    if n > 0 {
        std::process::exit(1);
    }
}
