fn main() {
    println!("engine not implemented yet");
}
