//! `cargo run --release -p byzsim --example run -- [N]`: run the engine stand-alone (default 20000 probes).
//! `run --replay <file>` re-executes the case of a replay file; `run --determinism <n>` executes n cases twice.
#[global_allocator]
static A: simcore::alloc::CountingAlloc = simcore::alloc::CountingAlloc;

use simcore::Engine;

fn main() {
    let args: Vec<String> = std::env::args().collect();
    if args.get(1).map(|s| s.as_str()) == Some("--replay") {
        let text = std::fs::read_to_string(&args[2]).expect("read replay file");
        let v: serde_json::Value = serde_json::from_str(&text).expect("replay file is json");
        match simcore::engine::replay_case(&byzsim::ByzSim, &v) {
            Ok((true, sigs)) => println!("reproduced {sigs:?}"),
            Ok((false, sigs)) => {
                println!("NOT reproduced; got {sigs:?}");
                std::process::exit(2);
            }
            Err(e) => {
                println!("harness error: {e}");
                std::process::exit(2);
            }
        }
        return;
    }
    if args.get(1).map(|s| s.as_str()) == Some("--determinism") {
        let n: u64 = args.get(2).and_then(|s| s.parse().ok()).unwrap_or(2000);
        let ctx = simcore::Ctx {
            prop: "C04".into(),
            tier: simcore::Tier::Quick,
            root_seed: 1,
            threads: std::env::var("VERIF_THREADS").ok().and_then(|s| s.parse().ok()).unwrap_or(8),
            known: Default::default(),
            replay_dir: "/var/tmp/selftest-replays".into(),
            started: std::time::Instant::now(),
        };
        let bad = simcore::engine::determinism_check(&ctx, &byzsim::ByzSim, n);
        for (seed, what) in &bad {
            println!("seed {seed} differs: {what}");
        }
        println!("determinism: {n} cases executed twice, {} differ", bad.len());
        std::process::exit(if bad.is_empty() { 0 } else { 2 });
    }
    if args.get(1).map(|s| s.as_str()) == Some("--seed") {
        // debugging aid: print the case generated for a run seed and execute it
        let seed: u64 = args[2].parse().expect("seed");
        let eng = byzsim::ByzSim;
        let case = eng.generate(0, seed, simcore::Tier::Quick);
        println!("{}", serde_json::to_string_pretty(&case).unwrap());
        let out = simcore::engine::execute_case(&eng, &case, seed);
        println!("violations {:?}\nstats {:?}\nharness_error {:?}", out.violations, out.stats.0, out.harness_error);
        return;
    }
    if args.get(1).map(|s| s.as_str()) == Some("--replay-bench") {
        let text = std::fs::read_to_string(&args[2]).expect("read replay file");
        let v: serde_json::Value = serde_json::from_str(&text).expect("replay file is json");
        let case: byzsim::Case = serde_json::from_value(v["case"].clone()).unwrap();
        for i in 0..5 {
            let t = std::time::Instant::now();
            let out = simcore::engine::execute_case(&byzsim::ByzSim, &case, 1);
            println!("exec {i}: {} us {:?}", t.elapsed().as_micros(), out.violations.iter().map(|v| v.signature()).collect::<Vec<_>>());
        }
        return;
    }
    if args.get(1).map(|s| s.as_str()) == Some("--micro") && args.get(2).is_some() {
        // same measurements on a fresh thread
        let exe = std::env::current_exe().unwrap();
        let _ = exe;
        std::thread::spawn(|| micro()).join().unwrap();
        return;
    }
    if args.get(1).map(|s| s.as_str()) == Some("--micro") {
        micro();
        return;
    }
    fn micro() {
        use qbase::cid::GenUniqueCid;
        simcore::entropy::seed_thread_entropy(7);
        let n = 65536;
        let t = std::time::Instant::now();
        let mut x = 0u8;
        for _ in 0..n {
            x ^= qbase::token::ResetToken::random_gen().encoding_size() as u8;
        }
        println!("reset tokens: {} us ({x})", t.elapsed().as_micros());
        let t = std::time::Instant::now();
        for _ in 0..n {
            x ^= qbase::cid::ConnectionId::random_gen_with_mark(8, 0x80, 0x7f)[0];
        }
        println!("cids: {} us ({x})", t.elapsed().as_micros());
        let router = std::sync::Arc::new(qinterface::component::route::QuicRouter::new());
        let queue = std::sync::Arc::new(qinterface::component::route::RcvdPacketQueue::new());
        let reg = router.registry_on_issuing_scid(queue, ());
        let t = std::time::Instant::now();
        for _ in 0..n {
            x ^= reg.gen_unique_cid()[0];
        }
        println!("gen_unique_cid: {} us ({x})", t.elapsed().as_micros());
        let router = std::sync::Arc::new(qinterface::component::route::QuicRouter::new());
        let queue = std::sync::Arc::new(qinterface::component::route::RcvdPacketQueue::new());
        let sink = byzsim::cid::Sink::default();
        let reg = router.registry_on_issuing_scid(queue, sink.clone());
        let scid = reg.gen_unique_cid();
        let local = qbase::cid::ArcLocalCids::new(scid, reg);
        let t = std::time::Instant::now();
        local.set_limit(n as u64).unwrap();
        println!("set_limit({n}): {} us", t.elapsed().as_micros());
        let t = std::time::Instant::now();
        drop(local);
        println!("drop: {} us", t.elapsed().as_micros());
    }
    if args.get(1).map(|s| s.as_str()) == Some("--panic-bench") {
        simcore::panics::install();
        for i in 0..6 {
            let t = std::time::Instant::now();
            let r = simcore::panics::guarded(|| {
                let v: Vec<u32> = Vec::new();
                let k = std::hint::black_box(3usize);
                v[k]
            });
            println!("panic {i}: {} us, site {:?}", t.elapsed().as_micros(), r.err().map(|e| e.location));
        }
        return;
    }
    let runs: u64 = args.get(1).and_then(|s| s.parse().ok()).unwrap_or(20000);
    let n = simcore::selftest::run(&byzsim::ByzSim, "C04", runs, simcore::Tier::Quick);
    if n > 0 {
        std::process::exit(1);
    }
}
