//! Metering of one handler call: bytes allocated (exact, per thread), thread CPU time, panic capture.
use std::{
    cell::RefCell,
    sync::{Arc, Mutex},
};

use simcore::{alloc, panics};

#[derive(Clone, Copy, Debug, Default, PartialEq)]
pub struct Cost {
    pub alloc: u64,
    pub calls: u64,
    pub cpu_ns: u64,
}

#[derive(Clone, Debug)]
pub struct PanicInfo {
    pub message: String,
    pub location: String,
}

#[derive(Clone, Debug)]
pub struct HandlerRun {
    pub name: &'static str,
    pub cost: Cost,
    pub panic: Option<PanicInfo>,
}

thread_local! {
    /// name of the handler currently running on this thread, shared with the watchdog
    static CURRENT: RefCell<Option<Arc<Mutex<&'static str>>>> = const { RefCell::new(None) };
}

pub fn share_current(slot: Arc<Mutex<&'static str>>) {
    CURRENT.with(|c| *c.borrow_mut() = Some(slot));
}

fn publish(name: &'static str) {
    CURRENT.with(|c| {
        if let Some(s) = c.borrow().as_ref() {
            *s.lock().unwrap() = name;
        }
    });
}

/// Run `f` as handler `name`: returns its value (None if it panicked) and appends the metered run.
pub fn handler<T>(runs: &mut Vec<HandlerRun>, name: &'static str, f: impl FnOnce() -> T) -> Option<T> {
    publish(name);
    let m = alloc::mark();
    let t0 = alloc::thread_cpu_ns();
    let r = panics::guarded(f);
    let cpu_ns = alloc::thread_cpu_ns().saturating_sub(t0);
    let a = alloc::since(m);
    publish("-");
    match r {
        Ok(v) => {
            runs.push(HandlerRun { name, cost: Cost { alloc: a.bytes, calls: a.calls, cpu_ns }, panic: None });
            Some(v)
        }
        Err(rec) => {
            // the cost of a panicking call includes the backtrace capture: not judged
            runs.push(HandlerRun { name, cost: Cost::default(), panic: Some(PanicInfo { message: rec.message.clone(), location: short_location(&rec.location) }) });
            if rec.in_harness {
                // a panic raised by harness code inside the closure is a harness fault, surfaced by the caller
                runs.last_mut().unwrap().panic.as_mut().unwrap().message.insert_str(0, "[HARNESS] ");
            }
            None
        }
    }
}

fn short_location(l: &str) -> String {
    l.strip_prefix("/repo/").unwrap_or(l).to_string()
}

// thresholds of the work oracle (DESIGN §5 C04) ------------------------------------------------------

pub const MEM_ABS: u64 = 1 << 20;
pub const MEM_PER_UNIT: u64 = 256;
pub const MEM_C0: u64 = 64 << 10;
pub const CPU_ABS_NS: u64 = 2_000_000;
pub const CPU_PER_UNIT_NS: u64 = 1_000;
pub const CPU_C0_NS: u64 = 500_000;
pub const RATIO: u64 = 64;

/// `n` = encoded frame bytes + entries of state already held
pub fn mem_excess(cost: u64, bottom: u64, n: u64) -> bool {
    cost >= MEM_ABS && cost > MEM_PER_UNIT * n + MEM_C0 && cost >= RATIO * bottom.max(1)
}

pub fn cpu_excess(cost_ns: u64, bottom_ns: u64, n: u64) -> bool {
    cost_ns >= CPU_ABS_NS && cost_ns > CPU_PER_UNIT_NS * n + CPU_C0_NS && cost_ns >= RATIO * bottom_ns.max(1_000)
}
