//! Metering of one handler call: bytes allocated (exact, per thread), thread CPU time, panic capture.
use std::{
    cell::RefCell,
    sync::{Arc, Mutex},
};

use simcore::alloc;

#[derive(Clone, Copy, Debug, Default, PartialEq)]
pub struct Cost {
    pub alloc: u64,
    pub calls: u64,
    pub cpu_ns: u64,
}

#[derive(Clone, Debug)]
pub struct PanicInfo {
    pub message: String,
    /// `file:line` reported by the panic itself (`/repo/` stripped)
    pub location: String,
    /// raised by a line of this crate, not by the code under test
    pub in_harness: bool,
}

pub const PROBE_THREAD: &str = "byzsim-probe";

thread_local! {
    static LAST_PANIC: RefCell<Option<PanicInfo>> = const { RefCell::new(None) };
}

/// Panics on probe threads are recorded by message and location only. simcore's process-wide hook captures and
/// symbolises a backtrace for every panic (seconds for the first ones, tens of milliseconds later, under a
/// global lock); a handler chain that panics on one probe in seven would spend the whole budget there and trip
/// the 5 s watchdog. Every other thread keeps simcore's hook.
pub fn install_hook() {
    static ONCE: std::sync::Once = std::sync::Once::new();
    ONCE.call_once(|| {
        simcore::panics::install();
        let prev = std::panic::take_hook();
        std::panic::set_hook(Box::new(move |info| {
            if std::thread::current().name() == Some(PROBE_THREAD) {
                let message = if let Some(s) = info.payload().downcast_ref::<&str>() {
                    s.to_string()
                } else if let Some(s) = info.payload().downcast_ref::<String>() {
                    s.clone()
                } else {
                    "<non-string panic>".to_string()
                };
                let loc = info.location().map(|l| format!("{}:{}", l.file(), l.line())).unwrap_or_default();
                let in_harness = loc.contains("crates/byzsim/") || loc.contains("crates/simcore/");
                let location = loc.strip_prefix("/repo/").unwrap_or(&loc).to_string();
                LAST_PANIC.with(|p| *p.borrow_mut() = Some(PanicInfo { message, location, in_harness }));
            } else {
                prev(info);
            }
        }));
    });
}

/// Run `f` on a probe thread, returning its value or the record of the panic that ended it.
pub fn guarded<R>(f: impl FnOnce() -> R) -> Result<R, PanicInfo> {
    LAST_PANIC.with(|p| p.borrow_mut().take());
    match std::panic::catch_unwind(std::panic::AssertUnwindSafe(f)) {
        Ok(r) => Ok(r),
        Err(_) => Err(LAST_PANIC
            .with(|p| p.borrow_mut().take())
            .unwrap_or(PanicInfo { message: "<panic without record>".into(), location: String::new(), in_harness: false })),
    }
}

#[derive(Clone, Debug)]
pub struct HandlerRun {
    pub name: &'static str,
    pub cost: Cost,
    pub panic: Option<PanicInfo>,
}

thread_local! {
    /// name of the handler currently running on this thread, shared with the watchdog
    static CURRENT: RefCell<Option<Arc<Mutex<&'static str>>>> = const { RefCell::new(None) };
    /// confirmation runs only need the chain up to one handler: (stop after this one, already stopped)
    static STOP_AFTER: RefCell<(Option<&'static str>, bool)> = const { RefCell::new((None, false)) };
    /// the forged frame is being handled (the history before it is never cut short)
    static ARMED: RefCell<bool> = const { RefCell::new(false) };
}

/// `true` right before the forged frame is handed to the chain, `false` at the start of every probe
pub fn arm(on: bool) {
    ARMED.with(|a| *a.borrow_mut() = on);
    STOP_AFTER.with(|s| s.borrow_mut().1 = false);
}

/// `Some(name)`: the handlers after `name` are skipped (they report `None`, like a handler that did not return)
pub fn set_stop_after(name: Option<&'static str>) {
    STOP_AFTER.with(|s| *s.borrow_mut() = (name, false));
}

pub fn share_current(slot: Arc<Mutex<&'static str>>) {
    CURRENT.with(|c| *c.borrow_mut() = Some(slot));
}

fn publish(name: &'static str) {
    CURRENT.with(|c| {
        if let Some(s) = c.borrow().as_ref() {
            *s.lock().unwrap() = name;
        }
    });
}

/// Run `f` as handler `name`: returns its value (None if it panicked) and appends the metered run.
pub fn handler<T>(runs: &mut Vec<HandlerRun>, name: &'static str, f: impl FnOnce() -> T) -> Option<T> {
    if ARMED.with(|a| *a.borrow()) {
        if STOP_AFTER.with(|s| s.borrow().1) {
            return None;
        }
        STOP_AFTER.with(|s| {
            let mut s = s.borrow_mut();
            if s.0 == Some(name) {
                s.1 = true;
            }
        });
    }
    publish(name);
    let m = alloc::mark();
    let t0 = alloc::thread_cpu_ns();
    let r = guarded(f);
    let cpu_ns = alloc::thread_cpu_ns().saturating_sub(t0);
    let a = alloc::since(m);
    publish("-");
    match r {
        Ok(v) => {
            runs.push(HandlerRun { name, cost: Cost { alloc: a.bytes, calls: a.calls, cpu_ns }, panic: None });
            Some(v)
        }
        Err(mut rec) => {
            // the cost of a panicking call is not judged
            if rec.in_harness {
                // a panic raised by harness code inside the closure is a harness fault, surfaced by the caller
                rec.message.insert_str(0, "[HARNESS] ");
            }
            runs.push(HandlerRun { name, cost: Cost::default(), panic: Some(rec) });
            None
        }
    }
}

// thresholds of the work oracle (DESIGN §5 C04) ------------------------------------------------------

pub const MEM_ABS: u64 = 1 << 20;
pub const MEM_PER_UNIT: u64 = 256;
pub const MEM_C0: u64 = 64 << 10;
pub const CPU_ABS_NS: u64 = 2_000_000;
pub const CPU_PER_UNIT_NS: u64 = 1_000;
pub const CPU_C0_NS: u64 = 500_000;
/// a handler is named in a `work-cpu` violation of its chain only if it contributes at least this much
pub const CPU_OWN_FLOOR_NS: u64 = 500_000;
pub const RATIO: u64 = 64;

/// `n` = encoded frame bytes + entries of state already held
pub fn mem_excess(cost: u64, bottom: u64, n: u64) -> bool {
    cost >= MEM_ABS && cost > MEM_PER_UNIT * n + MEM_C0 && cost >= RATIO * bottom.max(1)
}

// CPU clock of another thread (watchdog) -------------------------------------------------------------

#[repr(C)]
struct Timespec {
    tv_sec: i64,
    tv_nsec: i64,
}

unsafe extern "C" {
    fn pthread_getcpuclockid(thread: usize, clock_id: *mut i32) -> i32;
    fn clock_gettime(clock_id: i32, tp: *mut Timespec) -> i32;
}

/// CPU time consumed so far by the thread with this `pthread_t`; None once it has exited
pub fn thread_cpu_ns_of(pthread: usize) -> Option<u64> {
    let mut clock = 0i32;
    if unsafe { pthread_getcpuclockid(pthread, &mut clock) } != 0 {
        return None;
    }
    let mut ts = Timespec { tv_sec: 0, tv_nsec: 0 };
    if unsafe { clock_gettime(clock, &mut ts) } != 0 {
        return None;
    }
    Some(ts.tv_sec as u64 * 1_000_000_000 + ts.tv_nsec as u64)
}
