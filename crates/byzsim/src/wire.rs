//! Raw RFC 9000 §19 encoders for the forged (and the legitimate) frames, and the real decoder.
//!
//! Frames are written byte by byte from the RFC (so every value in `[0, 2^62)` can be expressed, including
//! the ones the library's typed constructors `assert!` on) and then go through the library's own
//! `FrameReader`, exactly as the payload of a decrypted 1-RTT packet does in `read_plain_packet`.
use bytes::Bytes;
use qbase::{
    error::{ErrorKind, QuicError},
    frame::{Frame, FrameReader},
    packet::r#type::{Type, short::OneRtt},
};

pub const MAX62: u64 = (1 << 62) - 1;

pub fn put_varint(b: &mut Vec<u8>, v: u64) {
    debug_assert!(v <= MAX62);
    if v < 1 << 6 {
        b.push(v as u8);
    } else if v < 1 << 14 {
        b.extend_from_slice(&((v as u16) | 0x4000).to_be_bytes());
    } else if v < 1 << 30 {
        b.extend_from_slice(&((v as u32) | 0x8000_0000).to_be_bytes());
    } else {
        b.extend_from_slice(&(v | 0xc000_0000_0000_0000).to_be_bytes());
    }
}

/// stream id on the wire: index << 2 | uni << 1 | server-initiated
pub fn sid_raw(index: u64, uni: bool, server_initiated: bool) -> u64 {
    ((index & ((1 << 60) - 1)) << 2) | ((uni as u64) << 1) | server_initiated as u64
}

pub fn ack(largest: u64, delay: u64, first_range: u64, ranges: &[(u64, u64)], ecn: Option<(u64, u64, u64)>) -> Vec<u8> {
    let mut b = Vec::with_capacity(64);
    b.push(if ecn.is_some() { 0x03 } else { 0x02 });
    put_varint(&mut b, largest);
    put_varint(&mut b, delay);
    put_varint(&mut b, ranges.len() as u64);
    put_varint(&mut b, first_range);
    for (g, l) in ranges {
        put_varint(&mut b, *g);
        put_varint(&mut b, *l);
    }
    if let Some((a, c, d)) = ecn {
        put_varint(&mut b, a);
        put_varint(&mut b, c);
        put_varint(&mut b, d);
    }
    b
}

pub fn reset_stream(sid: u64, err: u64, final_size: u64) -> Vec<u8> {
    let mut b = vec![0x04];
    put_varint(&mut b, sid);
    put_varint(&mut b, err);
    put_varint(&mut b, final_size);
    b
}

pub fn stop_sending(sid: u64, err: u64) -> Vec<u8> {
    let mut b = vec![0x05];
    put_varint(&mut b, sid);
    put_varint(&mut b, err);
    b
}

pub fn crypto(offset: u64, data: &[u8]) -> Vec<u8> {
    let mut b = vec![0x06];
    put_varint(&mut b, offset);
    put_varint(&mut b, data.len() as u64);
    b.extend_from_slice(data);
    b
}

/// STREAM with explicit offset (when non-zero) and explicit length
pub fn stream(sid: u64, offset: u64, data: &[u8], fin: bool) -> Vec<u8> {
    let mut ty = 0x08 | 0x02;
    if offset != 0 {
        ty |= 0x04;
    }
    if fin {
        ty |= 0x01;
    }
    let mut b = vec![ty];
    put_varint(&mut b, sid);
    if offset != 0 {
        put_varint(&mut b, offset);
    }
    put_varint(&mut b, data.len() as u64);
    b.extend_from_slice(data);
    b
}

pub fn max_data(v: u64) -> Vec<u8> {
    let mut b = vec![0x10];
    put_varint(&mut b, v);
    b
}

pub fn max_stream_data(sid: u64, v: u64) -> Vec<u8> {
    let mut b = vec![0x11];
    put_varint(&mut b, sid);
    put_varint(&mut b, v);
    b
}

pub fn max_streams(uni: bool, v: u64) -> Vec<u8> {
    let mut b = vec![if uni { 0x13 } else { 0x12 }];
    put_varint(&mut b, v);
    b
}

pub fn data_blocked(v: u64) -> Vec<u8> {
    let mut b = vec![0x14];
    put_varint(&mut b, v);
    b
}

pub fn stream_data_blocked(sid: u64, v: u64) -> Vec<u8> {
    let mut b = vec![0x15];
    put_varint(&mut b, sid);
    put_varint(&mut b, v);
    b
}

pub fn streams_blocked(uni: bool, v: u64) -> Vec<u8> {
    let mut b = vec![if uni { 0x17 } else { 0x16 }];
    put_varint(&mut b, v);
    b
}

pub fn new_connection_id(seq: u64, rpt: u64, cid: &[u8], token: &[u8; 16]) -> Vec<u8> {
    let mut b = vec![0x18];
    put_varint(&mut b, seq);
    put_varint(&mut b, rpt);
    b.push(cid.len() as u8);
    b.extend_from_slice(cid);
    b.extend_from_slice(token);
    b
}

pub fn retire_connection_id(seq: u64) -> Vec<u8> {
    let mut b = vec![0x19];
    put_varint(&mut b, seq);
    b
}

/// DATAGRAM (RFC 9221 4): type 0x31 with a Length field, 0x30 without (the payload runs to the end of the packet)
pub fn datagram(payload_len: usize, with_len: bool) -> Vec<u8> {
    let mut b = vec![if with_len { 0x31 } else { 0x30 }];
    if with_len {
        put_varint(&mut b, payload_len as u64);
    }
    b.extend(std::iter::repeat_n(0xd7u8, payload_len));
    b
}

/// What `read_plain_packet` does with the payload of a 1-RTT packet holding exactly this frame.
pub fn parse_one(raw: Vec<u8>) -> Result<Frame, ErrorKind> {
    let mut reader = FrameReader::new(Bytes::from(raw), Type::Short(OneRtt::from(0u8)));
    match reader.next() {
        Some(Ok((frame, _ty))) => Ok(frame),
        Some(Err(e)) => Err(QuicError::from(e).kind()),
        None => Err(ErrorKind::ProtocolViolation),
    }
}
