//! ACK frames and packet-number jumps into the packet journals and the congestion controller.
//!
//! The fixture is one packet-number space of one path: `ArcSentJournal`, `ArcRcvdJournal` (created as
//! `Journal::with_capacity(16, None)` does), `ArcCC` created as `Path::new` does, with `Feedback` trackers that
//! do what `DataTracker::may_loss` does (`rotate().may_loss_packet(pn)`).
//!
//! Order for an ACK frame (`space/{initial,handshake,data}.rs::frame_dispathcer` + `space.rs::Ack*Space`):
//! `path.cc().on_ack_rcvd(epoch, &f)` → `rcvd_journal.on_rcvd_ack(&f)` → (piped) `rotate()`,
//! `update_largest(&f)?`, `f.iter().flat_map(|r| r.rev()).collect::<Vec<_>>()`, `on_packet_acked(pn)` each.
//! Order for a packet: `decode_pn` (while decrypting) → frames → `on_rcvd_pn(pn, ack_eliciting, cc.get_pto())`
//! → `path.on_packet_rcvd` → `cc.on_pkt_rcvd`; later the send loop: `cc.need_ack()` → `gen_ack_frame_util`.
use std::sync::{Arc, atomic::AtomicU16};

use qbase::{
    Epoch,
    frame::{AckFrame, Frame},
    net::tx::ArcSendWaker,
    packet::PacketNumber,
};
use qcongestion::{Algorithm, ArcCC, Feedback, HandshakeStatus, MSS, PathStatus, Transport};
use qevent::quic::recovery::PacketLostTrigger;
use qrecovery::{
    crypto::CryptoStream,
    journal::{ArcRcvdJournal, ArcSentJournal, Journal},
};
use serde::{Deserialize, Serialize};
use simcore::Rng;
use tokio::time::Duration;

use crate::{Answer, Base, Expect, Field, Forged, ProbeResult, meter, wire};

#[derive(Clone, Debug, Serialize, Deserialize, PartialEq)]
pub enum JOp {
    /// the endpoint sends a packet: `nframes` reliable frames, optionally the ACK the controller asks for;
    /// `lost`: the peer never receives it (its legitimate ACKs will not cover it)
    Send { nframes: u8, size: u16, with_ack: bool, lost: bool },
    /// a legitimate packet from the peer, `skip` packet numbers after the previous one
    Recv { skip: u8, ack_eliciting: bool },
    /// the peer acknowledges what it received up to the `sel`-th most recent packet
    PeerAck { sel: u8 },
    /// time passes; `do_tick` as `Path::drive` calls it
    Advance { ms: u16 },
}

#[derive(Clone, Debug, Serialize, Deserialize, PartialEq)]
pub struct JournalHist {
    /// 0 initial, 1 handshake, 2 data
    pub epoch: u8,
    pub server: bool,
    pub handshake_confirmed: bool,
    pub max_ack_delay_ms: u16,
    pub ops: Vec<JOp>,
}

pub fn gen_hist(r: &mut Rng, n: usize, ack_target: bool) -> JournalHist {
    let w_send = if ack_target { r.range(4, 10) } else { r.range(1, 4) };
    let w_recv = if ack_target { r.range(1, 4) } else { r.range(4, 10) };
    let w_ack = r.range(0, 4);
    let w_adv = r.range(0, 2);
    let total = w_send + w_recv + w_ack + w_adv;
    let p_lost = if r.one_in(2) { r.f64() * 0.4 } else { 0.0 };
    let mut ops = Vec::with_capacity(n);
    for _ in 0..n {
        let x = r.below(total);
        ops.push(if x < w_send {
            JOp::Send { nframes: *r.pick(&[0u8, 1, 1, 1, 2, 4]), size: *r.pick(&[40u16, 300, 1200]), with_ack: r.one_in(2), lost: r.chance(p_lost) }
        } else if x < w_send + w_recv {
            JOp::Recv { skip: if r.one_in(5) { r.range(1, 4) as u8 } else { 0 }, ack_eliciting: !r.one_in(4) }
        } else if x < w_send + w_recv + w_ack {
            JOp::PeerAck { sel: if r.one_in(3) { r.below(5) as u8 } else { 0 } }
        } else {
            JOp::Advance { ms: *r.pick(&[1u16, 5, 30, 120, 700]) }
        });
    }
    JournalHist { epoch: if r.one_in(4) { r.below(2) as u8 } else { 2 }, server: r.one_in(2), handshake_confirmed: !r.one_in(4), max_ack_delay_ms: *r.pick(&[0u16, 25, 25, 200]), ops }
}

struct Tracker(ArcSentJournal<u32>);

impl Feedback for Tracker {
    fn may_loss(&self, _trigger: PacketLostTrigger, pns: &mut dyn Iterator<Item = u64>) {
        let mut g = self.0.rotate();
        for pn in pns {
            for _frame in g.may_loss_packet(pn) {}
        }
    }
}

/// the real (private) `qconnection::space::Ack*Space` handler of the fixture's epoch, reached through hook H5, on
/// a journal of its own that has sent exactly as many packets as the fixture (trivial ones: the glue's cost and
/// answer for a forged ACK depend on the packet numbers only)
enum Glue {
    Crypto { journal: Journal<qbase::frame::CryptoFrame>, cs: CryptoStream },
    Data { journal: Journal<qconnection::GuaranteedFrame>, ds: qconnection::DataStreams, cs: CryptoStream },
}

impl Glue {
    fn new(epoch: Epoch, server: bool) -> Glue {
        use qbase::{net::tx::ArcSendWakers, param::{ClientParameters, ServerParameters}, role::Role, sid::handy::ConsistentConcurrency};
        let wakers = ArcSendWakers::default();
        let cs = CryptoStream::new(wakers.clone());
        if epoch != Epoch::Data {
            return Glue::Crypto { journal: Journal::with_capacity(16, None), cs };
        }
        let ctrl: Box<dyn qbase::sid::ControlStreamsConcurrency> = Box::new(ConsistentConcurrency::new(4, 4));
        let sink = qconnection::ArcReliableFrameDeque::with_capacity_and_wakers(8, wakers.clone());
        let ds = if server {
            qconnection::DataStreams::new(Role::Server, &ServerParameters::default(), &ClientParameters::default(), ctrl, sink, wakers, None)
        } else {
            qconnection::DataStreams::new(Role::Client, &ClientParameters::default(), &ServerParameters::default(), ctrl, sink, wakers, None)
        };
        Glue::Data { journal: Journal::with_capacity(16, None), ds, cs }
    }

    fn sent_one(&self, retran: Duration, expire: Duration) -> u64 {
        match self {
            Glue::Crypto { journal, .. } => {
                let sent = journal.of_sent_packets();
                let mut g = sent.new_packet();
                let pn = g.pn().0;
                g.record_trivial();
                g.build_with_time(retran, expire);
                pn
            }
            Glue::Data { journal, .. } => {
                let sent = journal.of_sent_packets();
                let mut g = sent.new_packet();
                let pn = g.pn().0;
                g.record_trivial();
                g.build_with_time(retran, expire);
                pn
            }
        }
    }

    fn recv_ack(&self, epoch: Epoch, f: AckFrame) -> Result<(), qbase::error::Error> {
        match self {
            Glue::Crypto { journal, cs } => qconnection::space::verif_hooks::recv_ack_crypto_space(epoch, journal, cs, f),
            Glue::Data { journal, ds, cs } => qconnection::space::verif_hooks::recv_ack_data_space(journal, ds.clone(), cs, f),
        }
    }
}

struct SentModel {
    pn: u64,
    lost: bool,
}

pub struct Fx {
    epoch: Epoch,
    sent: ArcSentJournal<u32>,
    rcvd: ArcRcvdJournal,
    cc: ArcCC,
    glue: Glue,
    max_ack_delay: Duration,
    pkts: Vec<SentModel>,
    next_tag: u32,
    peer_next: u64,
    /// largest peer packet number covered by an ACK the endpoint has sent
    peer_la: u64,
    units: u64,
}

impl Fx {
    fn new(h: &JournalHist) -> Fx {
        let epoch = [Epoch::Initial, Epoch::Handshake, Epoch::Data][h.epoch.min(2) as usize];
        let sent: ArcSentJournal<u32> = ArcSentJournal::with_capacity(16);
        let max_ack_delay = Duration::from_millis(h.max_ack_delay_ms as u64);
        // DataJournal::with_capacity(16, None); the peer's max_ack_delay arrives at TLS finish
        let rcvd = ArcRcvdJournal::with_capacity(16, None);
        if h.handshake_confirmed {
            rcvd.revise_max_ack_delay(max_ack_delay);
        }
        let hs = Arc::new(HandshakeStatus::new(h.server));
        if h.epoch >= 1 {
            hs.got_handshake_key();
        }
        if h.epoch == 2 {
            hs.received_handshake_ack();
            if h.handshake_confirmed {
                hs.handshake_confirmed();
            }
        }
        let status = PathStatus::new(hs, Arc::new(AtomicU16::new(MSS as u16)));
        status.release_anti_amplification_limit();
        let trackers: [Arc<dyn Feedback>; 3] = [Arc::new(Tracker(sent.clone())), Arc::new(Tracker(sent.clone())), Arc::new(Tracker(sent.clone()))];
        let cc = ArcCC::new(Algorithm::NewReno, max_ack_delay, trackers, status, ArcSendWaker::new());
        Fx { epoch, sent, rcvd, cc, glue: Glue::new(epoch, h.server), max_ack_delay, pkts: Vec::new(), next_tag: 1, peer_next: 0, peer_la: 0, units: 16 }
    }

    fn next_pn(&self) -> u64 {
        // a guard that records nothing does not consume the number
        self.sent.new_packet().pn().0
    }

    /// what `PacketWriter::new_short` .. `encrypt_and_protect_packet` .. `PacketsAssembler::commit` do to the journals
    fn send(&mut self, nframes: u8, size: u16, with_ack: bool, lost: bool) {
        let na = if with_ack { self.cc.need_ack(self.epoch).or_else(|| self.rcvd.need_ack()) } else { None };
        let (retran, expire) = self.cc.retransmit_and_expire_time(self.epoch);
        let mut g = self.sent.new_packet();
        let (pn, _enc) = g.pn();
        let mut largest_ack = None;
        if let Some((largest, t)) = na {
            if let Ok(f) = self.rcvd.gen_ack_frame_util(pn, largest, t, 1200) {
                g.record_trivial();
                largest_ack = Some(f.largest());
                self.peer_la = self.peer_la.max(f.largest());
            }
        }
        for _ in 0..nframes {
            g.record_frame(self.next_tag);
            self.next_tag += 1;
        }
        if nframes == 0 && largest_ack.is_none() {
            // PING / PADDING only
            g.record_trivial();
        }
        g.build_with_time(retran, expire);
        let glue_pn = self.glue.sent_one(retran, expire);
        debug_assert_eq!(glue_pn, pn);
        let ack_eliciting = nframes > 0 || largest_ack.is_none();
        self.cc.on_pkt_sent(self.epoch, pn, ack_eliciting, size as usize, ack_eliciting, largest_ack);
        self.pkts.push(SentModel { pn, lost });
        self.units += 2 + nframes as u64;
    }

    fn recv(&mut self, skip: u8, ack_eliciting: bool) -> Result<(), String> {
        let pn = self.peer_next + skip as u64;
        self.peer_next = pn + 1;
        let enc = PacketNumber::encode(pn, self.peer_la);
        match self.rcvd.decode_pn(enc) {
            Ok(p) if p == pn => {
                self.rcvd.on_rcvd_pn(pn, ack_eliciting, self.cc.get_pto(self.epoch));
                self.cc.on_pkt_rcvd(self.epoch, pn, ack_eliciting);
                self.units += skip as u64 + 1;
                Ok(())
            }
            other => Err(format!("legitimate packet {pn} (encoded against {}) decoded to {other:?}", self.peer_la)),
        }
    }

    /// a truthful ACK from the peer: every packet it received, from the chosen largest downwards
    fn peer_ack_frame(&self, sel: u8) -> Option<Vec<u8>> {
        let got: Vec<u64> = self.pkts.iter().filter(|p| !p.lost).map(|p| p.pn).collect();
        if got.is_empty() {
            return None;
        }
        let top = got.len() - 1 - (sel as usize).min(got.len() - 1);
        let mut ranges: Vec<(u64, u64)> = Vec::new(); // (hi, lo)
        for &pn in got[..=top].iter().rev() {
            match ranges.last_mut() {
                Some((_, lo)) if *lo == pn + 1 => *lo = pn,
                _ => {
                    if ranges.len() == 24 {
                        break;
                    }
                    ranges.push((pn, pn))
                }
            }
        }
        let first = ranges[0].0 - ranges[0].1;
        let rest: Vec<(u64, u64)> = ranges.windows(2).map(|w| (w[0].1 - w[1].0 - 2, w[1].0 - w[1].1)).collect();
        Some(wire::ack(ranges[0].0, 100, first, &rest, None))
    }

    /// the three steps the stack performs for an ACK frame; metered when `runs` is given
    fn deliver_ack(&self, f: &AckFrame, runs: &mut Vec<meter::HandlerRun>) -> Answer {
        let (cc, epoch) = (&self.cc, self.epoch);
        if meter::handler(runs, "cc.on_ack_rcvd", || cc.on_ack_rcvd(epoch, f)).is_none() {
            return Answer::Panic;
        }
        let rcvd = &self.rcvd;
        if meter::handler(runs, "rcvd-journal.on_rcvd_ack", || rcvd.on_rcvd_ack(f)).is_none() {
            return Answer::Panic;
        }
        let sent = &self.sent;
        let r = meter::handler(runs, "sent-journal.recv_ack", || {
            // Ack*Space::recv_frame
            let mut rotate_guard = sent.rotate();
            rotate_guard.update_largest(f)?;
            let acked = f.iter().flat_map(|r| r.rev()).collect::<Vec<_>>();
            let mut n = 0u64;
            for pn in acked {
                for _frame in rotate_guard.on_packet_acked(pn) {
                    n += 1;
                }
            }
            Ok::<u64, qbase::error::QuicError>(n)
        });
        // the same frame through the real glue of `qconnection::space` (hook H5); its answer must be the mirror's
        let (glue, f2) = (&self.glue, f.clone());
        let g = meter::handler(runs, "space.Ack*Space.recv_frame", move || glue.recv_ack(epoch, f2));
        let answer = |r: Option<Result<(), String>>| match r {
            None => Answer::Panic,
            Some(Ok(())) => Answer::Ok,
            Some(Err(e)) => Answer::Err(e),
        };
        let mirror = answer(r.map(|r| r.map(|_| ()).map_err(|e| format!("{:?}", e.kind()))));
        let real = answer(g.map(|r| {
            r.map_err(|e| match e {
                qbase::error::Error::Quic(q) => format!("{:?}", q.kind()),
                other => format!("{other:?}"),
            })
        }));
        if real != mirror { real } else { mirror }
    }

    async fn run(&mut self, ops: &[JOp]) -> Result<(), String> {
        for op in ops {
            match op {
                JOp::Send { nframes, size, with_ack, lost } => self.send(*nframes, *size, *with_ack, *lost),
                JOp::Recv { skip, ack_eliciting } => self.recv(*skip, *ack_eliciting)?,
                JOp::PeerAck { sel } => {
                    if let Some(raw) = self.peer_ack_frame(*sel) {
                        let f = match wire::parse_one(raw) {
                            Ok(Frame::Ack(f)) => f,
                            other => return Err(format!("legitimate ACK did not parse: {other:?}")),
                        };
                        let mut runs = Vec::new();
                        match self.deliver_ack(&f, &mut runs) {
                            Answer::Ok => {}
                            other => return Err(format!("legitimate ACK {f:?} answered {other:?} ({:?})", runs.iter().filter_map(|r| r.panic.clone()).collect::<Vec<_>>())),
                        }
                    }
                }
                JOp::Advance { ms } => {
                    tokio::time::advance(Duration::from_millis(*ms as u64)).await;
                    let _ = self.cc.do_tick();
                }
            }
        }
        Ok(())
    }
}

pub async fn probe(h: &JournalHist, forged: &Forged, field: Field) -> ProbeResult {
    let mut fx = Fx::new(h);
    if let Err(e) = fx.run(&h.ops).await {
        return ProbeResult::harness(e);
    }
    meter::arm(true);
    let mut res = ProbeResult::new();
    res.units = fx.units;
    match forged {
        Forged::Ack { largest, delay, first_range, ranges, ecn } => {
            let next_pn = fx.next_pn();
            // resolve in wire order; `Floor` is the value at which the field reaches packet number 0
            let lg = largest.resolve(&|b| match b {
                Base::NextPn => next_pn,
                _ => 0,
            });
            // only the field under test may make the frame illegal: the other fields are clamped to legal values
            // (Largest Acknowledged is left as drawn: an acknowledgement of a packet never sent is a case of its own)
            let mut fr = first_range.resolve(&|b| match b {
                Base::Largest | Base::Floor => lg,
                Base::NextPn => next_pn,
                _ => 0,
            });
            if field != Field::FirstRange {
                fr = fr.min(lg);
                if fr > 4096 {
                    // a side field never carries a second large value (the ladder varies one field only)
                    fr %= 3;
                }
            }
            let mut below_zero: Option<&'static str> = if fr > lg { Some("first_range") } else { None };
            let mut smallest = lg.saturating_sub(fr);
            let mut rs = Vec::with_capacity(ranges.len());
            for (i, (g, l)) in ranges.iter().enumerate() {
                let mut gv = g.resolve(&|b| match b {
                    Base::Floor => smallest.saturating_sub(2),
                    Base::Largest => lg,
                    Base::NextPn => next_pn,
                    _ => 0,
                });
                if field != Field::Gap(i as u8) && below_zero.is_none() {
                    if smallest < 2 {
                        // the packet number space is used up: a legal frame ends here
                        res.notes.push("probe.ack_side_ranges_truncated");
                        break;
                    }
                    gv = gv.min(smallest - 2);
                    if gv > 4096 {
                        gv %= 3;
                    }
                }
                if below_zero.is_none() && gv + 2 > smallest {
                    below_zero = Some("gap");
                }
                let cur_largest = smallest.saturating_sub(gv + 2);
                let mut lv = l.resolve(&|b| match b {
                    Base::Floor => cur_largest,
                    Base::Largest => lg,
                    Base::NextPn => next_pn,
                    _ => 0,
                });
                if field != Field::Range(i as u8) && below_zero.is_none() {
                    lv = lv.min(cur_largest);
                    if lv > 4096 {
                        lv %= 3;
                    }
                }
                if below_zero.is_none() && lv > cur_largest {
                    below_zero = Some("range");
                }
                smallest = cur_largest.saturating_sub(lv);
                rs.push((gv, lv));
            }
            if let Some(w) = below_zero {
                res.culprit = Some(format!("ack.{w}"));
            }
            let none = |_b: Base| 0u64;
            let ecn_v = ecn.map(|e| (e[0].resolve(&none), e[1].resolve(&none), e[2].resolve(&none)));
            let raw = wire::ack(lg, delay.resolve(&none), fr, &rs, ecn_v);
            res.frame_len = raw.len();
            res.detail = format!("ACK largest={lg} first_range={fr} ranges={:?} ecn={ecn_v:?}; next pn to send {next_pn}", &rs[..rs.len().min(4)]);
            // RFC 9000 §19.3.1 (ranges below 0 -> FRAME_ENCODING_ERROR; PROTOCOL_VIOLATION accepted too), §13.1
            // (acknowledgement of a packet never sent -> PROTOCOL_VIOLATION)
            let mut allowed: Vec<&'static str> = Vec::new();
            let mut case = String::new();
            if let Some(which) = below_zero {
                allowed.extend(["FrameEncoding", "ProtocolViolation"]);
                case = format!("ack-{which}-below-zero");
            }
            if lg >= next_pn {
                if !allowed.contains(&"ProtocolViolation") {
                    allowed.push("ProtocolViolation");
                }
                if case.is_empty() {
                    case = if lg == next_pn { "ack-largest-eq-next-pn".into() } else { "ack-largest-beyond-next-pn".into() };
                }
            }
            let legal = allowed.is_empty();
            if legal {
                allowed.push("Ok");
                case = "ack-legal".into();
            }
            res.expect = Some(Expect { case, allowed, legal });
            match wire::parse_one(raw) {
                Ok(Frame::Ack(f)) => {
                    res.answer = fx.deliver_ack(&f, &mut res.handlers);
                }
                Ok(other) => return ProbeResult::harness(format!("forged ACK decoded as {other:?}")),
                Err(k) => res.answer = Answer::Err(format!("{k:?}")),
            }
        }
        Forged::Pn { target, ack_eliciting } => {
            let expected = fx.peer_next;
            let tgt = target.resolve(&|b| match b {
                Base::Expected => expected,
                _ => 0,
            });
            // the peer picks the shortest encoding that decodes exactly (RFC 9000 §17.1), at most 4 bytes
            let dist = tgt.abs_diff(expected);
            let enc = if dist < 1 << 7 {
                PacketNumber::U8(tgt as u8)
            } else if dist < 1 << 15 {
                PacketNumber::U16(tgt as u16)
            } else if dist < 1 << 23 {
                PacketNumber::U24((tgt & 0xff_ffff) as u32)
            } else {
                PacketNumber::U32(tgt as u32)
            };
            res.frame_len = 1 + enc.size() + 8 + 3 + 16;
            res.detail = format!("packet number {tgt} encoded as {enc:?}, next expected {expected}");
            let rcvd = &fx.rcvd;
            let decoded = match meter::handler(&mut res.handlers, "rcvd-journal.decode_pn", || rcvd.decode_pn(enc)) {
                None => {
                    res.answer = Answer::Panic;
                    return finish(fx, res);
                }
                Some(Err(e)) => {
                    res.answer = Answer::Dropped(match e {
                        qbase::packet::InvalidPacketNumber::TooOld => "too-old",
                        qbase::packet::InvalidPacketNumber::TooLarge => "too-large",
                        qbase::packet::InvalidPacketNumber::Duplicate => "duplicate",
                    });
                    return finish(fx, res);
                }
                Some(Ok(pn)) => pn,
            };
            if decoded > expected {
                res.notes.push("probe.pn_jump_forward");
            }
            let (cc, epoch, ae) = (&fx.cc, fx.epoch, *ack_eliciting);
            let pto = cc.get_pto(epoch);
            if meter::handler(&mut res.handlers, "rcvd-journal.on_rcvd_pn", || {
                rcvd.on_rcvd_pn(decoded, ae, pto);
                cc.on_pkt_rcvd(epoch, decoded, ae);
            })
            .is_none()
            {
                res.answer = Answer::Panic;
                return finish(fx, res);
            }
            // the send loop answers once the ack delay has passed
            tokio::time::advance(fx.max_ack_delay + Duration::from_millis(1)).await;
            let sent = &fx.sent;
            let r = meter::handler(&mut res.handlers, "rcvd-journal.gen_ack_frame_util", || {
                let na = cc.need_ack(epoch).or_else(|| rcvd.need_ack());
                let (retran, expire) = cc.retransmit_and_expire_time(epoch);
                let mut g = sent.new_packet();
                let (pn, _) = g.pn();
                let mut ranges = 0;
                if let Some((largest, t)) = na {
                    if let Ok(f) = rcvd.gen_ack_frame_util(pn, largest, t, 1200) {
                        g.record_trivial();
                        ranges = f.ranges().len() + 1;
                    }
                }
                g.build_with_time(retran, expire);
                ranges
            });
            match r {
                None => res.answer = Answer::Panic,
                Some(n) => {
                    res.emitted = n as u64;
                    if n > 0 {
                        res.notes.push("probe.ack_generated_after_jump");
                    }
                }
            }
        }
        other => return ProbeResult::harness(format!("journal fixture cannot take {other:?}")),
    }
    finish(fx, res)
}

fn finish(fx: Fx, res: ProbeResult) -> ProbeResult {
    // a handler that panicked may have poisoned a lock that the teardown takes
    let _ = meter::guarded(move || drop(fx));
    res
}
