//! NEW_CONNECTION_ID / RETIRE_CONNECTION_ID / active_connection_id_limit into the connection-id registries.
//!
//! The fixture is built as `ConnectionFoundation::with_cids` + `PendingConnection::run` build it (and as
//! cidsim does): `QuicRouter::registry_on_issuing_scid` → `gen_unique_cid` → `ArcLocalCids::new(scid, registry)`,
//! `ArcRemoteCids::new(local active_connection_id_limit, frame queue)`, one path cell from `apply_dcid`,
//! `apply_initial_dcid(peer scid, cell)` when the first Initial packet is processed, `set_limit(peer limit)`
//! at TLS finish (`tls_fin_handler`). Frames reach the registries as `pipe(rcvd_new_cid_frames,
//! cid_registry.remote)` / `pipe(rcvd_retire_cid_frames, cid_registry.local)` deliver them.
use std::{
    collections::BTreeSet,
    sync::{Arc, Mutex},
};

use qbase::{
    cid::{ArcCidCell, ArcLocalCids, ArcRemoteCids, ConnectionId, GenUniqueCid},
    frame::{
        Frame, ReliableFrame,
        io::{ReceiveFrame, SendFrame},
    },
};
use qinterface::component::route::{QuicRouter, QuicRouterRegistry, RcvdPacketQueue};
use serde::{Deserialize, Serialize};
use simcore::Rng;

use crate::{Answer, Base, Expect, Forged, ProbeResult, meter, wire};

#[derive(Clone, Debug, Serialize, Deserialize, PartialEq)]
pub enum COp {
    /// the peer issues its next connection id; `bump`: it raises Retire Prior To by that many (0 = only when it must)
    PeerIssue { bump: u8 },
    /// the peer retires the `sel`-th of the connection ids it currently holds
    PeerRetire { sel: u8 },
    /// the peer issues its next connection id but the frame stays in flight (reordered behind everything that
    /// follows); a peer that goes on issuing as if this id did not count over-issues without the endpoint being
    /// able to tell — until the held frame arrives (`Base::PeerHeld`)
    PeerIssueHold,
}

#[derive(Clone, Debug, Serialize, Deserialize, PartialEq)]
pub struct CidHist {
    /// the endpoint's active_connection_id_limit
    pub local_limit: u8,
    /// the peer's active_connection_id_limit (applied by the history unless the forged item is that parameter)
    pub peer_limit: u8,
    /// TLS finished before the forged frame (`set_limit` done)
    pub handshaken: bool,
    pub ops: Vec<COp>,
}

pub fn gen_hist(r: &mut Rng, n: usize, handshaken: bool) -> CidHist {
    let mut ops = Vec::with_capacity(n);
    for _ in 0..n {
        ops.push(if r.one_in(3) {
            COp::PeerRetire { sel: r.below(8) as u8 }
        } else if r.one_in(12) {
            COp::PeerIssueHold
        } else {
            COp::PeerIssue { bump: if r.one_in(3) { r.range(1, 3) as u8 } else { 0 } }
        });
    }
    CidHist { local_limit: *r.pick(&[2u8, 2, 3, 4, 8, 10]), peer_limit: *r.pick(&[2u8, 2, 3, 4, 8, 10]), handshaken, ops }
}

/// what `ArcReliableFrameDeque<ReliableFrame>` is in qconnection: the queue of frames to be sent to the peer
/// (entries are `ReliableFrame`s, as there, so that queueing a frame costs what it costs in the stack)
#[derive(Clone, Default)]
pub struct Sink(Arc<Mutex<std::collections::VecDeque<ReliableFrame>>>);

impl<T: Into<ReliableFrame>> SendFrame<T> for Sink {
    fn send_frame<I: IntoIterator<Item = T>>(&self, iter: I) {
        self.0.lock().unwrap().extend(iter.into_iter().map(Into::into));
    }
}

impl Sink {
    fn counts(&self) -> (usize, usize) {
        let g = self.0.lock().unwrap();
        let n = g.iter().filter(|f| matches!(f, ReliableFrame::NewConnectionId(_))).count();
        (n, g.len() - n)
    }
}

fn peer_cid(seq: u64) -> ConnectionId {
    // first byte has the top bit clear: never equal to an id from `random_gen_with_mark(8, 0x80, 0x7f)`
    let s = seq.to_be_bytes();
    ConnectionId::from_slice(&[0x20, s[1], s[2], s[3], s[4], s[5], s[6], s[7]])
}

struct Fx {
    local: ArcLocalCids<QuicRouterRegistry<Sink>>,
    remote: ArcRemoteCids<Sink>,
    _cell: ArcCidCell<Sink>,
    _router: Arc<QuicRouter>,
    sink: Sink,
    local_limit: u64,
    // peer model as issuer
    p_next: u64,
    p_rpt: u64,
    /// sequence numbers of the peer's ids whose frames have been delivered
    p_received: BTreeSet<u64>,
    /// issued by the peer, frame still in flight
    p_held: Vec<u64>,
    // peer model as holder of our ids
    peer_holds: BTreeSet<u64>,
    local_next: u64,
    seen_new: usize,
    units: u64,
}

impl Fx {
    fn new(h: &CidHist) -> Fx {
        let router = Arc::new(QuicRouter::new());
        let queue = Arc::new(RcvdPacketQueue::new());
        let sink = Sink::default();
        let registry = router.registry_on_issuing_scid(queue, sink.clone());
        let initial_scid = registry.gen_unique_cid();
        let local = ArcLocalCids::new(initial_scid, registry);
        let remote = ArcRemoteCids::new(h.local_limit as u64, sink.clone());
        let cell = remote.apply_dcid();
        remote.apply_initial_dcid(peer_cid(0), &cell);
        let mut fx = Fx {
            local,
            remote,
            _cell: cell,
            _router: router,
            sink,
            local_limit: h.local_limit as u64,
            p_next: 1,
            p_rpt: 0,
            p_received: [0u64].into_iter().collect(),
            p_held: Vec::new(),
            peer_holds: [0u64].into_iter().collect(),
            local_next: 1,
            seen_new: 0,
            units: 8,
        };
        fx.pump();
        fx
    }

    /// the peer learns the ids issued since the last call
    fn pump(&mut self) {
        let g = self.sink.0.lock().unwrap();
        for f in g.iter().skip(self.seen_new) {
            if let ReliableFrame::NewConnectionId(f) = f {
                self.peer_holds.insert(f.sequence());
                self.local_next = self.local_next.max(f.sequence() + 1);
            }
        }
        self.seen_new = g.len();
    }

    fn run(&mut self, h: &CidHist) -> Result<(), String> {
        if h.handshaken {
            self.local.set_limit(h.peer_limit as u64).map_err(|e| format!("set_limit({}) failed: {e}", h.peer_limit))?;
            self.pump();
        }
        for op in &h.ops {
            match op {
                COp::PeerIssue { bump } => {
                    let seq = self.p_next;
                    let mut rpt = (self.p_rpt + *bump as u64).min(seq);
                    // the issuer keeps what the endpoint has received within our limit (ids whose frames are still in
                    // flight are not counted: see `PeerIssueHold`)
                    while self.p_received.range(rpt..).count() as u64 + 1 > self.local_limit {
                        rpt += 1;
                    }
                    self.p_held.retain(|h| *h >= rpt);
                    let raw = wire::new_connection_id(seq, rpt, &peer_cid(seq)[..], &[seq as u8; 16]);
                    let f = match wire::parse_one(raw) {
                        Ok(Frame::NewConnectionId(f)) => f,
                        other => return Err(format!("legitimate NEW_CONNECTION_ID did not parse: {other:?}")),
                    };
                    self.remote.recv_frame(f).map_err(|e| format!("legitimate NEW_CONNECTION_ID seq={seq} rpt={rpt} (limit {}) rejected: {e}", self.local_limit))?;
                    self.p_next = seq + 1;
                    self.p_rpt = rpt;
                    self.p_received.insert(seq);
                    self.units += 1;
                }
                COp::PeerIssueHold => {
                    if self.p_held.len() < 2 {
                        self.p_held.push(self.p_next);
                        self.p_next += 1;
                    }
                }
                COp::PeerRetire { sel } => {
                    if !h.handshaken || self.peer_holds.len() < 2 {
                        continue;
                    }
                    let seq = *self.peer_holds.iter().nth(*sel as usize % self.peer_holds.len()).unwrap();
                    let f = match wire::parse_one(wire::retire_connection_id(seq)) {
                        Ok(Frame::RetireConnectionId(f)) => f,
                        other => return Err(format!("legitimate RETIRE_CONNECTION_ID did not parse: {other:?}")),
                    };
                    self.local.recv_frame(f).map_err(|e| format!("legitimate RETIRE_CONNECTION_ID seq={seq} rejected: {e}"))?;
                    self.peer_holds.remove(&seq);
                    self.pump();
                    self.units += 1;
                }
            }
        }
        Ok(())
    }
}

pub fn probe(h: &CidHist, forged: &Forged, _seed: u64) -> ProbeResult {
    let mut fx = Fx::new(h);
    if let Err(e) = fx.run(h) {
        return ProbeResult::harness(e);
    }
    meter::arm(true);
    let mut res = ProbeResult::new();
    res.units = fx.units + fx.local_limit + h.peer_limit as u64;
    let (p_next, p_rpt, local_next, limit) = (fx.p_next, fx.p_rpt, fx.local_next, fx.local_limit);
    let p_received = fx.p_received.clone();
    let held = fx.p_held.first().copied().unwrap_or(p_next);
    let anchor = |b: Base| match b {
        Base::PeerHeld => held,
        Base::PeerNextSeq => p_next,
        Base::PeerRpt => p_rpt,
        Base::LocalNextSeq => local_next,
        Base::CidLimit => limit,
        _ => 0,
    };
    let before = fx.sink.counts();
    match forged {
        Forged::NewCid { seq, rpt } => {
            let (s, rp) = (seq.resolve(&anchor), rpt.resolve(&anchor));
            // a retransmission carries the same id; a new sequence number a new id
            let raw = wire::new_connection_id(s, rp, &peer_cid(s)[..], &[s as u8; 16]);
            res.frame_len = raw.len();
            res.detail = format!("NEW_CONNECTION_ID seq={s} retire_prior_to={rp}; peer had issued 0..{p_next} with retire_prior_to {p_rpt}, our limit {limit}");
            // RFC 9000 §19.15: rpt > seq -> FRAME_ENCODING_ERROR; §5.1.1: more active ids than the limit after
            // applying the frame -> CONNECTION_ID_LIMIT_ERROR; a gap in the sequence numbers is not an error
            let new_rpt = p_rpt.max(rp);
            let mut after = p_received.clone();
            after.insert(s);
            let active = after.range(new_rpt..).count() as u64;
            res.detail.push_str(&format!("; delivered {:?}{}", p_received.iter().rev().take(12).collect::<Vec<_>>(), if held < p_next { format!(", seq {held} still in flight") } else { String::new() }));
            let expect = if rp > s {
                Expect { case: "new-cid-rpt-gt-seq".into(), allowed: vec!["FrameEncoding"], legal: false }
            } else if active > limit {
                Expect { case: "new-cid-over-limit".into(), allowed: vec!["ConnectionIdLimit"], legal: false }
            } else if s > p_received.iter().next_back().copied().unwrap_or(0) + 1 {
                // far-ahead sequence number: legal, an implementation may still refuse to track the gap
                Expect { case: "new-cid-gap".into(), allowed: vec!["Ok", "ConnectionIdLimit", "ProtocolViolation"], legal: true }
            } else {
                Expect { case: "new-cid-legal".into(), allowed: vec!["Ok"], legal: true }
            };
            res.expect = Some(expect);
            match wire::parse_one(raw) {
                Ok(Frame::NewConnectionId(f)) => {
                    let remote = &fx.remote;
                    match meter::handler(&mut res.handlers, "remote-cids.recv_new_cid", || remote.recv_frame(f)) {
                        None => res.answer = Answer::Panic,
                        Some(Ok(_)) => res.answer = Answer::Ok,
                        Some(Err(e)) => res.answer = Answer::Err(format!("{:?}", e.kind())),
                    }
                }
                Ok(other) => return ProbeResult::harness(format!("forged NEW_CONNECTION_ID decoded as {other:?}")),
                Err(k) => res.answer = Answer::Err(format!("{k:?}")),
            }
        }
        Forged::RetireCid { seq } => {
            let s = seq.resolve(&anchor);
            let raw = wire::retire_connection_id(s);
            res.frame_len = raw.len();
            res.detail = format!("RETIRE_CONNECTION_ID seq={s}; we had issued 0..{local_next}");
            // RFC 9000 §19.16: a sequence number greater than any previously sent -> PROTOCOL_VIOLATION
            res.expect = Some(if s >= local_next {
                Expect { case: "retire-unissued".into(), allowed: vec!["ProtocolViolation"], legal: false }
            } else {
                Expect { case: "retire-legal".into(), allowed: vec!["Ok"], legal: true }
            });
            match wire::parse_one(raw) {
                Ok(Frame::RetireConnectionId(f)) => {
                    let local = &fx.local;
                    match meter::handler(&mut res.handlers, "local-cids.recv_retire_cid", || local.recv_frame(f)) {
                        None => res.answer = Answer::Panic,
                        Some(Ok(())) => res.answer = Answer::Ok,
                        Some(Err(e)) => res.answer = Answer::Err(format!("{:?}", e.kind())),
                    }
                }
                Ok(other) => return ProbeResult::harness(format!("forged RETIRE_CONNECTION_ID decoded as {other:?}")),
                Err(k) => res.answer = Answer::Err(format!("{k:?}")),
            }
        }
        Forged::SetLimit { limit: l } => {
            if h.handshaken {
                return ProbeResult::harness("set_limit is applied once, at handshake completion");
            }
            let v = l.resolve(&anchor);
            res.frame_len = 2 + 8;
            res.detail = format!("peer transport parameter active_connection_id_limit={v}");
            // RFC 9000 §18.2: values below 2 -> TRANSPORT_PARAMETER_ERROR; §5.1.1: the endpoint MAY issue fewer ids
            res.expect = Some(if v < 2 {
                Expect { case: "active-cid-limit-below-2".into(), allowed: vec!["TransportParameter"], legal: false }
            } else {
                Expect { case: "active-cid-limit-legal".into(), allowed: vec!["Ok"], legal: true }
            });
            let local = &fx.local;
            match meter::handler(&mut res.handlers, "local-cids.set_limit", || local.set_limit(v)) {
                None => res.answer = Answer::Panic,
                Some(Ok(())) => res.answer = Answer::Ok,
                Some(Err(e)) => res.answer = Answer::Err(format!("{:?}", e.kind())),
            }
        }
        other => return ProbeResult::harness(format!("cid fixture cannot take {other:?}")),
    }
    let after = fx.sink.counts();
    res.emitted = (after.0 - before.0 + after.1 - before.1) as u64;
    if after.1 > before.1 {
        res.notes.push("probe.retire_frames_emitted");
    }
    if after.0 > before.0 {
        res.notes.push("probe.new_cid_frames_emitted");
    }
    let _ = meter::guarded(move || drop(fx));
    res
}
