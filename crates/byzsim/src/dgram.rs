//! DATAGRAM frames (RFC 9221) into the datagram flow.
//!
//! The fixture is `DatagramFlow::new(local max_datagram_frame_size, wakers)` as `qconnection::builder` builds it,
//! with an application reader; frames reach it as `Frame::Datagram(f, data) => datagram_flow.recv_frame((f, data))`
//! in the 0-RTT / 1-RTT frame dispatcher.
use qbase::{frame::{Frame, io::ReceiveFrame}, net::tx::ArcSendWakers};
use qdatagram::DatagramFlow;
use serde::{Deserialize, Serialize};
use simcore::Rng;

use crate::{Answer, Base, Expect, Forged, ProbeResult, meter, wire};

#[derive(Clone, Debug, Serialize, Deserialize, PartialEq)]
pub enum DOp {
    /// a legitimate datagram of `len` payload bytes from the peer (clamped to what the local maximum admits)
    Recv { len: u16, with_len: bool },
    /// the application reads one datagram
    Read,
}

#[derive(Clone, Debug, Serialize, Deserialize, PartialEq)]
pub struct DgramHist {
    /// the endpoint's max_datagram_frame_size transport parameter
    pub local_max: u16,
    pub ops: Vec<DOp>,
}

pub fn gen_hist(r: &mut Rng, n: usize) -> DgramHist {
    let local_max = *r.pick(&[1u16, 2, 3, 64, 65, 100, 1200, 16384, 65535]);
    let ops = (0..n).map(|_| if r.one_in(3) { DOp::Read } else { DOp::Recv { len: r.below(1400) as u16, with_len: r.one_in(2) } }).collect();
    DgramHist { local_max, ops }
}

fn frame_size(payload: usize, with_len: bool) -> usize {
    wire::datagram(0, false).len() + if with_len { let mut b = Vec::new(); wire::put_varint(&mut b, payload as u64); b.len() } else { 0 } + payload
}

pub fn probe(h: &DgramHist, forged: &Forged) -> ProbeResult {
    let flow = DatagramFlow::new(h.local_max as u64, ArcSendWakers::default());
    let reader = match flow.reader() {
        Ok(r) => r,
        Err(e) => return ProbeResult::harness(format!("no datagram reader: {e}")),
    };
    let local_max = h.local_max as usize;
    let mut queued = 0u64;
    for op in &h.ops {
        match op {
            DOp::Recv { len, with_len } => {
                // the largest payload a legitimate peer may send in this encoding
                let mut n = (*len as usize).min(local_max.saturating_sub(1));
                while n > 0 && frame_size(n, *with_len) > local_max {
                    n -= 1;
                }
                if frame_size(n, *with_len) > local_max {
                    continue;
                }
                match wire::parse_one(wire::datagram(n, *with_len)) {
                    Ok(Frame::Datagram(f, data)) => {
                        if let Err(e) = flow.recv_frame((f, data)) {
                            return ProbeResult::harness(format!("legitimate DATAGRAM of {} bytes (local maximum {local_max}) rejected: {e}", frame_size(n, *with_len)));
                        }
                        queued += 1;
                    }
                    other => return ProbeResult::harness(format!("legitimate DATAGRAM did not parse: {other:?}")),
                }
            }
            DOp::Read => {
                if queued > 0 {
                    let task = simcore::wake::Task::new();
                    if let std::task::Poll::Ready(Ok(_)) = task.with_cx(|cx| reader.poll_recv(cx)) {
                        queued -= 1;
                    }
                }
            }
        }
    }
    meter::arm(true);
    let mut res = ProbeResult::new();
    res.units = queued + 4;
    let Forged::Datagram { len, with_len } = forged else {
        return ProbeResult::harness(format!("datagram fixture cannot take {forged:?}"));
    };
    let n = len.resolve(&|b| match b {
        // the payload length at which the frame in this encoding is exactly the local maximum
        Base::DgramMax => {
            let mut n = local_max;
            while n > 0 && frame_size(n, *with_len) > local_max {
                n -= 1;
            }
            n as u64
        }
        _ => 0,
    }) as usize;
    let n = n.min(65_535);
    let raw = wire::datagram(n, *with_len);
    let size = raw.len();
    res.frame_len = size;
    res.detail = format!("DATAGRAM type {:#x} payload {n} bytes, frame {size} bytes; local max_datagram_frame_size {local_max}; {queued} datagrams queued", if *with_len { 0x31 } else { 0x30 });
    // RFC 9221 3: a DATAGRAM frame larger than the advertised max_datagram_frame_size -> PROTOCOL_VIOLATION
    res.expect = Some(if size > local_max {
        Expect { case: format!("datagram-over-local-max:{}", if *with_len { "with-length" } else { "without-length" }), allowed: vec!["ProtocolViolation"], legal: false }
    } else {
        Expect { case: "datagram-legal".into(), allowed: vec!["Ok"], legal: true }
    });
    match wire::parse_one(raw) {
        Ok(Frame::Datagram(f, data)) => match meter::handler(&mut res.handlers, "datagram.recv_datagram", || flow.recv_frame((f, data))) {
            None => res.answer = Answer::Panic,
            Some(Ok(())) => res.answer = Answer::Ok,
            Some(Err(e)) => res.answer = Answer::Err(format!("{:?}", e.kind())),
        },
        Ok(other) => return ProbeResult::harness(format!("forged DATAGRAM decoded as {other:?}")),
        Err(k) => res.answer = Answer::Err(format!("{k:?}")),
    }
    drop(reader);
    res
}
