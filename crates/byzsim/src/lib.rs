//! byzsim — Byzantine frame injection (C04).
//!
//! One case = a target handler chain, a short legitimate history built by the case's own op list, and
//! one forged frame (or packet number) whose field under test carries a value from
//! `{0, 1, state-relative boundary ± 1, 2^8, 2^12, 2^16, 2^20, 2^22, 2^31 ± 1, 2^62 − 1}`.
//! Every forged frame is written byte by byte from RFC 9000 §19 (`wire.rs`), decoded by the library's own
//! `FrameReader` and handed to the handlers in the order the connection's frame dispatcher uses
//! (`journal.rs`: ACK and packet numbers, `cid.rs`: connection ids, `stream.rs`: streams, flow control, CRYPTO).
//!
//! Work oracle. The forged call is metered per handler: bytes allocated (exact, per thread) and thread CPU
//! time. When the field under test carries an absolute value of at least 2^8 the whole ladder
//! 2^8, 2^12, 2^16, 2^20, 2^22 is climbed with every other field and the history unchanged (fresh, identical
//! state for each step). A handler violates `work-mem` when it allocates at least 1 MiB, more than
//! `256·(frame bytes + state entries) + 64 KiB`, and at least 64 times what it allocated at 2^8; the ladder
//! stops there. `work-cpu` is judged at the top of the ladder only, on the whole chain the stack runs for the
//! frame: at least 2 ms and more than `1 µs·(frame bytes + state entries) + 0.5 ms`, per-handler minimum of three
//! to eight runs (CPU time is only ever inflated); every handler of such a chain that contributes at least 0.5 ms
//! and at least 64 times its cost at 2^8 is named. Values above 2^22 are sent only if no handler of the chain was
//! flagged and none panicked on the ladder. A probe that uses 5 s of CPU (or blocks for 30 s) is given up:
//! `work-cpu:<handler>:<field>:timeout`. A panic inside a handler is `panic:<handler>:<field>`.
//!
//! Error oracle. `Expect` is computed from a reference model of the state (RFC 9000 §4, §5.1, §13.1, §19) and
//! lists every error kind the RFC allows for the frame; every rule a frame breaks contributes its kinds. A legal
//! frame that is rejected is only counted (`probe.legal_rejected.*`).
//!
//! Only the field under test may make a frame illegal or large: the other fields are drawn from small legal
//! values and clamped to legality against the state when the frame is built.
pub mod cid;
pub mod dgram;
pub mod journal;
pub mod meter;
pub mod stream;
pub mod wire;

use std::{collections::BTreeMap, sync::mpsc, time::Duration};

use serde::{Deserialize, Serialize};
use simcore::{Engine, Outcome, Rng, Tier, TraceHash};

use crate::meter::{Cost, HandlerRun};

pub const MAX62: u64 = wire::MAX62;
/// the value ladder (exponents); it tops out at 2^22 so that the harness survives a linear handler
pub const LADDER: [u8; 5] = [8, 12, 16, 20, 22];
const WATCHDOG_CPU_NS: u64 = 5_000_000_000;
const WATCHDOG_WALL: Duration = Duration::from_secs(30);

// ---------------------------------------------------------------------------------------------
// values

#[derive(Clone, Copy, Debug, Serialize, Deserialize, PartialEq, Eq)]
pub enum Base {
    Zero,
    Pow2(u8),
    Max62,
    /// ACK: the next packet number the endpoint will send (= first number never sent)
    NextPn,
    /// ACK: the frame's own Largest Acknowledged
    Largest,
    /// ACK: the value of this field at which the range reaches packet number 0 exactly
    Floor,
    /// packet number: the next expected packet number (largest received + 1)
    Expected,
    /// NEW_CONNECTION_ID: the next sequence number the peer has not used yet
    PeerNextSeq,
    /// NEW_CONNECTION_ID: the largest Retire Prior To received so far
    PeerRpt,
    /// NEW_CONNECTION_ID: a sequence number the peer has issued whose frame is still in flight (a gap in what the
    /// endpoint has received); the next unused sequence number if there is none
    PeerHeld,
    /// RETIRE_CONNECTION_ID: the next sequence number the endpoint has not issued yet
    LocalNextSeq,
    /// the endpoint's active_connection_id_limit
    CidLimit,
    /// streams: the advertised stream-count limit for the frame's stream type
    StreamLimit,
    /// streams: number of streams of that type the endpoint has opened itself
    LocalOpened,
    /// streams: the advertised per-stream receive window of the frame's stream
    Window,
    /// streams: the largest offset received so far on the frame's stream
    StreamLargest,
    /// streams: largest offset on this stream that keeps the connection-level window respected
    ConnRoom,
    /// streams: the final size of the frame's stream, if known (else the largest offset)
    FinalSize,
    /// crypto: the largest offset received so far
    CryptoLargest,
    /// datagram: the payload length at which the frame is exactly the local max_datagram_frame_size
    DgramMax,
}

#[derive(Clone, Copy, Debug, Serialize, Deserialize, PartialEq, Eq)]
pub struct Val {
    pub base: Base,
    pub off: i64,
}

impl Val {
    pub const fn abs(v: u64) -> Val {
        // absolute values are kept symbolic where possible so that replay files read well
        Val { base: Base::Zero, off: v as i64 }
    }
    pub fn pow(k: u8) -> Val {
        Val { base: Base::Pow2(k), off: 0 }
    }
    pub fn rel(base: Base, off: i64) -> Val {
        Val { base, off }
    }
    pub fn max() -> Val {
        Val { base: Base::Max62, off: 0 }
    }
    /// the magnitude a value has whatever the state is (anchors count as small: histories are short)
    pub fn static_magnitude(&self) -> u64 {
        let b = match self.base {
            Base::Pow2(k) => 1u64 << k.min(62),
            Base::Max62 => MAX62,
            _ => 0,
        };
        (b as i128 + self.off as i128).clamp(0, MAX62 as i128) as u64
    }
    pub fn is_anchored(&self) -> bool {
        !matches!(self.base, Base::Zero | Base::Pow2(_) | Base::Max62)
    }
    pub fn resolve(&self, anchor: &dyn Fn(Base) -> u64) -> u64 {
        let b = match self.base {
            Base::Zero => 0,
            Base::Pow2(k) => 1u64 << k.min(62),
            Base::Max62 => MAX62,
            a => anchor(a),
        };
        (b as i128 + self.off as i128).clamp(0, MAX62 as i128) as u64
    }
    pub fn class(&self) -> &'static str {
        match self.base {
            Base::Zero if self.off == 0 => "zero",
            Base::Zero if self.off == 1 => "one",
            Base::Zero => "small",
            Base::Pow2(k) if k <= 22 => "ladder",
            Base::Pow2(_) => "pow31",
            Base::Max62 => "max62",
            _ => "boundary",
        }
    }
}

// ---------------------------------------------------------------------------------------------
// forged frames

#[derive(Clone, Copy, Debug, Serialize, Deserialize, PartialEq, Eq)]
pub struct Sid {
    /// initiated by the endpoint under test
    pub local: bool,
    pub uni: bool,
    pub index: Val,
}

#[derive(Clone, Copy, Debug, Serialize, Deserialize, PartialEq, Eq)]
pub enum Field {
    Largest,
    Delay,
    FirstRange,
    Gap(u8),
    Range(u8),
    Ecn(u8),
    Jump,
    Seq,
    Rpt,
    Limit,
    Index,
    Offset,
    FinalSize,
    ErrCode,
    Max,
    Len,
}

#[derive(Clone, Debug, Serialize, Deserialize, PartialEq)]
pub enum Forged {
    Ack { largest: Val, delay: Val, first_range: Val, ranges: Vec<(Val, Val)>, ecn: Option<[Val; 3]> },
    /// a packet whose number decodes to `target`; `ack_eliciting` content
    Pn { target: Val, ack_eliciting: bool },
    NewCid { seq: Val, rpt: Val },
    RetireCid { seq: Val },
    /// peer's active_connection_id_limit transport parameter, applied at handshake completion
    SetLimit { limit: Val },
    Stream { sid: Sid, offset: Val, len: u16, fin: bool },
    ResetStream { sid: Sid, err: Val, final_size: Val },
    StopSending { sid: Sid, err: Val },
    MaxStreamData { sid: Sid, max: Val },
    StreamDataBlocked { sid: Sid, limit: Val },
    MaxData { max: Val },
    DataBlocked { limit: Val },
    MaxStreams { uni: bool, max: Val },
    StreamsBlocked { uni: bool, limit: Val },
    Crypto { offset: Val, len: u16 },
    /// DATAGRAM with a payload of `len` bytes, with or without the Length field
    Datagram { len: Val, with_len: bool },
}

impl Forged {
    pub fn frame_name(&self) -> &'static str {
        match self {
            Forged::Ack { .. } => "ack",
            Forged::Pn { .. } => "packet",
            Forged::NewCid { .. } => "new_connection_id",
            Forged::RetireCid { .. } => "retire_connection_id",
            Forged::SetLimit { .. } => "transport_parameter",
            Forged::Stream { .. } => "stream",
            Forged::ResetStream { .. } => "reset_stream",
            Forged::StopSending { .. } => "stop_sending",
            Forged::MaxStreamData { .. } => "max_stream_data",
            Forged::StreamDataBlocked { .. } => "stream_data_blocked",
            Forged::MaxData { .. } => "max_data",
            Forged::DataBlocked { .. } => "data_blocked",
            Forged::MaxStreams { .. } => "max_streams",
            Forged::StreamsBlocked { .. } => "streams_blocked",
            Forged::Crypto { .. } => "crypto",
            Forged::Datagram { .. } => "datagram",
        }
    }

    pub fn field_name(&self, f: Field) -> String {
        let n = match (self, f) {
            (_, Field::Largest) => "largest",
            (_, Field::Delay) => "delay",
            (_, Field::FirstRange) => "first_range",
            (_, Field::Gap(_)) => "gap",
            (_, Field::Range(_)) => "range",
            (_, Field::Ecn(_)) => "ecn_count",
            (_, Field::Jump) => "pn-jump",
            (_, Field::Seq) => "sequence",
            (_, Field::Rpt) => "retire_prior_to",
            (_, Field::Limit) => "active_connection_id_limit",
            (_, Field::Index) => "stream_id",
            (_, Field::Offset) => "offset",
            (_, Field::FinalSize) => "final_size",
            (_, Field::ErrCode) => "error_code",
            (_, Field::Max) => "maximum",
            (_, Field::Len) => "length",
        };
        if matches!(f, Field::Jump) { n.to_string() } else { format!("{}.{}", self.frame_name(), n) }
    }

    pub fn get(&self, f: Field) -> Option<Val> {
        let mut c = self.clone();
        c.slot(f).map(|v| *v)
    }

    fn slot(&mut self, f: Field) -> Option<&mut Val> {
        match (self, f) {
            (Forged::Ack { largest, .. }, Field::Largest) => Some(largest),
            (Forged::Ack { delay, .. }, Field::Delay) => Some(delay),
            (Forged::Ack { first_range, .. }, Field::FirstRange) => Some(first_range),
            (Forged::Ack { ranges, .. }, Field::Gap(i)) => ranges.get_mut(i as usize).map(|r| &mut r.0),
            (Forged::Ack { ranges, .. }, Field::Range(i)) => ranges.get_mut(i as usize).map(|r| &mut r.1),
            (Forged::Ack { ecn: Some(e), .. }, Field::Ecn(i)) => e.get_mut(i as usize),
            (Forged::Pn { target, .. }, Field::Jump) => Some(target),
            (Forged::NewCid { seq, .. }, Field::Seq) => Some(seq),
            (Forged::NewCid { rpt, .. }, Field::Rpt) => Some(rpt),
            (Forged::RetireCid { seq }, Field::Seq) => Some(seq),
            (Forged::SetLimit { limit }, Field::Limit) => Some(limit),
            (Forged::Stream { sid, .. }, Field::Index)
            | (Forged::ResetStream { sid, .. }, Field::Index)
            | (Forged::StopSending { sid, .. }, Field::Index)
            | (Forged::MaxStreamData { sid, .. }, Field::Index)
            | (Forged::StreamDataBlocked { sid, .. }, Field::Index) => Some(&mut sid.index),
            (Forged::Stream { offset, .. }, Field::Offset) | (Forged::Crypto { offset, .. }, Field::Offset) => Some(offset),
            (Forged::ResetStream { final_size, .. }, Field::FinalSize) => Some(final_size),
            (Forged::ResetStream { err, .. }, Field::ErrCode) | (Forged::StopSending { err, .. }, Field::ErrCode) => Some(err),
            (Forged::MaxStreamData { max, .. }, Field::Max)
            | (Forged::MaxData { max }, Field::Max)
            | (Forged::MaxStreams { max, .. }, Field::Max) => Some(max),
            (Forged::Datagram { len, .. }, Field::Len) => Some(len),
            (Forged::StreamDataBlocked { limit, .. }, Field::Max)
            | (Forged::DataBlocked { limit }, Field::Max)
            | (Forged::StreamsBlocked { limit, .. }, Field::Max) => Some(limit),
            _ => None,
        }
    }

    /// the same frame with the field under test at `v` (ladder step)
    pub fn with(&self, f: Field, v: u64) -> Forged {
        let mut c = self.clone();
        match (&mut c, f) {
            // a jump is relative to the expected packet number by construction
            (Forged::Pn { target, .. }, Field::Jump) => *target = Val::rel(Base::Expected, v as i64),
            // Retire Prior To may not exceed Sequence Number: the two move together
            (Forged::NewCid { seq, rpt }, Field::Rpt) => {
                *rpt = Val::abs(v);
                *seq = Val::abs(v);
            }
            _ => {
                if let Some(s) = c.slot(f) {
                    *s = Val::abs(v);
                }
            }
        }
        c
    }

    /// the same frame with the field under test neutral but every coupled field as in `self`:
    /// its cost is subtracted so that only the cost attributable to the field remains
    pub fn control(&self, f: Field) -> Option<Forged> {
        match (self, f) {
            (Forged::NewCid { seq, .. }, Field::Rpt) => Some(Forged::NewCid { seq: *seq, rpt: Val::rel(Base::PeerRpt, 0) }),
            _ => None,
        }
    }
}

// ---------------------------------------------------------------------------------------------
// histories

#[derive(Clone, Debug, Serialize, Deserialize, PartialEq)]
pub enum Hist {
    Journal(journal::JournalHist),
    Cid(cid::CidHist),
    Stream(stream::StreamHist),
    Crypto(stream::CryptoHist),
    Dgram(dgram::DgramHist),
}

impl Hist {
    pub fn len(&self) -> usize {
        match self {
            Hist::Journal(h) => h.ops.len(),
            Hist::Cid(h) => h.ops.len(),
            Hist::Stream(h) => h.ops.len(),
            Hist::Crypto(h) => h.ops.len(),
            Hist::Dgram(h) => h.ops.len(),
        }
    }
    pub fn is_empty(&self) -> bool {
        self.len() == 0
    }
    fn truncated(&self, n: usize) -> Hist {
        let mut c = self.clone();
        match &mut c {
            Hist::Journal(h) => h.ops.truncate(n),
            Hist::Cid(h) => h.ops.truncate(n),
            Hist::Stream(h) => h.ops.truncate(n),
            Hist::Crypto(h) => h.ops.truncate(n),
            Hist::Dgram(h) => h.ops.truncate(n),
        }
        c
    }
    fn without(&self, i: usize) -> Hist {
        let mut c = self.clone();
        match &mut c {
            Hist::Journal(h) => drop(h.ops.remove(i)),
            Hist::Cid(h) => drop(h.ops.remove(i)),
            Hist::Stream(h) => drop(h.ops.remove(i)),
            Hist::Crypto(h) => drop(h.ops.remove(i)),
            Hist::Dgram(h) => drop(h.ops.remove(i)),
        }
        c
    }
}

#[derive(Clone, Debug, Serialize, Deserialize)]
pub struct Case {
    pub seed: u64,
    pub hist: Hist,
    pub forged: Forged,
    /// the field under test (the one the ladder varies)
    pub field: Field,
}

// ---------------------------------------------------------------------------------------------
// probe results

#[derive(Clone, Debug, PartialEq)]
pub enum Answer {
    Ok,
    /// connection error of this kind (from the frame decoder or from a handler)
    Err(String),
    /// the packet was dropped before any frame was processed (duplicate / too old packet number): no error
    Dropped(&'static str),
    Panic,
}

#[derive(Clone, Debug)]
pub struct Expect {
    /// name of the RFC rule (signature site of `error-kind`)
    pub case: String,
    /// "Ok" or error kind names; empty = no expectation
    pub allowed: Vec<&'static str>,
    /// true: the frame is legal and a rejection is only counted, not reported
    pub legal: bool,
}

#[derive(Clone, Debug)]
pub struct ProbeResult {
    pub handlers: Vec<HandlerRun>,
    pub answer: Answer,
    pub frame_len: usize,
    /// entries of state the endpoint held before the forged frame
    pub units: u64,
    pub expect: Option<Expect>,
    /// frames the endpoint queued for the peer while handling the forged frame
    pub emitted: u64,
    pub notes: Vec<&'static str>,
    /// the field that makes the frame illegal according to the RFC model, when it is not the field under test
    pub culprit: Option<String>,
    pub detail: String,
    pub harness_error: Option<String>,
}

impl ProbeResult {
    pub fn new() -> Self {
        ProbeResult { handlers: vec![], answer: Answer::Ok, frame_len: 0, units: 0, expect: None, emitted: 0, notes: vec![], culprit: None, detail: String::new(), harness_error: None }
    }
    pub fn harness(msg: impl Into<String>) -> Self {
        let mut r = Self::new();
        r.harness_error = Some(msg.into());
        r
    }
}

impl Default for ProbeResult {
    fn default() -> Self {
        Self::new()
    }
}

/// One execution of history + forged frame on the calling thread, on a fresh paused tokio clock.
pub fn probe(case: &Case, forged: &Forged) -> ProbeResult {
    simcore::entropy::seed_thread_entropy(case.seed);
    meter::arm(false);
    let rt = tokio::runtime::Builder::new_current_thread().enable_time().start_paused(true).build().expect("runtime");
    rt.block_on(async {
        match &case.hist {
            Hist::Journal(h) => journal::probe(h, forged, case.field).await,
            Hist::Cid(h) => cid::probe(h, forged, case.seed),
            Hist::Stream(h) => stream::probe(h, forged),
            Hist::Crypto(h) => stream::probe_crypto(h, forged),
            Hist::Dgram(h) => dgram::probe(h, forged),
        }
    })
}

// ---------------------------------------------------------------------------------------------
// the driver: ladder, point probe, oracles

enum Msg {
    Beat(String),
    Done(Box<Outcome>),
}

struct Driver<'a> {
    case: &'a Case,
    out: Outcome,
    th: TraceHash,
    tx: &'a mpsc::Sender<Msg>,
    field_name: String,
    probes: u64,
    /// handlers already reported by the work oracle in this case (not measured again)
    flagged: std::collections::BTreeSet<&'static str>,
}

/// Counter names are built from handler and field names; simcore's interner takes a process-wide mutex on every
/// call, which eight workers bumping a dozen counters per probe turn into a convoy. Reads go through a
/// read-write lock here, the interner is only consulted on a miss.
fn intern(s: &str) -> &'static str {
    static TABLE: std::sync::RwLock<BTreeMap<String, &'static str>> = std::sync::RwLock::new(BTreeMap::new());
    if let Some(v) = TABLE.read().unwrap().get(s) {
        return v;
    }
    let v = simcore::engine::intern(s);
    TABLE.write().unwrap().insert(s.to_string(), v);
    v
}

/// per handler: cost at the lowest ladder step
type Bottom = BTreeMap<&'static str, Cost>;

impl Driver<'_> {
    fn beat(&self, what: &str) {
        let _ = self.tx.send(Msg::Beat(what.to_string()));
    }

    /// run one probe (with the optional control probe subtracted) and fold panics / error oracle in
    fn run(&mut self, forged: &Forged, label: &str) -> Option<ProbeResult> {
        self.beat(&format!("{}:{}", label, self.field_name));
        self.probes += 1;
        let t0 = std::time::Instant::now();
        let mut r = probe(self.case, forged);
        if std::env::var("BYZSIM_DEBUG").is_ok() {
            eprintln!("[byzsim] probe {label} wall {} us", t0.elapsed().as_micros());
        }
        if let Some(e) = r.harness_error.take() {
            self.out.harness_error = Some(format!("{e} [{label}]"));
            return None;
        }
        if let Some(ctrl) = forged.control(self.case.field) {
            self.beat(&format!("{}:{}:control", label, self.field_name));
            let c = probe(self.case, &ctrl);
            if c.harness_error.is_none() {
                for h in r.handlers.iter_mut() {
                    if let Some(ch) = c.handlers.iter().find(|x| x.name == h.name) {
                        h.cost.alloc = h.cost.alloc.saturating_sub(ch.cost.alloc);
                        h.cost.cpu_ns = h.cost.cpu_ns.saturating_sub(ch.cost.cpu_ns);
                    }
                }
            }
        }
        // panics
        for h in &r.handlers {
            self.out.stats.bump(intern(&format!("probe.handler.{}", h.name)));
            if let Some(p) = &h.panic {
                if p.message.starts_with("[HARNESS]") {
                    self.out.harness_error = Some(format!("harness panic inside handler {}: {} at {}", h.name, p.message, p.location));
                    return None;
                }
                self.out.stats.bump("probe.result.panic");
                let field = r.culprit.clone().unwrap_or_else(|| self.field_name.clone());
                self.out.violate("panic", format!("{}:{}", h.name, field), format!("{} at {} [{}; {}]", p.message, p.location, label, r.detail), self.probes);
            }
        }
        // error oracle
        let ans = match &r.answer {
            Answer::Ok => "Ok".to_string(),
            Answer::Err(k) => k.clone(),
            Answer::Dropped(w) => format!("Dropped-{w}"),
            Answer::Panic => "Panic".to_string(),
        };
        self.out.stats.bump(intern(&format!("probe.result.{ans}")));
        for n in &r.notes {
            self.out.stats.bump(n);
        }
        self.th.add_str(&ans);
        self.th.add(r.emitted);
        self.th.add(r.handlers.len() as u64);
        if let Some(e) = &r.expect {
            if !e.allowed.is_empty() && r.answer != Answer::Panic && !e.allowed.iter().any(|a| *a == ans) {
                if e.legal {
                    self.out.stats.bump(intern(&format!("probe.legal_rejected.{}", e.case)));
                } else {
                    self.out.violate(
                        "error-kind",
                        e.case.clone(),
                        format!("RFC 9000 allows {:?}, the endpoint answered {ans} [{label}; {}]", e.allowed, r.detail),
                        self.probes,
                    );
                }
            } else if !e.legal && !e.allowed.is_empty() && r.answer != Answer::Panic {
                self.out.stats.bump(intern(&format!("probe.rejected_as_prescribed.{}", e.case)));
            }
        }
        Some(r)
    }

    /// one more execution of the same probe (control subtracted), CPU nanoseconds per handler
    fn cpu_reading(&self, forged: &Forged, label: &str) -> BTreeMap<&'static str, u64> {
        self.beat(&format!("{}:{}:repeat", label, self.field_name));
        let again = probe(self.case, forged);
        let mut m: BTreeMap<&'static str, u64> = again.handlers.iter().map(|h| (h.name, h.cost.cpu_ns)).collect();
        if let Some(ctrl) = forged.control(self.case.field) {
            let cr = probe(self.case, &ctrl);
            for h in &cr.handlers {
                if let Some(c) = m.get_mut(h.name) {
                    *c = c.saturating_sub(h.cost.cpu_ns);
                }
            }
        }
        m
    }

    /// Work oracle for one probe result against the ladder bottom; returns (memory flagged, cpu flagged).
    ///
    /// Memory is exact and judged per handler. CPU: the cost of the forged call is the cost of the whole chain the
    /// stack runs for the frame; when that reaches the threshold, every handler of the chain that contributes at
    /// least `CPU_OWN_FLOOR_NS` and grew by the ratio along the ladder is named. (Judging each handler against the
    /// 2 ms on its own is not repeatable: `cc.on_ack_rcvd` costs between 1.7 and 25 ms at 2^22 depending on the
    /// state, always next to `rcvd-journal.on_rcvd_ack` with 7 to 50 ms.)
    fn judge(&mut self, forged: &Forged, r: &ProbeResult, bottom: &mut Bottom, label: &str, judge_cpu: bool) -> (bool, bool) {
        let n = r.frame_len as u64 + r.units;
        let mut mem_flag = false;
        let mut cpu_flag = false;
        for h in &r.handlers {
            if self.flagged.contains(h.name) {
                continue;
            }
            let b = bottom.get(h.name).copied().unwrap_or_default();
            if meter::mem_excess(h.cost.alloc, b.alloc, n) {
                mem_flag = true;
                self.flagged.insert(h.name);
                self.out.violate(
                    "work-mem",
                    format!("{}:{}", h.name, self.field_name),
                    format!(
                        "{} allocated {} bytes handling one {}-byte frame with {} entries of state held ({} bytes at the ladder bottom) [{label}; {}]",
                        h.name, h.cost.alloc, r.frame_len, r.units, b.alloc, r.detail
                    ),
                    self.probes,
                );
            }
        }
        if !judge_cpu || mem_flag {
            return (mem_flag, false);
        }
        // thread CPU time is only ever inflated (cold caches, a preempted virtual CPU): per handler the minimum over
        // freshly rebuilt identical executions is the estimate. At least three readings once the chain looks
        // expensive, at most eight, until the two cheapest chain totals agree within 15 %.
        let mut mins: BTreeMap<&'static str, u64> = r.handlers.iter().filter(|h| h.panic.is_none()).map(|h| (h.name, h.cost.cpu_ns)).collect();
        let mut totals: Vec<u64> = vec![mins.values().sum()];
        let chain_excess = |total: u64| total >= meter::CPU_ABS_NS && total > meter::CPU_PER_UNIT_NS * n + meter::CPU_C0_NS;
        while chain_excess(mins.values().sum()) && totals.len() < 8 {
            if totals.len() >= 3 {
                let mut sorted = totals.clone();
                sorted.sort();
                if sorted[1] as f64 <= sorted[0] as f64 * 1.15 {
                    break;
                }
            }
            let reading = self.cpu_reading(forged, label);
            totals.push(reading.values().sum());
            for (k, v) in reading {
                if let Some(m) = mins.get_mut(k) {
                    *m = (*m).min(v);
                }
            }
        }
        let total: u64 = mins.values().sum();
        if std::env::var("BYZSIM_DEBUG").is_ok() {
            eprintln!("[byzsim] cpu {label}: chain {} us after {} readings, handlers {:?}", total / 1000, totals.len(), mins.iter().map(|(k, v)| (*k, v / 1000)).collect::<Vec<_>>());
        }
        if !chain_excess(total) {
            return (mem_flag, false);
        }
        // growth along the ladder, per handler; a bottom reading that looks inflated is taken again
        let growers: Vec<&'static str> = mins.iter().filter(|(k, v)| **v >= meter::CPU_OWN_FLOOR_NS && !self.flagged.contains(*k)).map(|(k, _)| *k).collect();
        if growers.iter().any(|k| {
            let b = bottom.get(k).map(|c| c.cpu_ns).unwrap_or(0);
            b > 8_000 && mins[k] < meter::RATIO * b
        }) {
            let low = self.case.forged.with(self.case.field, 1u64 << LADDER[0]);
            for _ in 0..2 {
                for (k, v) in self.cpu_reading(&low, "ladder bottom") {
                    if let Some(b) = bottom.get_mut(k) {
                        b.cpu_ns = b.cpu_ns.min(v);
                    }
                }
            }
        }
        for k in growers {
            let b = bottom.get(k).map(|c| c.cpu_ns).unwrap_or(0);
            if mins[k] >= meter::RATIO * b.max(1_000) {
                cpu_flag = true;
                self.flagged.insert(k);
                self.out.violate(
                    "work-cpu",
                    format!("{}:{}", k, self.field_name),
                    format!(
                        "handling one {}-byte frame with {} entries of state held took at least {} us of CPU, {} us of them in {} ({} ns at the ladder bottom) [{label}; {}]",
                        r.frame_len, r.units, total / 1000, mins[k] / 1000, k, b, r.detail
                    ),
                    self.probes,
                );
            }
        }
        (mem_flag, cpu_flag)
    }

    fn drive(&mut self) {
        let case = self.case;
        let Some(val) = case.forged.get(case.field) else {
            self.out.harness_error = Some(format!("field {:?} does not exist in {:?}", case.field, case.forged));
            return;
        };
        self.out.stats.bump(intern(&format!("fault.{}", self.field_name)));
        self.out.stats.bump(intern(&format!("fault.value.{}", val.class())));
        self.th.add_str(&self.field_name);
        // a packet-number jump is relative to the expected number by construction; its size is the offset
        let (v, ladderable) = match (case.field, val.base) {
            (Field::Jump, Base::Expected) => (val.off.max(0) as u64, val.off >= 1 << LADDER[0]),
            _ => (val.static_magnitude(), !val.is_anchored() && val.static_magnitude() >= 1 << LADDER[0]),
        };
        let debug = std::env::var("BYZSIM_DEBUG").is_ok();
        let mut dependent = false;
        let mut covered = false;
        let mut largest_run = 0u64;
        let mut bottom: Bottom = BTreeMap::new();
        if ladderable {
            for k in LADDER {
                // the whole ladder is climbed whatever the drawn value is: the work verdict is then a function of the
                // state and the field only, judged where the margin over the noise is largest
                let step = 1u64 << k;
                let f = case.forged.with(case.field, step);
                let label = format!("ladder 2^{k}");
                let Some(r) = self.run(&f, &label) else { return };
                largest_run = step;
                if debug {
                    eprintln!("[byzsim] {} {} -> {:?} {:?}", self.field_name, label, r.answer, r.handlers.iter().map(|h| (h.name, h.cost.alloc, h.cost.cpu_ns / 1000)).collect::<Vec<_>>());
                }
                if k == LADDER[0] {
                    for h in &r.handlers {
                        bottom.insert(h.name, h.cost);
                    }
                    // the bottom is judged as a point (absolute bound only matters higher up)
                } else {
                    let (m, c) = self.judge(&f, &r, &mut bottom, &label, k == LADDER[LADDER.len() - 1]);
                    dependent |= m | c;
                    if m {
                        // allocation grows with the value: climbing further only costs memory
                        break;
                    }
                }
                if r.handlers.iter().any(|h| h.panic.is_some()) {
                    // a handler that panics at this value is not probed with larger ones
                    dependent = true;
                    break;
                }
                if step == v {
                    covered = true;
                }
            }
            self.out.stats.bump(if dependent { "probe.ladder.value_dependent" } else { "probe.ladder.value_independent" });
        }
        // a value larger than anything run so far is only sent to a chain the ladder showed to be value-independent
        if !covered && (!dependent || v <= largest_run) {
            let label = format!("point {}", val.class());
            let f = case.forged.clone();
            let Some(r) = self.run(&f, &label) else { return };
            if debug {
                eprintln!("[byzsim] {} {} -> {:?} {:?}", self.field_name, label, r.answer, r.handlers.iter().map(|h| (h.name, h.cost.alloc, h.cost.cpu_ns / 1000)).collect::<Vec<_>>());
            }
            if !bottom.is_empty() {
                self.judge(&f, &r, &mut bottom, &label, true);
            }
        } else if !covered {
            self.out.stats.bump("probe.huge_value_withheld");
        }
    }
}

fn run_case(case: &Case, tx: &mpsc::Sender<Msg>) -> Outcome {
    let mut d = Driver { case, out: Outcome::default(), th: TraceHash::default(), tx, field_name: case.forged.field_name(case.field), probes: 0, flagged: Default::default() };
    d.drive();
    let mut out = d.out;
    out.violations.sort_by(|a, b| a.signature().cmp(&b.signature()));
    out.trace_hash = d.th.get();
    out.nontrivial = !case.hist.is_empty() && d.probes > 0;
    out
}

pub struct ByzSim;

impl Engine for ByzSim {
    type Case = Case;
    fn name(&self) -> &'static str {
        "byzsim"
    }
    fn components_real(&self) -> Vec<&'static str> {
        vec![
            "qbase::frame::FrameReader (decoder of every forged frame)",
            "qcongestion::ArcCC (on_ack_rcvd, on_pkt_sent, on_pkt_rcvd, need_ack, do_tick)",
            "qrecovery::journal::{ArcSentJournal, ArcRcvdJournal}",
            "qconnection::space::{AckInitialSpace, AckHandshakeSpace, AckDataSpace}::recv_frame (hook H5; on a journal with the fixture's packet numbers, trivial packets)",
            "qbase::cid::{ArcLocalCids, ArcRemoteCids, ArcCidCell}",
            "qinterface::component::route::{QuicRouter, QuicRouterRegistry}",
            "qrecovery::streams::DataStreams (Incoming/Outgoing, Reader/Writer, listener)",
            "qbase::flow::FlowController",
            "qbase::param::{ArcParameters, ClientParameters, ServerParameters}",
            "qrecovery::crypto::CryptoStream (incoming, reader)",
            "qdatagram::DatagramFlow (incoming, reader)",
            "tokio paused clock",
        ]
    }
    fn components_stub(&self) -> Vec<&'static str> {
        vec![
            "packet protection and packet assembly (frames are handed over as decrypted payload)",
            "journal payloads (u32 tags instead of GuaranteedFrame)",
            "the peer (a model that issues legitimate frames)",
            "frame queue towards the peer (a recording sink instead of ArcReliableFrameDeque)",
        ]
    }

    fn wall_limit(&self) -> Duration {
        Duration::from_secs(120)
    }

    fn timing_clauses(&self) -> Vec<&'static str> {
        vec!["work-cpu"]
    }

    fn generate(&self, _index: u64, seed: u64, _tier: Tier) -> Case {
        generate(seed)
    }

    fn execute(&self, case: &Case) -> Outcome {
        // every probe runs on a helper thread under a 5 s watchdog (a handler that never returns must not
        // take the harness with it); the helper owns the allocation and CPU meters (both per thread)
        let (tx, rx) = mpsc::channel::<Msg>();
        let c = case.clone();
        let current: std::sync::Arc<std::sync::Mutex<&'static str>> = std::sync::Arc::new(std::sync::Mutex::new("-"));
        let current2 = current.clone();
        meter::install_hook();
        let spawned = std::thread::Builder::new().name(meter::PROBE_THREAD.into()).stack_size(8 << 20).spawn(move || {
            simcore::entropy::seed_thread_entropy(c.seed);
            meter::share_current(current2);
            let out = match meter::guarded(|| run_case(&c, &tx)) {
                Ok(o) => o,
                Err(rec) => {
                    let mut o = Outcome::default();
                    o.harness_error = Some(format!("harness panic on the probe thread: {} at {}", rec.message, rec.location));
                    o
                }
            };
            let _ = tx.send(Msg::Done(Box::new(out)));
        });
        let handle = match spawned {
            Ok(h) => h,
            Err(e) => {
                let mut o = Outcome::default();
                o.harness_error = Some(format!("cannot spawn the probe thread: {e}"));
                return o;
            }
        };
        let mut last = String::from("start");
        let t0 = std::time::Instant::now();
        let slow: Option<u128> = std::env::var("BYZSIM_SLOW").ok().and_then(|s| s.parse().ok());
        // watchdog: a probe is given up after 5 s of CPU time of the probe thread (a handler that spins), or after
        // 30 s of wall clock without CPU progress (a handler that blocks). CPU time, because the wall clock of a
        // shared machine says little about the handler.
        let cpu_of_helper = || -> Option<u64> {
            use std::os::unix::thread::JoinHandleExt;
            meter::thread_cpu_ns_of(handle.as_pthread_t() as usize)
        };
        let mut beat_wall = std::time::Instant::now();
        let mut beat_cpu = cpu_of_helper().unwrap_or(0);
        loop {
            match rx.recv_timeout(Duration::from_millis(250)) {
                Ok(Msg::Beat(s)) => {
                    last = s;
                    beat_wall = std::time::Instant::now();
                    beat_cpu = cpu_of_helper().unwrap_or(beat_cpu);
                }
                Ok(Msg::Done(o)) => {
                    let _ = handle.join();
                    if let Some(ms) = slow {
                        if t0.elapsed().as_millis() >= ms {
                            eprintln!("[byzsim-slow] {} ms: {} value {:?} hist {}", t0.elapsed().as_millis(), case.forged.field_name(case.field), case.forged.get(case.field), case.hist.len());
                        }
                    }
                    return *o;
                }
                Err(mpsc::RecvTimeoutError::Timeout) => {
                    let cpu_used = cpu_of_helper().map(|c| c.saturating_sub(beat_cpu));
                    let spun = cpu_used.is_some_and(|c| c >= WATCHDOG_CPU_NS);
                    let stuck = beat_wall.elapsed() >= WATCHDOG_WALL && (cpu_used.is_none() || cpu_used.is_some_and(|c| c < WATCHDOG_CPU_NS));
                    if !spun && !(stuck && beat_wall.elapsed() >= WATCHDOG_WALL) {
                        continue;
                    }
                    // the helper is abandoned (it may never return)
                    let mut o = Outcome::default();
                    let field = case.forged.field_name(case.field);
                    let running = *current.lock().unwrap();
                    let handler = if running == "-" { target_name(&case.forged) } else { running };
                    o.violate(
                        "work-cpu",
                        format!("{handler}:{field}:timeout"),
                        format!("probe '{last}' did not return: {} ms of CPU, {} ms of wall clock since it started (handler running: {running})", cpu_used.unwrap_or(0) / 1_000_000, beat_wall.elapsed().as_millis()),
                        0,
                    );
                    return o;
                }
                Err(mpsc::RecvTimeoutError::Disconnected) => {
                    let mut o = Outcome::default();
                    o.harness_error = Some(format!("probe thread died during '{last}'"));
                    return o;
                }
            }
        }
    }

    fn shrink(&self, case: &Case) -> Vec<Case> {
        let mut v = Vec::new();
        let n = case.hist.len();
        if n > 0 {
            v.push(Case { hist: case.hist.truncated(0), ..case.clone() });
        }
        if n > 1 {
            v.push(Case { hist: case.hist.truncated(n / 2), ..case.clone() });
            v.push(Case { hist: case.hist.truncated(n - 1), ..case.clone() });
        }
        for i in (0..n).rev().take(60) {
            v.push(Case { hist: case.hist.without(i), ..case.clone() });
        }
        // simpler forged frame: drop ack ranges / ecn, neutral values in the other fields
        if let Forged::Ack { largest, delay, first_range, ranges, ecn } = &case.forged {
            let keep = match case.field {
                Field::Gap(i) | Field::Range(i) => i as usize + 1,
                _ => 0,
            };
            if ranges.len() > keep {
                v.push(Case { forged: Forged::Ack { largest: *largest, delay: *delay, first_range: *first_range, ranges: ranges[..keep].to_vec(), ecn: *ecn }, ..case.clone() });
            }
            if ecn.is_some() && !matches!(case.field, Field::Ecn(_)) {
                v.push(Case { forged: Forged::Ack { largest: *largest, delay: *delay, first_range: *first_range, ranges: ranges.clone(), ecn: None }, ..case.clone() });
            }
            if case.field != Field::Delay && *delay != Val::abs(0) {
                v.push(Case { forged: Forged::Ack { largest: *largest, delay: Val::abs(0), first_range: *first_range, ranges: ranges.clone(), ecn: *ecn }, ..case.clone() });
            }
        }
        match &case.forged {
            Forged::Stream { sid, offset, len, fin } if *len > 1 => {
                v.push(Case { forged: Forged::Stream { sid: *sid, offset: *offset, len: 1, fin: *fin }, ..case.clone() });
            }
            Forged::Crypto { offset, len } if *len > 1 => {
                v.push(Case { forged: Forged::Crypto { offset: *offset, len: 1 }, ..case.clone() });
            }
            _ => {}
        }
        // the work verdict does not depend on the drawn value once it is on the ladder: the smallest ladder value
        if let Some(val) = case.forged.get(case.field) {
            let small = match (case.field, val.base) {
                (Field::Jump, Base::Expected) if val.off > 256 => Some(Val::rel(Base::Expected, 256)),
                (_, Base::Pow2(k)) if k > 8 => Some(Val::pow(8)),
                (_, Base::Max62) => Some(Val::pow(8)),
                _ => None,
            };
            if let Some(nv) = small {
                let mut f = case.forged.clone();
                if let Some(s) = f.slot(case.field) {
                    *s = nv;
                }
                if let (Forged::NewCid { seq, rpt }, Field::Rpt) = (&mut f, case.field) {
                    if *seq == val {
                        *seq = *rpt;
                    }
                }
                v.push(Case { forged: f, ..case.clone() });
            }
        }
        v
    }

    fn sample(&self, case: &Case) -> serde_json::Value {
        serde_json::json!({ "target": target_name(&case.forged), "field": case.forged.field_name(case.field), "history_ops": case.hist.len(), "forged": case.forged })
    }
}

pub fn target_name(f: &Forged) -> &'static str {
    match f {
        Forged::Ack { .. } => "ack-path",
        Forged::Pn { .. } => "rcvd-journal",
        Forged::NewCid { .. } => "remote-cids.recv_new_cid",
        Forged::RetireCid { .. } => "local-cids.recv_retire_cid",
        Forged::SetLimit { .. } => "local-cids.set_limit",
        Forged::Crypto { .. } => "crypto.recv_frame",
        Forged::Datagram { .. } => "datagram.recv_datagram",
        Forged::MaxData { .. } | Forged::DataBlocked { .. } => "flow",
        _ => "streams",
    }
}

// ---------------------------------------------------------------------------------------------
// generation

/// a value from the C04 value set; `anchors` are the state-relative boundaries that make sense for the field
pub fn draw_val(r: &mut Rng, anchors: &[Base]) -> Val {
    let w = r.below(100);
    if w < 6 {
        Val::abs(0)
    } else if w < 12 {
        Val::abs(1)
    } else if w < 40 && !anchors.is_empty() {
        let a = *r.pick(anchors);
        Val::rel(a, *r.pick(&[-1i64, 0, 1]))
    } else if w < 78 {
        Val::pow(*r.pick(&LADDER))
    } else if w < 90 {
        Val { base: Base::Pow2(31), off: *r.pick(&[-1i64, 1]) }
    } else {
        Val::max()
    }
}

/// a benign or boundary value for a field that is not under test
fn side_val(r: &mut Rng, anchors: &[Base]) -> Val {
    if anchors.is_empty() || r.one_in(3) { Val::abs(r.below(3)) } else { Val::rel(*r.pick(anchors), *r.pick(&[-1i64, 0, 0, 1])) }
}

fn hist_len(r: &mut Rng) -> usize {
    match r.below(10) {
        0 => 0,
        1..=4 => r.range(1, 20) as usize,
        5..=8 => r.range(10, 80) as usize,
        _ => r.range(80, 200) as usize,
    }
}

pub fn generate(seed: u64) -> Case {
    let mut r = Rng::derive(seed, "workload");
    let mut f = Rng::derive(seed, "faults");
    let n = hist_len(&mut r);
    let target = r.below(100);
    if target < 26 {
        // ACK
        let hist = journal::gen_hist(&mut r, n, true);
        let nranges = match f.below(10) {
            0..=3 => 0,
            4..=7 => f.range(1, 3) as usize,
            8 => f.range(4, 8) as usize,
            _ => f.range(20, 60) as usize,
        };
        let field = match f.below(100) {
            0..=24 => Field::Largest,
            25..=54 => Field::FirstRange,
            55..=64 => Field::Delay,
            65..=79 if nranges > 0 => Field::Gap(f.below(nranges.min(3) as u64) as u8),
            80..=92 if nranges > 0 => Field::Range(f.below(nranges.min(3) as u64) as u8),
            93..=99 => Field::Ecn(f.below(3) as u8),
            _ => Field::FirstRange,
        };
        let ecn = if matches!(field, Field::Ecn(_)) || f.one_in(5) { Some([side_val(&mut f, &[]), side_val(&mut f, &[]), side_val(&mut f, &[])]) } else { None };
        let mut forged = Forged::Ack {
            largest: Val::rel(Base::NextPn, -1 - (f.below(4) as i64) * (f.below(4) as i64)),
            delay: Val::abs(*f.pick(&[0u64, 25, 1000, 100_000])),
            first_range: if f.one_in(2) { Val::abs(f.below(3)) } else { Val::rel(Base::Floor, -(f.below(3) as i64)) },
            ranges: (0..nranges).map(|_| (Val::abs(f.below(3)), Val::abs(f.below(3)))).collect(),
            ecn,
        };
        let anchors: &[Base] = match field {
            Field::Largest => &[Base::NextPn],
            Field::FirstRange | Field::Gap(_) | Field::Range(_) => &[Base::Floor],
            _ => &[],
        };
        let v = draw_val(&mut f, anchors);
        *forged.slot(field).expect("field exists") = v;
        // a range field can only carry a large value without leaving the packet number space when Largest
        // Acknowledged is large too: both shapes are wanted (work in the first, error handling in the second)
        if matches!(field, Field::FirstRange | Field::Gap(_) | Field::Range(_)) && v.static_magnitude() >= 256 && f.chance(0.45) {
            if let Forged::Ack { largest, first_range, .. } = &mut forged {
                *largest = if f.one_in(2) { Val::max() } else { Val::pow(40) };
                // exactly one field carries a large value: a first range anchored to a huge Largest would be a second one
                if field != Field::FirstRange {
                    *first_range = Val::abs(f.below(3));
                }
            }
        }
        return Case { seed, hist: Hist::Journal(hist), forged, field };
    }
    if target < 32 {
        // packet number jump
        let hist = journal::gen_hist(&mut r, n, false);
        let v = match f.below(10) {
            0 => Val::rel(Base::Expected, -(f.range(1, 300) as i64)),
            1 => Val::rel(Base::Expected, f.range(0, 3) as i64),
            2..=7 => Val::rel(Base::Expected, 1i64 << *f.pick(&LADDER)),
            8 => Val::rel(Base::Expected, (1i64 << 31) - 1),
            _ => Val::rel(Base::Expected, (1i64 << 31) - f.range(2, 2000) as i64),
        };
        return Case { seed, hist: Hist::Journal(hist), forged: Forged::Pn { target: v, ack_eliciting: !f.one_in(4) }, field: Field::Jump };
    }
    if target < 56 {
        // connection ids
        let which = f.below(25);
        if which < 2 && f.one_in(4) {
            let hist = cid::gen_hist(&mut r, 0, false);
            let v = match f.below(10) {
                0 => Val::abs(0),
                1 => Val::abs(1),
                2 => Val::abs(2),
                3 => Val::abs(f.range(3, 16)),
                _ => draw_val(&mut f, &[]),
            };
            return Case { seed, hist: Hist::Cid(hist), forged: Forged::SetLimit { limit: v }, field: Field::Limit };
        }
        let hist = cid::gen_hist(&mut r, n.min(60), true);
        if which < 14 {
            let field = if f.one_in(2) { Field::Seq } else { Field::Rpt };
            let forged = match field {
                Field::Seq => Forged::NewCid { seq: draw_val(&mut f, &[Base::PeerNextSeq, Base::PeerRpt, Base::PeerHeld, Base::PeerHeld]), rpt: side_val(&mut f, &[Base::PeerRpt]) },
                _ => {
                    let v = draw_val(&mut f, &[Base::PeerNextSeq, Base::PeerRpt]);
                    // Retire Prior To <= Sequence Number, except when the frame-encoding rule itself is the target
                    let seq = if f.one_in(6) { side_val(&mut f, &[Base::PeerNextSeq]) } else if v.is_anchored() { Val::rel(Base::PeerNextSeq, f.below(2) as i64) } else { v };
                    Forged::NewCid { seq, rpt: v }
                }
            };
            return Case { seed, hist: Hist::Cid(hist), forged, field };
        }
        return Case { seed, hist: Hist::Cid(hist), forged: Forged::RetireCid { seq: draw_val(&mut f, &[Base::LocalNextSeq]) }, field: Field::Seq };
    }
    if target < 60 {
        // DATAGRAM frames around the local maximum, both encodings (the values are bounded by what a UDP datagram
        // carries, so there is no ladder: every draw is a point probe)
        let hist = dgram::gen_hist(&mut r, n.min(40));
        let len = match f.below(10) {
            0 => Val::abs(0),
            1 => Val::abs(1),
            2 => Val::abs(f.below(1400)),
            _ => Val::rel(Base::DgramMax, *f.pick(&[-2i64, -1, 0, 0, 1, 1, 2, 3, 9])),
        };
        return Case { seed, hist: Hist::Dgram(hist), forged: Forged::Datagram { len, with_len: f.one_in(2) }, field: Field::Len };
    }
    if target < 93 {
        let hist = stream::gen_hist(&mut r, n);
        let (forged, field) = stream::gen_forged(&mut f);
        return Case { seed, hist: Hist::Stream(hist), forged, field };
    }
    let hist = stream::gen_crypto_hist(&mut r, n.min(60));
    let v = draw_val(&mut f, &[Base::CryptoLargest]);
    Case { seed, hist: Hist::Crypto(hist), forged: Forged::Crypto { offset: v, len: *f.pick(&[0u16, 1, 100, 1200]) }, field: Field::Offset }
}
