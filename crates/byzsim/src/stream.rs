//! STREAM / RESET_STREAM / STOP_SENDING / MAX_* / *_BLOCKED into `DataStreams` + `FlowController`, CRYPTO into
//! `CryptoStream::incoming()`.
//!
//! The pair is constructed as `qconnection::builder::init_stream_and_datagram` constructs it (remote parameters
//! still at their defaults), then `revise_params` + `flow_ctrl.sender.revise_max_data` as `tls_fin_handler`
//! does once the peer's parameters are known. Frames are received as `space.rs::FlowControlledDataStreams`
//! receives them (`recv_data` / `recv_stream_control`, then `flow_ctrl.on_new_rcvd` with the amount of new
//! data) and as `pipe(rcvd_max_data_frames, flow_ctrl.sender)` / `pipe(rcvd_data_blocked_frames, flow_ctrl.recver)` do.
use std::{
    collections::BTreeMap,
    future::Future,
    sync::{Arc, Mutex},
    task::{Context, Poll},
};

use bytes::Bytes;
use futures::task::noop_waker;
use qbase::{
    cid::ConnectionId,
    error::Error,
    flow::FlowController,
    frame::{
        Frame, GetFrameType, ReliableFrame, StreamCtlFrame,
        io::{ReceiveFrame, SendFrame},
    },
    net::tx::ArcSendWakers,
    param::{ArcParameters, ClientParameters, ParameterId, Parameters, ServerParameters},
    role::Role,
    sid::{
        Dir,
        handy::{ConsistentConcurrency, DemandConcurrency},
    },
    varint::VarInt,
};
use qrecovery::{
    crypto::CryptoStream,
    recv::Reader,
    send::Writer,
    streams::{DataStreams, Ext},
};
use serde::{Deserialize, Serialize};
use simcore::Rng;
use tokio::io::{AsyncRead, ReadBuf};

use crate::{Answer, Base, Expect, Field, Forged, LADDER, MAX62, ProbeResult, Sid, Val, draw_val, meter, wire};

// ---------------------------------------------------------------------------------------------
// history

#[derive(Clone, Debug, Serialize, Deserialize, PartialEq)]
pub enum SOp {
    /// the application opens a stream (one poll of `open_bi` / `open_uni`)
    OpenLocal { uni: bool },
    /// the application writes (and optionally shuts down) the `sel`-th stream it opened
    WriteLocal { sel: u8, len: u16, fin: bool },
    /// the application accepts a stream the peer opened (one poll of `accept_bi` / `accept_uni`)
    Accept { uni: bool },
    /// the application reads up to `n` bytes from the `sel`-th accepted stream
    Read { sel: u8, n: u16 },
    /// legitimate STREAM frame: on the peer's `idx`-th stream of that type, or on the `idx`-th bidirectional
    /// stream the endpoint opened; `gap` bytes beyond the largest offset sent so far
    PeerStream { on_local: bool, uni: bool, idx: u8, gap: u8, len: u16, fin: bool },
    /// legitimate RESET_STREAM, final size `extra` bytes beyond the largest offset sent so far
    PeerReset { on_local: bool, uni: bool, idx: u8, extra: u16 },
    /// legitimate STOP_SENDING / MAX_STREAM_DATA for the `sel`-th stream the endpoint opened
    PeerStop { sel: u8 },
    PeerMaxStreamData { sel: u8, v: u32 },
    PeerMaxData { v: u32 },
    PeerMaxStreams { uni: bool, v: u16 },
}

#[derive(Clone, Debug, Serialize, Deserialize, PartialEq)]
pub struct StreamHist {
    /// role of the endpoint under test
    pub server: bool,
    /// DemandConcurrency (qconnection's default) instead of ConsistentConcurrency (dquic's default)
    pub demand: bool,
    // what the endpoint advertises
    pub max_data: u32,
    pub win_bidi_local: u32,
    pub win_bidi_remote: u32,
    pub win_uni: u32,
    pub streams_bidi: u16,
    pub streams_uni: u16,
    // what the peer advertises
    pub peer_max_data: u32,
    pub peer_win: u32,
    pub peer_streams_bidi: u16,
    pub peer_streams_uni: u16,
    pub ops: Vec<SOp>,
}

pub fn gen_hist(r: &mut Rng, n: usize) -> StreamHist {
    let win: &[u32] = &[0, 1, 100, 1200, 4096, 65536, 1 << 20];
    let cnt: &[u16] = &[0, 1, 2, 3, 10, 100, 1000];
    let mut ops = Vec::with_capacity(n);
    for _ in 0..n {
        ops.push(match r.below(20) {
            0 | 1 => SOp::OpenLocal { uni: r.one_in(3) },
            2 => SOp::WriteLocal { sel: r.below(6) as u8, len: *r.pick(&[0u16, 1, 100, 1200]), fin: r.one_in(4) },
            3 => SOp::Accept { uni: r.one_in(2) },
            4 => SOp::Read { sel: r.below(6) as u8, n: *r.pick(&[1u16, 100, 5000]) },
            5..=12 => SOp::PeerStream {
                on_local: r.one_in(6),
                uni: r.one_in(3),
                idx: r.below(12) as u8,
                gap: if r.one_in(4) { r.range(1, 9) as u8 } else { 0 },
                len: *r.pick(&[0u16, 1, 30, 300, 1200]),
                fin: r.one_in(5),
            },
            13 => SOp::PeerReset { on_local: r.one_in(6), uni: r.one_in(3), idx: r.below(12) as u8, extra: *r.pick(&[0u16, 0, 1, 500]) },
            14 => SOp::PeerStop { sel: r.below(6) as u8 },
            15 | 16 => SOp::PeerMaxStreamData { sel: r.below(6) as u8, v: *r.pick(&[0u32, 1000, 1 << 20, u32::MAX]) },
            17 | 18 => SOp::PeerMaxData { v: *r.pick(&[0u32, 1000, 1 << 20, u32::MAX]) },
            _ => SOp::PeerMaxStreams { uni: r.one_in(2), v: *r.pick(&[0u16, 1, 5, 100]) },
        });
    }
    // the connection window is usually the largest, so that stream-level and connection-level rules are told apart
    let max_data = if r.one_in(4) { *r.pick(win) } else { *r.pick(&[65536u32, 1 << 20, 1 << 24]) };
    StreamHist {
        server: r.one_in(2),
        demand: r.one_in(3),
        max_data,
        win_bidi_local: *r.pick(win),
        win_bidi_remote: *r.pick(win),
        win_uni: *r.pick(win),
        streams_bidi: *r.pick(cnt),
        streams_uni: *r.pick(cnt),
        peer_max_data: *r.pick(win),
        peer_win: *r.pick(win),
        peer_streams_bidi: *r.pick(cnt),
        peer_streams_uni: *r.pick(cnt),
        ops,
    }
}

pub fn gen_forged(f: &mut Rng) -> (Forged, Field) {
    let sid = |f: &mut Rng, index_under_test: bool| -> Sid {
        let local = f.one_in(4);
        let index = if index_under_test {
            let mut v = draw_val(f, if local { &[Base::LocalOpened] } else { &[Base::StreamLimit] });
            if f.one_in(12) {
                v = Val { base: Base::Pow2(60), off: -1 };
            }
            v
        } else if local {
            if f.one_in(3) { Val::rel(Base::LocalOpened, 0) } else { Val::rel(Base::LocalOpened, -1 - f.below(2) as i64) }
        } else if f.one_in(4) {
            Val::rel(Base::StreamLimit, -1)
        } else {
            Val::abs(f.below(4))
        };
        Sid { local, uni: f.one_in(3), index }
    };
    let end_anchors: &[Base] = &[Base::Window, Base::StreamLargest, Base::ConnRoom, Base::FinalSize];
    let count_val = |f: &mut Rng| -> Val {
        if f.one_in(3) { Val { base: Base::Pow2(60), off: *f.pick(&[-1i64, 0, 1]) } } else { draw_val(f, &[Base::StreamLimit]) }
    };
    match f.below(100) {
        0..=34 => {
            let idx = f.one_in(3);
            let s = sid(f, idx);
            let offset = if idx { if f.one_in(2) { Val::abs(0) } else { Val::rel(Base::StreamLargest, 0) } } else { draw_val(f, end_anchors) };
            (Forged::Stream { sid: s, offset, len: *f.pick(&[0u16, 1, 1, 100, 1200]), fin: f.one_in(3) }, if idx { Field::Index } else { Field::Offset })
        }
        35..=49 => {
            let field = *f.pick(&[Field::Index, Field::FinalSize, Field::FinalSize, Field::ErrCode]);
            let s = sid(f, field == Field::Index);
            let final_size = if field == Field::FinalSize { draw_val(f, end_anchors) } else { Val::rel(Base::StreamLargest, 0) };
            let err = if field == Field::ErrCode { draw_val(f, &[]) } else { Val::abs(7) };
            (Forged::ResetStream { sid: s, err, final_size }, field)
        }
        50..=59 => {
            let field = *f.pick(&[Field::Index, Field::Index, Field::ErrCode]);
            let s = sid(f, field == Field::Index);
            (Forged::StopSending { sid: s, err: if field == Field::ErrCode { draw_val(f, &[]) } else { Val::abs(7) } }, field)
        }
        60..=69 => {
            let field = *f.pick(&[Field::Index, Field::Max]);
            let s = sid(f, field == Field::Index);
            (Forged::MaxStreamData { sid: s, max: if field == Field::Max { draw_val(f, &[]) } else { Val::pow(16) } }, field)
        }
        70..=74 => {
            let field = *f.pick(&[Field::Index, Field::Max]);
            let s = sid(f, field == Field::Index);
            (Forged::StreamDataBlocked { sid: s, limit: if field == Field::Max { draw_val(f, &[Base::Window]) } else { Val::abs(0) } }, field)
        }
        75..=79 => (Forged::MaxData { max: draw_val(f, &[]) }, Field::Max),
        80..=82 => (Forged::DataBlocked { limit: draw_val(f, &[]) }, Field::Max),
        83..=91 => (Forged::MaxStreams { uni: f.one_in(2), max: count_val(f) }, Field::Max),
        _ => (Forged::StreamsBlocked { uni: f.one_in(2), limit: count_val(f) }, Field::Max),
    }
}

// ---------------------------------------------------------------------------------------------
// frame queue towards the peer

/// what `ArcReliableFrameDeque<ReliableFrame>` is in qconnection
#[derive(Clone, Default)]
pub struct Sink(Arc<Mutex<Vec<ReliableFrame>>>);

impl<T: Into<ReliableFrame>> SendFrame<T> for Sink {
    fn send_frame<I: IntoIterator<Item = T>>(&self, iter: I) {
        self.0.lock().unwrap().extend(iter.into_iter().map(Into::into));
    }
}

// ---------------------------------------------------------------------------------------------
// reference model (RFC 9000 §2–§4) of the receiving side of one stream

#[derive(Clone, Debug, Default)]
struct RecvModel {
    largest: u64,
    final_size: Option<u64>,
    window: u64,
    /// byte ranges received, disjoint and sorted
    have: Vec<(u64, u64)>,
    /// everything received or reset: the stack has dropped the receiving state
    terminal: bool,
}

impl RecvModel {
    fn add(&mut self, lo: u64, hi: u64) {
        if lo < hi {
            self.have.push((lo, hi));
            self.have.sort();
            let mut out: Vec<(u64, u64)> = Vec::new();
            for (a, b) in self.have.drain(..) {
                match out.last_mut() {
                    Some(l) if a <= l.1 => l.1 = l.1.max(b),
                    _ => out.push((a, b)),
                }
            }
            self.have = out;
            // an empty frame carries no data: it does not move the largest offset (a FIN does, through the final size)
            self.largest = self.largest.max(hi);
        }
    }
    fn complete(&self) -> bool {
        match self.final_size {
            Some(0) => true,
            Some(f) => self.have.len() == 1 && self.have[0] == (0, f),
            None => false,
        }
    }
}

type Key = (bool, bool, u64); // (initiated by the endpoint, uni, index)

struct LocalIo {
    key: Key,
    writer: Option<Writer<Ext<Sink>>>,
    _reader: Option<Reader<Ext<Sink>>>,
}

struct Fx {
    server: bool,
    streams: DataStreams<Sink>,
    flow: FlowController<Sink>,
    params: ArcParameters,
    sink: Sink,
    seen: usize,
    // model
    recv: BTreeMap<Key, RecvModel>,
    local_io: Vec<LocalIo>,
    accepted: Vec<Reader<Ext<Sink>>>,
    opened_local: [u64; 2],
    limit: [u64; 2],
    init_win: [u64; 3], // bidi opened by the peer, uni opened by the peer, bidi opened by the endpoint
    conn_window: u64,
    conn_used: u64,
    units: u64,
}

fn vi(v: u64) -> VarInt {
    VarInt::from_u64(v).expect("below 2^62")
}

impl Fx {
    fn new(h: &StreamHist) -> Result<Fx, String> {
        let sink = Sink::default();
        let wakers = ArcSendWakers::new();
        let cid = ConnectionId::from_slice(&[0x33; 8]);
        let odcid = ConnectionId::from_slice(&[0x44; 8]);
        let local_set: [(ParameterId, u64); 6] = [
            (ParameterId::InitialMaxData, h.max_data as u64),
            (ParameterId::InitialMaxStreamDataBidiLocal, h.win_bidi_local as u64),
            (ParameterId::InitialMaxStreamDataBidiRemote, h.win_bidi_remote as u64),
            (ParameterId::InitialMaxStreamDataUni, h.win_uni as u64),
            (ParameterId::InitialMaxStreamsBidi, h.streams_bidi as u64),
            (ParameterId::InitialMaxStreamsUni, h.streams_uni as u64),
        ];
        let remote_set: [(ParameterId, u64); 6] = [
            (ParameterId::InitialMaxData, h.peer_max_data as u64),
            (ParameterId::InitialMaxStreamDataBidiLocal, h.peer_win as u64),
            (ParameterId::InitialMaxStreamDataBidiRemote, h.peer_win as u64),
            (ParameterId::InitialMaxStreamDataUni, h.peer_win as u64),
            (ParameterId::InitialMaxStreamsBidi, h.peer_streams_bidi as u64),
            (ParameterId::InitialMaxStreamsUni, h.peer_streams_uni as u64),
        ];
        let ctrl: Box<dyn qbase::sid::ControlStreamsConcurrency> =
            if h.demand { Box::new(DemandConcurrency) } else { Box::new(ConsistentConcurrency::new(h.streams_bidi as u64, h.streams_uni as u64)) };
        let e = |e: qbase::param::error::Error| format!("parameter rejected: {e}");
        let (streams, flow, params);
        if h.server {
            let mut sp = ServerParameters::default();
            let mut cp = ClientParameters::default();
            for (id, v) in local_set {
                sp.set(id, vi(v)).map_err(e)?;
            }
            for (id, v) in remote_set {
                cp.set(id, vi(v)).map_err(e)?;
            }
            cp.set(ParameterId::InitialSourceConnectionId, cid).map_err(e)?;
            // init_stream_and_datagram(self.parameters.server().unwrap(), &ClientParameters::default(), ..)
            flow = FlowController::new(ClientParameters::default().get(ParameterId::InitialMaxData).unwrap(), sp.get(ParameterId::InitialMaxData).unwrap(), sink.clone(), wakers.clone());
            streams = DataStreams::new(Role::Server, &sp, &ClientParameters::default(), ctrl, sink.clone(), wakers.clone(), None);
            let mut p = Parameters::new_server(sp);
            p.initial_scid_from_peer_need_equal(cid).map_err(|e| e.to_string())?;
            p.recv_remote_params(cp.clone()).map_err(|e| e.to_string())?;
            params = ArcParameters::from(p);
            // tls_fin_handler::apply_parameters
            streams.revise_params(false, &cp);
            flow.sender.revise_max_data(false, cp.get(ParameterId::InitialMaxData).unwrap());
        } else {
            let mut cp = ClientParameters::default();
            let mut sp = ServerParameters::default();
            for (id, v) in local_set {
                cp.set(id, vi(v)).map_err(e)?;
            }
            for (id, v) in remote_set {
                sp.set(id, vi(v)).map_err(e)?;
            }
            sp.set(ParameterId::InitialSourceConnectionId, cid).map_err(e)?;
            sp.set(ParameterId::OriginalDestinationConnectionId, odcid).map_err(e)?;
            flow = FlowController::new(ServerParameters::default().get(ParameterId::InitialMaxData).unwrap(), cp.get(ParameterId::InitialMaxData).unwrap(), sink.clone(), wakers.clone());
            streams = DataStreams::new(Role::Client, &cp, &ServerParameters::default(), ctrl, sink.clone(), wakers.clone(), None);
            let mut p = Parameters::new_client(cp, None, odcid);
            p.initial_scid_from_peer_need_equal(cid).map_err(|e| e.to_string())?;
            p.recv_remote_params(sp.clone()).map_err(|e| e.to_string())?;
            params = ArcParameters::from(p);
            streams.revise_params(false, &sp);
            flow.sender.revise_max_data(false, sp.get(ParameterId::InitialMaxData).unwrap());
        }
        Ok(Fx {
            server: h.server,
            streams,
            flow,
            params,
            sink,
            seen: 0,
            recv: BTreeMap::new(),
            local_io: Vec::new(),
            accepted: Vec::new(),
            opened_local: [0, 0],
            limit: [h.streams_bidi as u64, h.streams_uni as u64],
            init_win: [h.win_bidi_remote as u64, h.win_uni as u64, h.win_bidi_local as u64],
            conn_window: h.max_data as u64,
            conn_used: 0,
            units: 8 + h.streams_bidi as u64 + h.streams_uni as u64,
        })
    }

    fn raw_sid(&self, k: Key) -> u64 {
        let server_initiated = if k.0 { self.server } else { !self.server };
        wire::sid_raw(k.2, k.1, server_initiated)
    }

    fn key_of(&self, sid: qbase::sid::StreamId) -> Key {
        let my_role = if self.server { Role::Server } else { Role::Client };
        (sid.role() == my_role, sid.dir() == Dir::Uni, sid.id())
    }

    fn fresh_model(&self, k: Key) -> RecvModel {
        let window = if k.0 { self.init_win[2] } else if k.1 { self.init_win[1] } else { self.init_win[0] };
        RecvModel { window, ..Default::default() }
    }

    /// the peer learns the limits the endpoint has advertised since the last call
    fn absorb(&mut self) {
        let frames: Vec<ReliableFrame> = {
            let g = self.sink.0.lock().unwrap();
            g[self.seen..].to_vec()
        };
        self.seen += frames.len();
        for f in frames {
            match f {
                ReliableFrame::MaxData(m) => self.conn_window = self.conn_window.max(m.max_data()),
                ReliableFrame::StreamCtl(StreamCtlFrame::MaxStreamData(m)) => {
                    let k = self.key_of(m.stream_id());
                    let fresh = self.fresh_model(k);
                    let e = self.recv.entry(k).or_insert(fresh);
                    e.window = e.window.max(m.max_stream_data());
                }
                ReliableFrame::StreamCtl(StreamCtlFrame::MaxStreams(m)) => {
                    let (d, v) = match m {
                        qbase::frame::MaxStreamsFrame::Bi(v) => (0, v.into_u64()),
                        qbase::frame::MaxStreamsFrame::Uni(v) => (1, v.into_u64()),
                    };
                    self.limit[d] = self.limit[d].max(v);
                }
                _ => {}
            }
        }
    }

    /// `FlowControlledDataStreams::recv_frame` and the two flow-control pipes
    fn deliver(&self, frame: Frame) -> Result<(), Error> {
        match frame {
            Frame::Stream(f, data) => {
                let ty = f.frame_type();
                let new_data_size = self.streams.recv_data((f, data))?;
                self.flow.on_new_rcvd(ty, new_data_size)?;
                Ok(())
            }
            Frame::StreamCtl(f) => {
                let new_data_size = self.streams.recv_stream_control(f)?;
                self.flow.on_new_rcvd(f.frame_type(), new_data_size)?;
                Ok(())
            }
            Frame::MaxData(f) => self.flow.sender.recv_frame(f),
            Frame::DataBlocked(f) => self.flow.recver.recv_frame(f),
            other => panic!("stream fixture cannot deliver {other:?}"),
        }
    }

    fn legit(&mut self, raw: Vec<u8>, what: &str) -> Result<(), String> {
        let frame = wire::parse_one(raw).map_err(|k| format!("legitimate {what} did not parse: {k:?}"))?;
        self.deliver(frame).map_err(|e| format!("legitimate {what} rejected: {e}"))?;
        self.absorb();
        self.units += 1;
        Ok(())
    }

    /// which stream a legitimate peer frame targets; None if there is none it may use
    fn peer_target(&mut self, on_local: bool, uni: bool, idx: u8) -> Option<Key> {
        if on_local {
            let bidi: Vec<Key> = self.local_io.iter().map(|l| l.key).filter(|k| !k.1).collect();
            if bidi.is_empty() {
                return None;
            }
            Some(bidi[idx as usize % bidi.len()])
        } else {
            let d = uni as usize;
            if self.limit[d] == 0 {
                return None;
            }
            let opened = self.recv.keys().filter(|k| !k.0 && k.1 == uni).map(|k| k.2 + 1).max().unwrap_or(0);
            let i = idx as u64 % self.limit[d].min(opened + 2);
            // lower-numbered streams of the type are opened implicitly
            for j in 0..=i {
                let k = (false, uni, j);
                if !self.recv.contains_key(&k) {
                    let m = self.fresh_model(k);
                    self.recv.insert(k, m);
                    self.units += 1;
                }
            }
            Some((false, uni, i))
        }
    }

    fn run(&mut self, ops: &[SOp]) -> Result<(), String> {
        let waker = noop_waker();
        let mut cx = Context::from_waker(&waker);
        for op in ops {
            match op {
                SOp::OpenLocal { uni } => {
                    if *uni {
                        let mut fut = std::pin::pin!(self.streams.open_uni(&self.params));
                        if let Poll::Ready(Ok(Some((sid, w)))) = fut.as_mut().poll(&mut cx) {
                            let key = (true, true, sid.id());
                            self.local_io.push(LocalIo { key, writer: Some(w), _reader: None });
                            self.opened_local[1] = self.opened_local[1].max(sid.id() + 1);
                            self.units += 1;
                        }
                    } else {
                        let mut fut = std::pin::pin!(self.streams.open_bi(&self.params));
                        if let Poll::Ready(Ok(Some((sid, (r, w))))) = fut.as_mut().poll(&mut cx) {
                            let key = (true, false, sid.id());
                            let m = self.fresh_model(key);
                            self.recv.insert(key, m);
                            self.local_io.push(LocalIo { key, writer: Some(w), _reader: Some(r) });
                            self.opened_local[0] = self.opened_local[0].max(sid.id() + 1);
                            self.units += 1;
                        }
                    }
                    self.absorb();
                }
                SOp::WriteLocal { sel, len, fin } => {
                    if self.local_io.is_empty() {
                        continue;
                    }
                    let i = *sel as usize % self.local_io.len();
                    if let Some(w) = self.local_io[i].writer.as_mut() {
                        let _ = w.poll_write(&mut cx, Bytes::from(vec![0x5a; *len as usize]));
                        if *fin {
                            let _ = w.poll_shutdown(&mut cx);
                        }
                        self.units += 1;
                    }
                }
                SOp::Accept { uni } => {
                    if *uni {
                        let mut fut = std::pin::pin!(self.streams.accept_uni());
                        if let Poll::Ready(Ok((_sid, r))) = fut.as_mut().poll(&mut cx) {
                            self.accepted.push(r);
                        }
                    } else {
                        let mut fut = std::pin::pin!(self.streams.accept_bi(&self.params));
                        if let Poll::Ready(Ok((sid, (r, w)))) = fut.as_mut().poll(&mut cx) {
                            self.accepted.push(r);
                            self.local_io.push(LocalIo { key: (false, false, sid.id()), writer: Some(w), _reader: None });
                        }
                    }
                }
                SOp::Read { sel, n } => {
                    if self.accepted.is_empty() {
                        continue;
                    }
                    let i = *sel as usize % self.accepted.len();
                    let mut buf = vec![0u8; *n as usize];
                    let mut rb = ReadBuf::new(&mut buf);
                    let _ = std::pin::Pin::new(&mut self.accepted[i]).poll_read(&mut cx, &mut rb);
                    self.absorb();
                }
                SOp::PeerStream { on_local, uni, idx, gap, len, fin } => {
                    let Some(k) = self.peer_target(*on_local, *uni, *idx) else { continue };
                    let m = self.recv.get(&k).cloned().unwrap_or_else(|| self.fresh_model(k));
                    if m.terminal || m.final_size.is_some() {
                        continue;
                    }
                    let off = m.largest + *gap as u64 * 13;
                    let room_stream = m.window.saturating_sub(off);
                    let room_conn = (self.conn_window - self.conn_used).saturating_sub(off - m.largest);
                    if off > m.window || off - m.largest > self.conn_window - self.conn_used {
                        continue;
                    }
                    let l = (*len as u64).min(room_stream).min(room_conn);
                    if l == 0 && !*fin && *len != 0 {
                        continue;
                    }
                    // a sender has no reason to name an offset it has not reached in a frame without data
                    // (nor does the history rely on how a final size announced by an empty frame is accounted)
                    let off = if l == 0 { m.largest } else { off };
                    let end = off + l;
                    let raw = wire::stream(self.raw_sid(k), off, &vec![0xa5; l as usize], *fin);
                    self.legit(raw, "STREAM")?;
                    let e = self.recv.get_mut(&k).expect("model exists");
                    if l > 0 || *fin {
                        // RFC 9000 §4.5: the final size counts against the connection window whatever was received
                        self.conn_used += end.max(e.largest) - e.largest;
                    }
                    e.add(off, end);
                    if *fin {
                        e.final_size = Some(end);
                        e.largest = e.largest.max(end);
                    }
                    if e.complete() {
                        e.terminal = true;
                    }
                }
                SOp::PeerReset { on_local, uni, idx, extra } => {
                    let Some(k) = self.peer_target(*on_local, *uni, *idx) else { continue };
                    let m = self.recv.get(&k).cloned().unwrap_or_else(|| self.fresh_model(k));
                    if m.terminal {
                        continue;
                    }
                    let fs = match m.final_size {
                        Some(f) => f,
                        None => (m.largest + *extra as u64).min(m.window.max(m.largest)).min(m.largest + (self.conn_window - self.conn_used)),
                    };
                    let raw = wire::reset_stream(self.raw_sid(k), 9, fs);
                    self.legit(raw, "RESET_STREAM")?;
                    let e = self.recv.get_mut(&k).expect("model exists");
                    self.conn_used += fs - e.largest;
                    e.largest = fs;
                    e.final_size = Some(fs);
                    e.terminal = true;
                }
                SOp::PeerStop { sel } | SOp::PeerMaxStreamData { sel, .. } => {
                    // streams whose sending part the endpoint holds: the ones it opened, and bidirectional ones of the peer
                    let mut cands: Vec<Key> = self.local_io.iter().map(|l| l.key).filter(|k| k.0).collect();
                    cands.extend(self.recv.keys().filter(|k| !k.0 && !k.1).copied());
                    if cands.is_empty() {
                        continue;
                    }
                    let k = cands[*sel as usize % cands.len()];
                    let raw = match op {
                        SOp::PeerStop { .. } => wire::stop_sending(self.raw_sid(k), 3),
                        SOp::PeerMaxStreamData { v, .. } => wire::max_stream_data(self.raw_sid(k), *v as u64),
                        _ => unreachable!(),
                    };
                    self.legit(raw, "STOP_SENDING / MAX_STREAM_DATA")?;
                }
                SOp::PeerMaxData { v } => self.legit(wire::max_data(*v as u64), "MAX_DATA")?,
                SOp::PeerMaxStreams { uni, v } => self.legit(wire::max_streams(*uni, *v as u64), "MAX_STREAMS")?,
            }
        }
        Ok(())
    }
}

// ---------------------------------------------------------------------------------------------
// RFC table for the forged frame

fn union(allowed: &mut Vec<&'static str>, case: &mut String, kinds: &[&'static str], name: &str) {
    for k in kinds {
        if !allowed.contains(k) {
            allowed.push(k);
        }
    }
    if case.is_empty() {
        *case = name.to_string();
    }
}

enum SidClass {
    /// the frame's stream type does not permit this frame: STREAM_STATE_ERROR
    WrongDirection(&'static str),
    /// locally initiated, not yet opened
    LocalUnopened,
    /// peer initiated, index >= advertised limit
    OverLimit(bool),
    Fine,
}

/// `recv_side`: the frame comes from the peer's sending part (STREAM, RESET_STREAM, STREAM_DATA_BLOCKED);
/// otherwise from its receiving part (STOP_SENDING, MAX_STREAM_DATA)
fn classify(fx: &Fx, k: Key, recv_side: bool) -> SidClass {
    let (local, uni, idx) = k;
    if recv_side {
        if local && uni {
            return SidClass::WrongDirection("local-uni");
        }
    } else if !local && uni {
        return SidClass::WrongDirection("peer-uni");
    }
    if local {
        if idx >= fx.opened_local[uni as usize] { SidClass::LocalUnopened } else { SidClass::Fine }
    } else if idx >= fx.limit[uni as usize] {
        SidClass::OverLimit(idx == fx.limit[uni as usize])
    } else {
        SidClass::Fine
    }
}

fn sid_expect(fx: &Fx, frame: &str, k: Key, recv_side: bool, unopened_must: bool) -> Option<Expect> {
    match classify(fx, k, recv_side) {
        SidClass::WrongDirection(w) => Some(Expect { case: format!("{frame}:{w}"), allowed: vec!["StreamState"], legal: false }),
        SidClass::LocalUnopened if unopened_must => Some(Expect { case: format!("{frame}:local-unopened"), allowed: vec!["StreamState"], legal: false }),
        // RFC 9000 prescribes nothing for this frame type on a stream the endpoint has not opened yet
        SidClass::LocalUnopened => Some(Expect { case: format!("{frame}:local-unopened"), allowed: vec![], legal: true }),
        // one check (`try_accept_sid`) serves every frame type: one site per root cause
        SidClass::OverLimit(at) => Some(Expect { case: format!("peer-stream-index-{}", if at { "at-limit" } else { "beyond-limit" }), allowed: vec!["StreamLimit"], legal: false }),
        SidClass::Fine => None,
    }
}

pub fn probe(h: &StreamHist, forged: &Forged) -> ProbeResult {
    let mut fx = match Fx::new(h) {
        Ok(f) => f,
        Err(e) => return ProbeResult::harness(e),
    };
    if let Err(e) = fx.run(&h.ops) {
        return ProbeResult::harness(e);
    }
    meter::arm(true);
    let mut res = ProbeResult::new();
    res.units = fx.units;
    let before = fx.sink.0.lock().unwrap().len();

    let resolve_sid = |fx: &Fx, s: &Sid| -> Key {
        let idx = s.index.resolve(&|b| match b {
            Base::StreamLimit => fx.limit[s.uni as usize],
            Base::LocalOpened => fx.opened_local[s.uni as usize],
            _ => 0,
        });
        (s.local, s.uni, idx.min((1 << 60) - 1))
    };
    let model_of = |fx: &Fx, k: Key| -> RecvModel { fx.recv.get(&k).cloned().unwrap_or_else(|| fx.fresh_model(k)) };
    let conn_room = fx.conn_window - fx.conn_used;
    // an anchored value names the END of the data (offset + length); an absolute one the offset itself
    let resolve_end = |v: &Val, m: &RecvModel, len: u64| -> u64 {
        if v.is_anchored() {
            let end = v.resolve(&|b| match b {
                Base::Window => m.window,
                Base::StreamLargest => m.largest,
                Base::ConnRoom => m.largest.saturating_add(conn_room).min(MAX62),
                Base::FinalSize => m.final_size.unwrap_or(m.largest),
                _ => 0,
            });
            end.saturating_sub(len)
        } else {
            v.resolve(&|_| 0)
        }
    };
    let none = |_b: Base| 0u64;

    let (raw, handler): (Vec<u8>, &'static str) = match forged {
        Forged::Stream { sid, offset, len, fin } => {
            let k = resolve_sid(&fx, sid);
            let m = model_of(&fx, k);
            let l = *len as u64;
            let off = resolve_end(offset, &m, l);
            let end = off + l;
            res.detail = format!(
                "STREAM {k:?} (local, uni, index) offset={off} len={l} fin={fin}; stream largest={} final={:?} window={} terminal={}, connection room {conn_room}, limits {:?}, opened {:?}",
                m.largest, m.final_size, m.window, m.terminal, fx.limit, fx.opened_local
            );
            // every rule the frame breaks is collected; the RFC does not order them, so any of their errors is right
            let sid_rule = sid_expect(&fx, "stream", k, true, true);
            let on_stream = matches!(classify(&fx, k, true), SidClass::Fine | SidClass::OverLimit(_));
            let (mut allowed, mut case, mut legal) = match sid_rule {
                Some(e) => (e.allowed, e.case, e.legal),
                None => (Vec::new(), String::new(), true),
            };
            if !allowed.is_empty() {
                legal = false;
            }
            if end > MAX62 {
                union(&mut allowed, &mut case, &["FrameEncoding", "FlowControl"], "stream:offset+len-overflow");
                legal = false;
            }
            // a frame with neither data nor FIN conveys nothing that the limits could be applied to
            let conveys = l > 0 || *fin;
            if on_stream && !m.terminal && conveys {
                let n0 = allowed.len();
                if let Some(f) = m.final_size {
                    if end > f {
                        union(&mut allowed, &mut case, &["FinalSize"], "stream:beyond-final-size");
                    } else if *fin && end != f {
                        union(&mut allowed, &mut case, &["FinalSize"], "stream:final-size-change");
                    }
                }
                if *fin && end < m.largest {
                    union(&mut allowed, &mut case, &["FinalSize"], "stream:final-size-below-received");
                }
                if end > m.window {
                    union(&mut allowed, &mut case, &["FlowControl"], if *fin { "stream:beyond-stream-window-fin" } else { "stream:beyond-stream-window" });
                }
                if end.max(m.largest) - m.largest > conn_room {
                    // with FIN the final size is what counts (RFC 9000 §4.5), whatever part of the data has arrived
                    union(&mut allowed, &mut case, &["FlowControl"], if *fin { "stream:final-size-beyond-conn-window" } else { "stream:beyond-conn-window" });
                }
                if allowed.len() > n0 || (n0 > 0 && !legal) {
                    legal = false;
                }
            }
            res.expect = Some(if (m.terminal || !conveys) && legal {
                Expect { case: "stream:closed-or-empty".into(), allowed: vec![], legal: true }
            } else if allowed.is_empty() && legal && case.is_empty() {
                Expect { case: "stream:legal".into(), allowed: vec!["Ok"], legal: true }
            } else {
                Expect { case, allowed, legal }
            });
            (wire::stream(fx.raw_sid(k), off.min(MAX62), &vec![0xee; *len as usize], *fin), "streams.recv_data")
        }
        Forged::ResetStream { sid, err, final_size } => {
            let k = resolve_sid(&fx, sid);
            let m = model_of(&fx, k);
            let fs = resolve_end(final_size, &m, 0);
            res.detail = format!(
                "RESET_STREAM {k:?} final_size={fs}; stream largest={} final={:?} window={} terminal={}, connection room {conn_room}, limits {:?}, opened {:?}",
                m.largest, m.final_size, m.window, m.terminal, fx.limit, fx.opened_local
            );
            let sid_rule = sid_expect(&fx, "reset_stream", k, true, false);
            let on_stream = matches!(classify(&fx, k, true), SidClass::Fine | SidClass::OverLimit(_));
            let (mut allowed, mut case, mut legal) = match sid_rule {
                Some(e) => (e.allowed, e.case, e.legal),
                None => (Vec::new(), String::new(), true),
            };
            if !allowed.is_empty() {
                legal = false;
            }
            if on_stream && !m.terminal {
                if let Some(f) = m.final_size {
                    if fs != f {
                        union(&mut allowed, &mut case, &["FinalSize"], "reset_stream:final-size-change");
                    }
                }
                if fs < m.largest {
                    union(&mut allowed, &mut case, &["FinalSize"], "reset_stream:final-size-below-received");
                }
                if fs > m.window {
                    union(&mut allowed, &mut case, &["FlowControl"], "reset_stream:final-size-beyond-stream-window");
                }
                if fs.max(m.largest) - m.largest > conn_room {
                    union(&mut allowed, &mut case, &["FlowControl"], "reset_stream:final-size-beyond-conn-window");
                }
                if !allowed.is_empty() {
                    legal = false;
                }
            }
            res.expect = Some(if m.terminal && legal {
                Expect { case: "reset_stream:closed".into(), allowed: vec![], legal: true }
            } else if allowed.is_empty() && legal && case.is_empty() {
                Expect { case: "reset_stream:legal".into(), allowed: vec!["Ok"], legal: true }
            } else {
                Expect { case, allowed, legal }
            });
            (wire::reset_stream(fx.raw_sid(k), err.resolve(&none), fs), "streams.recv_stream_control")
        }
        Forged::StopSending { sid, err } => {
            let k = resolve_sid(&fx, sid);
            res.detail = format!("STOP_SENDING {k:?}; limits {:?}, opened {:?}", fx.limit, fx.opened_local);
            res.expect = sid_expect(&fx, "stop_sending", k, false, true).or(Some(Expect { case: "stop_sending:legal".into(), allowed: vec!["Ok"], legal: true }));
            (wire::stop_sending(fx.raw_sid(k), err.resolve(&none)), "streams.recv_stream_control")
        }
        Forged::MaxStreamData { sid, max } => {
            let k = resolve_sid(&fx, sid);
            let v = max.resolve(&none);
            res.detail = format!("MAX_STREAM_DATA {k:?} max={v}; limits {:?}, opened {:?}", fx.limit, fx.opened_local);
            res.expect = sid_expect(&fx, "max_stream_data", k, false, true).or(Some(Expect { case: "max_stream_data:legal".into(), allowed: vec!["Ok"], legal: true }));
            (wire::max_stream_data(fx.raw_sid(k), v), "streams.recv_stream_control")
        }
        Forged::StreamDataBlocked { sid, limit } => {
            let k = resolve_sid(&fx, sid);
            let m = model_of(&fx, k);
            let v = limit.resolve(&|b| match b {
                Base::Window => m.window,
                _ => 0,
            });
            res.detail = format!("STREAM_DATA_BLOCKED {k:?} limit={v}; limits {:?}, opened {:?}", fx.limit, fx.opened_local);
            res.expect = sid_expect(&fx, "stream_data_blocked", k, true, false).or(Some(Expect { case: "stream_data_blocked:legal".into(), allowed: vec!["Ok"], legal: true }));
            (wire::stream_data_blocked(fx.raw_sid(k), v), "streams.recv_stream_control")
        }
        Forged::MaxData { max } => {
            let v = max.resolve(&none);
            res.detail = format!("MAX_DATA {v}");
            res.expect = Some(Expect { case: "max_data:legal".into(), allowed: vec!["Ok"], legal: true });
            (wire::max_data(v), "flow.recv_max_data")
        }
        Forged::DataBlocked { limit } => {
            let v = limit.resolve(&none);
            res.detail = format!("DATA_BLOCKED {v}");
            res.expect = Some(Expect { case: "data_blocked:legal".into(), allowed: vec!["Ok"], legal: true });
            (wire::data_blocked(v), "flow.recv_data_blocked")
        }
        Forged::MaxStreams { uni, max } | Forged::StreamsBlocked { uni, limit: max } => {
            let is_max = matches!(forged, Forged::MaxStreams { .. });
            let name = if is_max { "max_streams" } else { "streams_blocked" };
            let v = max.resolve(&|b| match b {
                Base::StreamLimit => fx.limit[*uni as usize],
                _ => 0,
            });
            res.detail = format!("{} uni={uni} value={v}; limits {:?}", name.to_uppercase(), fx.limit);
            // RFC 9000 §19.11 / §19.14: a value above 2^60 -> FRAME_ENCODING_ERROR (STREAM_LIMIT_ERROR accepted)
            res.expect = Some(if v > 1 << 60 {
                Expect { case: format!("{name}:above-2^60"), allowed: vec!["FrameEncoding", "StreamLimit"], legal: false }
            } else if v == 1 << 60 {
                Expect { case: format!("{name}:exactly-2^60"), allowed: vec!["Ok"], legal: true }
            } else {
                Expect { case: format!("{name}:legal"), allowed: vec!["Ok"], legal: true }
            });
            (if is_max { wire::max_streams(*uni, v) } else { wire::streams_blocked(*uni, v) }, "streams.recv_stream_control")
        }
        other => return ProbeResult::harness(format!("stream fixture cannot take {other:?}")),
    };
    res.frame_len = raw.len();
    match wire::parse_one(raw) {
        Ok(frame) => {
            let fxr = &fx;
            match meter::handler(&mut res.handlers, handler, || fxr.deliver(frame)) {
                None => res.answer = Answer::Panic,
                Some(Ok(())) => res.answer = Answer::Ok,
                Some(Err(e)) => res.answer = Answer::Err(format!("{:?}", e.kind())),
            }
        }
        Err(k) => res.answer = Answer::Err(format!("{k:?}")),
    }
    let after = fx.sink.0.lock().unwrap().len();
    res.emitted = (after - before) as u64;
    if matches!(forged, Forged::StreamsBlocked { .. }) && after > before {
        res.notes.push("probe.streams_blocked_raised_limit");
    }
    if matches!(forged, Forged::StopSending { .. }) && after > before {
        res.notes.push("probe.stop_sending_answered_with_reset");
    }
    let _ = meter::guarded(move || drop(fx));
    res
}

// ---------------------------------------------------------------------------------------------
// CRYPTO

#[derive(Clone, Debug, Serialize, Deserialize, PartialEq)]
pub enum KOp {
    /// legitimate CRYPTO frame `gap` bytes beyond the largest offset sent so far
    PeerCrypto { gap: u8, len: u16 },
    /// the TLS stack reads up to `n` bytes
    Read { n: u16 },
}

#[derive(Clone, Debug, Serialize, Deserialize, PartialEq)]
pub struct CryptoHist {
    pub ops: Vec<KOp>,
}

pub fn gen_crypto_hist(r: &mut Rng, n: usize) -> CryptoHist {
    let mut ops = Vec::with_capacity(n);
    for _ in 0..n {
        ops.push(if r.one_in(4) { KOp::Read { n: *r.pick(&[1u16, 100, 4000]) } } else { KOp::PeerCrypto { gap: if r.one_in(4) { r.range(1, 50) as u8 } else { 0 }, len: *r.pick(&[1u16, 40, 300, 1200]) } });
    }
    CryptoHist { ops }
}

pub fn probe_crypto(h: &CryptoHist, forged: &Forged) -> ProbeResult {
    let Forged::Crypto { offset, len } = forged else { return ProbeResult::harness(format!("crypto fixture cannot take {forged:?}")) };
    let cs = CryptoStream::new(ArcSendWakers::new());
    let incoming = cs.incoming();
    let mut reader = cs.reader();
    let waker = noop_waker();
    let mut cx = Context::from_waker(&waker);
    let mut largest = 0u64;
    let mut units = 4u64;
    for op in &h.ops {
        match op {
            KOp::PeerCrypto { gap, len } => {
                let off = largest + *gap as u64;
                let raw = wire::crypto(off, &vec![0x16; *len as usize]);
                match wire::parse_one(raw) {
                    Ok(Frame::Crypto(f, data)) => {
                        if let Err(e) = incoming.recv_frame((f, data)) {
                            return ProbeResult::harness(format!("legitimate CRYPTO rejected: {e}"));
                        }
                    }
                    other => return ProbeResult::harness(format!("legitimate CRYPTO did not parse: {other:?}")),
                }
                largest = off + *len as u64;
                units += 1;
            }
            KOp::Read { n } => {
                let mut buf = vec![0u8; *n as usize];
                let mut rb = ReadBuf::new(&mut buf);
                let _ = std::pin::Pin::new(&mut reader).poll_read(&mut cx, &mut rb);
            }
        }
    }
    meter::arm(true);
    let mut res = ProbeResult::new();
    res.units = units;
    let off = if offset.is_anchored() {
        offset.resolve(&|b| match b {
            Base::CryptoLargest => largest,
            _ => 0,
        })
    } else {
        offset.resolve(&|_| 0)
    };
    let raw = wire::crypto(off, &vec![0x17; *len as usize]);
    res.frame_len = raw.len();
    res.detail = format!("CRYPTO offset={off} len={len}; largest offset received {largest}");
    // RFC 9000 §19.6: offset + length beyond 2^62-1 -> FRAME_ENCODING_ERROR or CRYPTO_BUFFER_EXCEEDED; §7.5: an
    // endpoint that cannot buffer -> CRYPTO_BUFFER_EXCEEDED, it may also buffer more
    res.expect = Some(if off + *len as u64 > MAX62 {
        Expect { case: "crypto:offset+len-overflow".into(), allowed: vec!["FrameEncoding", "CryptoBufferExceeded"], legal: false }
    } else {
        Expect { case: "crypto:in-range".into(), allowed: vec!["Ok", "CryptoBufferExceeded"], legal: true }
    });
    match wire::parse_one(raw) {
        Ok(Frame::Crypto(f, data)) => match meter::handler(&mut res.handlers, "crypto.recv_frame", || incoming.recv_frame((f, data))) {
            None => res.answer = Answer::Panic,
            Some(Ok(())) => res.answer = Answer::Ok,
            Some(Err(e)) => res.answer = Answer::Err(format!("{:?}", e.kind())),
        },
        Ok(other) => return ProbeResult::harness(format!("forged CRYPTO decoded as {other:?}")),
        Err(k) => res.answer = Answer::Err(format!("{k:?}")),
    }
    let _ = LADDER;
    res
}
