//! The two endpoints, the channel, the application actors and the oracles of streamsim.
use std::{
    collections::{BTreeMap, BTreeSet, HashMap},
    pin::Pin,
    task::Poll,
};

use bytes::{BufMut, Bytes, BytesMut};
use qbase::{
    cid::ConnectionId,
    error::Error as QError,
    flow::FlowController,
    frame::{
        Frame, FrameReader, ReliableFrame, StreamCtlFrame, StreamFrame,
        io::{ReceiveFrame, SendFrame},
    },
    net::tx::ArcSendWakers,
    packet::{RecordFrame, r#type::{Type, short::OneRtt}},
    param::{ArcParameters, ClientParameters, ParameterId, Parameters, ServerParameters},
    role::Role,
    sid::{
        Dir, StreamId,
        handy::{ConsistentConcurrency, DemandConcurrency},
        ControlStreamsConcurrency,
    },
    util::ContinuousData,
};
use qrecovery::{
    recv::{Reader, StopSending},
    reliable::ArcReliableFrameDeque,
    send::{CancelStream, Writer},
    streams::{DataStreams, Ext},
};
use simcore::{Outcome, Rng, TraceHash, prf, wake::Task};
use tokio::io::{AsyncRead, AsyncWrite, ReadBuf};

use crate::{Case, Fate, Mode, Params, Side, StreamSpec, byz};

macro_rules! trace {
    ($($t:tt)*) => {
        if std::env::var("STREAMSIM_TRACE").is_ok() {
            eprintln!($($t)*);
        }
    };
}

pub type Rel = ArcReliableFrameDeque<ReliableFrame>;
pub type Ds = DataStreams<Rel>;
pub type Rd = Reader<Ext<Rel>>;
pub type Wr = Writer<Ext<Rel>>;

/// what a packet carried, as far as feedback is concerned
#[derive(Clone, Debug)]
pub enum Rec {
    Stream(StreamFrame),
    Ctl(ReliableFrame),
    Other,
}

/// Packet target: a bounded buffer that records the frames loaded into it.
pub struct Pkt {
    pub(crate) buf: BytesMut,
    cap: usize,
    pub recs: Vec<Rec>,
}

impl Pkt {
    pub fn new(cap: usize) -> Self {
        Pkt { buf: BytesMut::with_capacity(cap), cap, recs: Vec::new() }
    }
}

unsafe impl BufMut for Pkt {
    fn remaining_mut(&self) -> usize {
        self.cap - self.buf.len()
    }
    unsafe fn advance_mut(&mut self, cnt: usize) {
        assert!(self.buf.len() + cnt <= self.cap, "frame wrote beyond the packet capacity");
        unsafe { self.buf.advance_mut(cnt) }
    }
    fn chunk_mut(&mut self) -> &mut bytes::buf::UninitSlice {
        let left = self.cap - self.buf.len();
        if self.buf.capacity() - self.buf.len() < left {
            self.buf.reserve(left);
        }
        let c = self.buf.chunk_mut();
        let n = c.len().min(left);
        &mut c[..n]
    }
}

impl<D: ContinuousData> RecordFrame<Frame<D>, D> for Pkt {
    fn record_frame(&mut self, frame: &Frame<D>) {
        self.recs.push(match frame {
            Frame::Stream(f, _) => Rec::Stream(*f),
            Frame::MaxData(f) => Rec::Ctl(ReliableFrame::MaxData(*f)),
            Frame::DataBlocked(f) => Rec::Ctl(ReliableFrame::DataBlocked(*f)),
            Frame::StreamCtl(f) => Rec::Ctl(ReliableFrame::StreamCtl(*f)),
            _ => Rec::Other,
        });
    }
}

#[derive(Clone, Copy, PartialEq, Debug)]
enum PState {
    Flight,
    Lost,
    Acked,
}

struct SentPkt {
    recs: Vec<Rec>,
    state: PState,
    at: u32,
    ord: u32,
}

pub struct Ep {
    pub side: Side,
    pub role: Role,
    pub ds: Ds,
    pub flow: FlowController<Rel>,
    pub rel: Rel,
    pub params: ArcParameters,
    next_pn: u64,
    sent: BTreeMap<u64, SentPkt>,
    ord: u32,
    ack_ord: u32,
    rcvd_pns: BTreeSet<u64>,
    ack_pending: bool,
    // limits delivered to this endpoint (what it may send)
    lim_conn: u64,
    lim_stream: HashMap<u64, u64>,
    lim_streams: [u64; 2],
    max_off_sent: HashMap<u64, u64>,
    // limits this endpoint has emitted (what its peer may do)
    pub adv_conn: u64,
    pub adv_stream: HashMap<u64, u64>,
    pub adv_streams: [u64; 2],
    emitted_vals: BTreeSet<(u8, u64, u64)>,
    pub failed: Option<String>,
    /// the peer parameters this endpoint's sending is judged against (the remembered ones during 0-RTT)
    peer_params: Params,
    /// a 0-RTT client before the handshake completed
    pub in_zero_rtt: bool,
    /// 0-RTT was rejected and the handshake has not completed yet: the application's openers wait
    pub gate_openers: bool,
}

pub fn sid_key(sid: StreamId) -> u64 {
    (sid.id() << 2) | ((sid.dir() as u64) << 1) | sid.role() as u64
}

fn role_of(side: Side) -> Role {
    if side == Side::Client { Role::Client } else { Role::Server }
}

fn set_params<R>(p: &mut qbase::param::core::Parameters<R>, x: &Params)
where
    R: qbase::role::IntoRole + Default,
{
    for (id, v) in [
        (ParameterId::InitialMaxData, x.max_data),
        (ParameterId::InitialMaxStreamDataBidiLocal, x.stream_bidi_local),
        (ParameterId::InitialMaxStreamDataBidiRemote, x.stream_bidi_remote),
        (ParameterId::InitialMaxStreamDataUni, x.stream_uni),
        (ParameterId::InitialMaxStreamsBidi, x.streams_bidi),
        (ParameterId::InitialMaxStreamsUni, x.streams_uni),
    ] {
        p.set(id, qbase::varint::VarInt::from_u64(v).unwrap()).expect("legal parameter");
    }
}

fn strategy(x: &Params) -> Box<dyn ControlStreamsConcurrency> {
    if x.demand { Box::new(DemandConcurrency) } else { Box::new(ConsistentConcurrency::new(x.streams_bidi, x.streams_uni)) }
}

/// Build both endpoints the way qconnection::builder does: default peer parameters first, then the real ones
/// applied as at TLS completion.
pub fn build(case: &Case) -> [Ep; 2] {
    let scid_c = ConnectionId::from_slice(&[1, 1, 1, 1, 1, 1, 1, 1]);
    let scid_s = ConnectionId::from_slice(&[2, 2, 2, 2, 2, 2, 2, 2]);
    let odcid = ConnectionId::from_slice(&[9, 9, 9, 9, 9, 9, 9, 9]);
    let mut cp = ClientParameters::default();
    set_params(&mut cp, &case.params[0]);
    cp.set(ParameterId::InitialSourceConnectionId, scid_c).unwrap();
    let mut sp = ServerParameters::default();
    set_params(&mut sp, &case.params[1]);
    sp.set(ParameterId::InitialSourceConnectionId, scid_s).unwrap();
    sp.set(ParameterId::OriginalDestinationConnectionId, odcid).unwrap();

    let mk = |side: Side| -> Ep {
        let wakers = ArcSendWakers::default();
        let rel: Rel = ArcReliableFrameDeque::with_capacity_and_wakers(8, wakers.clone());
        let me = &case.params[side.idx()];
        let peer = &case.params[side.peer().idx()];
        let zr = case.zero_rtt.as_ref().filter(|_| side == Side::Client);
        let (ds, flow, params) = if let Some(z) = zr {
            // as PendingConnection::run builds a resuming client: remembered server parameters everywhere
            let mut rp = ServerParameters::default();
            set_params(&mut rp, &z.remembered);
            let flow = FlowController::new(z.remembered.max_data, me.max_data, rel.clone(), wakers.clone());
            let ds = DataStreams::new(Role::Client, &cp, &rp, strategy(me), rel.clone(), wakers.clone(), None);
            let p = Parameters::new_client(cp.clone(), Some(rp), odcid);
            (ds, flow, ArcParameters::from(p))
        } else if side == Side::Client {
            let flow = FlowController::new(0, me.max_data, rel.clone(), wakers.clone());
            let ds = DataStreams::new(Role::Client, &cp, &ServerParameters::default(), strategy(me), rel.clone(), wakers.clone(), None);
            let mut p = Parameters::new_client(cp.clone(), None, odcid);
            p.recv_remote_params(sp.clone()).expect("legal server parameters");
            p.initial_scid_from_peer_need_equal(scid_s).expect("matching scid");
            ds.revise_params(false, &sp);
            flow.sender.revise_max_data(false, peer.max_data);
            (ds, flow, ArcParameters::from(p))
        } else {
            let flow = FlowController::new(0, me.max_data, rel.clone(), wakers.clone());
            let ds = DataStreams::new(Role::Server, &sp, &ClientParameters::default(), strategy(me), rel.clone(), wakers.clone(), None);
            let mut p = Parameters::new_server(sp.clone());
            p.recv_remote_params(cp.clone()).expect("legal client parameters");
            p.initial_scid_from_peer_need_equal(scid_c).expect("matching scid");
            ds.revise_params(false, &cp);
            flow.sender.revise_max_data(false, peer.max_data);
            (ds, flow, ArcParameters::from(p))
        };
        Ep {
            side,
            role: role_of(side),
            ds,
            flow,
            rel,
            params,
            next_pn: 0,
            sent: BTreeMap::new(),
            ord: 0,
            ack_ord: 0,
            rcvd_pns: BTreeSet::new(),
            ack_pending: false,
            lim_conn: zr.map(|z| z.remembered.max_data).unwrap_or(peer.max_data),
            lim_stream: HashMap::new(),
            lim_streams: zr.map(|z| [z.remembered.streams_bidi, z.remembered.streams_uni]).unwrap_or([peer.streams_bidi, peer.streams_uni]),
            max_off_sent: HashMap::new(),
            adv_conn: me.max_data,
            adv_stream: HashMap::new(),
            adv_streams: [me.streams_bidi, me.streams_uni],
            emitted_vals: BTreeSet::new(),
            failed: None,
            peer_params: zr.map(|z| z.remembered.clone()).unwrap_or_else(|| peer.clone()),
            in_zero_rtt: zr.is_some(),
            gate_openers: zr.is_some_and(|z| !z.accepted),
        }
    };
    [mk(Side::Client), mk(Side::Server)]
}

/// The client's handshake completes (TlsHandshake finished -> `tls_fin_handler` in qconnection::builder): the server's
/// real parameters arrive, 0-RTT is accepted or rejected.
pub fn complete_handshake(ep: &mut Ep, case: &Case, out: &mut Outcome, step: u32) {
    let Some(z) = case.zero_rtt.as_ref() else { return };
    let real = case.params[1].clone();
    let scid_s = ConnectionId::from_slice(&[2, 2, 2, 2, 2, 2, 2, 2]);
    let odcid = ConnectionId::from_slice(&[9, 9, 9, 9, 9, 9, 9, 9]);
    let mut sp = ServerParameters::default();
    set_params(&mut sp, &real);
    sp.set(ParameterId::InitialSourceConnectionId, scid_s).unwrap();
    sp.set(ParameterId::OriginalDestinationConnectionId, odcid).unwrap();
    let rejected = !z.accepted;
    let res = simcore::panics::guarded(|| -> Result<(), QError> {
        {
            let mut g = ep.params.lock_guard()?;
            g.recv_remote_params(sp.clone())?;
            g.initial_scid_from_peer_need_equal(scid_s)?;
        }
        ep.ds.revise_params(rejected, &sp);
        ep.flow.sender.revise_max_data(rejected, real.max_data);
        Ok(())
    });
    match res {
        Err(rec) => out.violate("no-panic", rec.site(), format!("handshake completion with 0-RTT {}: {} at {}", if rejected { "rejected" } else { "accepted" }, rec.message, rec.location), step as u64),
        Ok(Err(e)) => out.violate("unexpected-error", format!("{:?}", e.kind()), format!("handshake completion with 0-RTT {} failed: {e}", if rejected { "rejected" } else { "accepted" }), step as u64),
        Ok(Ok(())) => {}
    }
    out.stats.bump(if rejected { "fault.zero_rtt_rejected" } else { "probe.zero_rtt_accepted" });
    ep.in_zero_rtt = false;
    ep.gate_openers = false;
    ep.peer_params = real.clone();
    if rejected {
        // the server never saw anything the client sent: the limits and the accounting start over
        ep.lim_conn = real.max_data;
        ep.lim_stream.clear();
        ep.lim_streams = [real.streams_bidi, real.streams_uni];
        ep.max_off_sent.clear();
    } else {
        ep.lim_conn = ep.lim_conn.max(real.max_data);
        ep.lim_streams = [ep.lim_streams[0].max(real.streams_bidi), ep.lim_streams[1].max(real.streams_uni)];
    }
}

impl Ep {
    /// the limit the peer's parameters give stream `sid` for data sent by this endpoint
    fn initial_stream_limit(&self, sid: StreamId, peer: &Params) -> u64 {
        let local = sid.role() == self.role;
        match (sid.dir(), local) {
            (Dir::Uni, _) => peer.stream_uni,
            (Dir::Bi, true) => peer.stream_bidi_remote,
            (Dir::Bi, false) => peer.stream_bidi_local,
        }
    }

    /// what this endpoint advertised for data the peer sends on `sid`
    pub fn advertised_stream_limit(&self, sid: StreamId, me: &Params) -> u64 {
        let initial = match (sid.dir(), sid.role() == self.role) {
            (Dir::Uni, _) => me.stream_uni,
            (Dir::Bi, true) => me.stream_bidi_local,
            (Dir::Bi, false) => me.stream_bidi_remote,
        };
        self.adv_stream.get(&sid_key(sid)).copied().unwrap_or(0).max(initial)
    }

    /// Assemble one packet of at most `cap` bytes, mirroring `Components::packages()` for the 1-RTT space.
    fn assemble(&mut self, cap: usize, out: &mut Outcome, case: &Case, step: u32) -> Option<(u64, Bytes, u32)> {
        let mut pkt = Pkt::new(cap);
        let _ = self.rel.try_load_frames_into(&mut pkt);
        let _ = self.ds.try_load_data_into(&mut pkt, &self.flow.sender, false);
        if pkt.buf.is_empty() {
            return None;
        }
        let _ = case;
        let peer = self.peer_params.clone();
        let peer = &peer;
        for r in &pkt.recs {
            match r {
                Rec::Stream(f) => {
                    let k = sid_key(f.stream_id());
                    let end = f.offset() + f.len() as u64;
                    let lim = self.lim_stream.get(&k).copied().unwrap_or(0).max(self.initial_stream_limit(f.stream_id(), peer));
                    if end > lim {
                        let kind = format!("{}-{}", if f.stream_id().dir() == Dir::Bi { "bidi" } else { "uni" }, if f.stream_id().role() == self.role { "local" } else { "remote" });
                        out.violate("stream-limit-exceeded", kind, format!("{:?} sent STREAM {:?} [{}..{}) beyond the peer's limit {lim} for that stream", self.side, f.stream_id(), f.offset(), end), step as u64);
                    }
                    let e = self.max_off_sent.entry(k).or_insert(0);
                    *e = (*e).max(end);
                    let total: u64 = self.max_off_sent.values().sum();
                    if total > self.lim_conn {
                        out.violate("conn-limit-exceeded", "", format!("{:?}: sum of highest offsets sent {total} exceeds the peer's connection limit {} delivered so far", self.side, self.lim_conn), step as u64);
                    }
                }
                Rec::Ctl(ReliableFrame::MaxData(f)) => self.note_adv(0, 0, f.max_data(), out, step),
                Rec::Ctl(ReliableFrame::StreamCtl(StreamCtlFrame::MaxStreamData(f))) => self.note_adv(1, sid_key(f.stream_id()), f.max_stream_data(), out, step),
                Rec::Ctl(ReliableFrame::StreamCtl(StreamCtlFrame::MaxStreams(f))) => {
                    let (d, v) = match f {
                        qbase::frame::MaxStreamsFrame::Bi(v) => (0u64, v.into_u64()),
                        qbase::frame::MaxStreamsFrame::Uni(v) => (1u64, v.into_u64()),
                    };
                    self.note_adv(2, d, v, out, step)
                }
                _ => {}
            }
        }
        let pn = self.next_pn;
        self.next_pn += 1;
        let ord = self.ord;
        self.ord += 1;
        trace!("T{step} {:?} SEND pn={pn} ord={ord} len={} recs={:?}", self.side, pkt.buf.len(), pkt.recs);
        self.sent.insert(pn, SentPkt { recs: pkt.recs, state: PState::Flight, at: step, ord });
        Some((pn, pkt.buf.freeze(), ord))
    }

    /// Put everything that is queued on the wire so that `adv_*` reflects every limit this endpoint has decided
    /// to advertise (used before a forged frame is judged against them).
    pub fn flush_advertisements(&mut self, out: &mut Outcome, case: &Case, step: u32) {
        for _ in 0..64 {
            if self.assemble(1452, out, case, step).is_none() {
                break;
            }
        }
    }

    /// limits an endpoint advertises never decrease (a re-sent older frame is not a decrease)
    fn note_adv(&mut self, kind: u8, key: u64, val: u64, out: &mut Outcome, step: u32) {
        let fresh = self.emitted_vals.insert((kind, key, val));
        let cur = match kind {
            0 => &mut self.adv_conn,
            1 => self.adv_stream.entry(key).or_insert(0),
            _ => &mut self.adv_streams[key as usize],
        };
        if fresh && val < *cur {
            out.violate("advertised-decreased", ["max_data", "max_stream_data", "max_streams"][kind as usize], format!("{:?} advertised {val} after {}", self.side, *cur), step as u64);
        }
        *cur = (*cur).max(val);
    }

    /// Deliver one packet's frames as space/data.rs + FlowControlledDataStreams do.
    pub fn receive(&mut self, payload: Bytes) -> Result<(), QError> {
        for item in FrameReader::new(payload, Type::Short(OneRtt(0.into()))) {
            let (frame, ty) = item.map_err(|e| QError::Quic(e.into()))?;
            match frame {
                Frame::Stream(f, data) => {
                    let n = self.ds.recv_data((f, data)).map_err(QError::Quic)?;
                    self.flow.on_new_rcvd(ty, n)?;
                }
                Frame::StreamCtl(f) => {
                    match &f {
                        StreamCtlFrame::MaxStreamData(m) => {
                            let e = self.lim_stream.entry(sid_key(m.stream_id())).or_insert(0);
                            *e = (*e).max(m.max_stream_data());
                        }
                        StreamCtlFrame::MaxStreams(m) => {
                            let (d, v) = match m {
                                qbase::frame::MaxStreamsFrame::Bi(v) => (0usize, v.into_u64()),
                                qbase::frame::MaxStreamsFrame::Uni(v) => (1usize, v.into_u64()),
                            };
                            self.lim_streams[d] = self.lim_streams[d].max(v);
                        }
                        _ => {}
                    }
                    let n = self.ds.recv_stream_control(f).map_err(QError::Quic)?;
                    self.flow.on_new_rcvd(ty, n)?;
                }
                Frame::MaxData(f) => {
                    self.lim_conn = self.lim_conn.max(f.max_data());
                    self.flow.sender.recv_frame(f)?;
                }
                Frame::DataBlocked(f) => {
                    self.flow.recver.recv_frame(f)?;
                }
                _ => {}
            }
        }
        Ok(())
    }

    fn on_acked(&mut self, pn: u64) {
        let Some(p) = self.sent.get_mut(&pn) else { return };
        if p.state == PState::Acked {
            return;
        }
        p.state = PState::Acked;
        for r in p.recs.clone() {
            match r {
                Rec::Stream(f) => self.ds.on_data_acked(f),
                Rec::Ctl(ReliableFrame::StreamCtl(StreamCtlFrame::ResetStream(f))) => self.ds.on_reset_acked(f),
                _ => {}
            }
        }
    }

    fn on_lost(&mut self, pn: u64) {
        let Some(p) = self.sent.get_mut(&pn) else { return };
        if p.state != PState::Flight {
            return;
        }
        p.state = PState::Lost;
        for r in p.recs.clone() {
            match r {
                Rec::Stream(f) => self.ds.may_loss_data(&f),
                Rec::Ctl(f) => self.rel.send_frame([f]),
                Rec::Other => {}
            }
        }
    }

    pub fn fail(&mut self, e: &QError) {
        self.failed = Some(format!("{e}"));
        self.ds.on_conn_error(e);
        self.flow.on_conn_error(e);
        self.params.on_conn_error(e);
    }
}

#[derive(Clone)]
struct Flying {
    at: u32,
    seq: u64,
    to: Side,
    pn: u64,
    payload: Option<Bytes>,
    acks: Option<BTreeSet<u64>>,
}

enum Act {
    Opener { side: Side, todo: Vec<usize>, task: Task },
    Acceptor { side: Side, bidi: bool, left: usize, task: Task },
    Writer { name: String, spec: usize, w: Wr, key: u64, size: u64, chunk: u32, pos: u64, shutdown: bool, reset_after: Option<u32>, done: bool, task: Task, tolerate_err: bool },
    Reader { name: String, r: Rd, key: u64, size: u64, buf: u32, pos: u64, done: bool, task: Task, may_reset: bool, stop_after: Option<u32>, expect_eof: bool },
}

impl Act {
    fn done(&self) -> bool {
        match self {
            Act::Opener { todo, .. } => todo.is_empty(),
            Act::Acceptor { left, .. } => *left == 0,
            Act::Writer { done, .. } | Act::Reader { done, .. } => *done,
        }
    }
    fn task(&mut self) -> &mut Task {
        match self {
            Act::Opener { task, .. } | Act::Acceptor { task, .. } | Act::Writer { task, .. } | Act::Reader { task, .. } => task,
        }
    }
    fn name(&self) -> String {
        match self {
            Act::Opener { side, .. } => format!("{side:?}.opener"),
            Act::Acceptor { side, bidi, .. } => format!("{side:?}.accept_{}", if *bidi { "bi" } else { "uni" }),
            Act::Writer { name, .. } | Act::Reader { name, .. } => name.clone(),
        }
    }
}

fn stream_key(sid: StreamId, resp: bool) -> u64 {
    (sid_key(sid) << 1) | resp as u64
}

fn spec_for(case: &Case, sid: StreamId) -> Option<(usize, StreamSpec)> {
    let opener = if sid.role() == Role::Client { Side::Client } else { Side::Server };
    let bidi = sid.dir() == Dir::Bi;
    case.streams.iter().enumerate().filter(|(_, s)| s.opener == opener && s.bidi == bidi).nth(sid.id() as usize).map(|(i, s)| (i, s.clone()))
}

pub fn run(case: &Case, mode: Mode) -> Outcome {
    let mut out = Outcome::default();
    let mut th = TraceHash::default();
    let mut eps = build(case);
    let mut sched = Rng::derive(case.seed, "sched");
    let mut capr = Rng::derive(case.seed, "caps");
    let mut chan: Vec<Flying> = Vec::new();
    let mut seq = 0u64;
    let mut acts: Vec<Act> = Vec::new();
    let mut accepted: [Vec<u64>; 2] = [Vec::new(), Vec::new()];
    let mut progress = 0u64;
    let mut faults = 0u64;
    let mut byz_done = case.byz.is_none();
    let mut ended_by_byz = false;

    for side in [Side::Client, Side::Server] {
        let todo: Vec<usize> = case.streams.iter().enumerate().filter(|(_, s)| s.opener == side).map(|(i, _)| i).collect();
        acts.push(Act::Opener { side, todo, task: Task::new() });
        for bidi in [true, false] {
            let left = case.streams.iter().filter(|s| s.opener != side && s.bidi == bidi).count();
            if left > 0 || mode == Mode::C12 {
                acts.push(Act::Acceptor { side, bidi, left: if mode == Mode::C12 { left.max(1) + 64 } else { left }, task: Task::new() });
            }
        }
    }
    let mut polled_once: Vec<bool> = vec![false; acts.len()];
    // true while the actor's last poll returned Pending (it sleeps until its waker is invoked)
    let mut asleep: Vec<bool> = vec![false; acts.len()];
    let last_fault_ord = [case.tape.data[0].keys().next_back().copied().unwrap_or(0), case.tape.data[1].keys().next_back().copied().unwrap_or(0)];
    let mut idle_steps = 0u32;
    let mut step = 0u32;

    'outer: while step < case.max_steps {
        step += 1;
        let mut did = false;
        // 0. a resumed connection: the client's handshake completes at the drawn step
        if let Some(z) = &case.zero_rtt {
            if eps[0].in_zero_rtt && step >= z.fin_at {
                complete_handshake(&mut eps[0], case, &mut out, step);
                if !z.accepted {
                    faults += 1;
                }
                for a in asleep.iter_mut() {
                    *a = false;
                }
                did = true;
                if out.failed() {
                    break 'outer;
                }
            }
        }
        // 1. deliveries due now
        chan.sort_by_key(|f| (f.at, f.seq));
        // (1-RTT packets cannot be read by a client whose handshake has not completed: they wait)
        let client_waits = eps[0].in_zero_rtt;
        while let Some(pos) = chan.iter().position(|f| f.at <= step && !(client_waits && f.to == Side::Client)) {
            let f = chan.remove(pos);
            did = true;
            let ep = &mut eps[f.to.idx()];
            if ep.failed.is_some() {
                continue;
            }
            if let Some(payload) = f.payload {
                if !ep.rcvd_pns.insert(f.pn) {
                    out.stats.bump("probe.duplicate_packet_dropped_by_pn");
                    continue;
                }
                ep.ack_pending = true;
                trace!("T{step} {:?} RECV pn={}", f.to, f.pn);
                th.add(1 << 56 | (f.to.idx() as u64) << 48 | f.pn);
                match simcore::panics::guarded(|| ep.receive(payload)) {
                    Ok(Ok(())) => progress += 1,
                    Ok(Err(e)) => {
                        // two real endpoints talking over a channel that cannot forge frames: neither may
                        // ever conclude that the other broke the protocol
                        out.violate("unexpected-error", format!("{:?}", e.kind()), format!("{:?} rejected a frame its peer really sent: {e}", f.to), step as u64);
                        let e2 = e.clone();
                        eps[0].fail(&e2);
                        eps[1].fail(&e2);
                    }
                    Err(rec) => {
                        out.violate("no-panic", rec.site(), format!("{} at {}", rec.message, rec.location), step as u64);
                        break 'outer;
                    }
                }
            } else if let Some(acks) = f.acks {
                trace!("T{step} {:?} ACKED {:?}", f.to, acks);
                for pn in acks {
                    ep.on_acked(pn);
                }
                th.add(2 << 56 | (f.to.idx() as u64) << 48);
            }
        }
        // 2. the forged frame
        if !byz_done && case.byz.as_ref().is_some_and(|b| b.at_step <= step) {
            byz_done = true;
            let b = case.byz.as_ref().unwrap();
            let verdict = byz::apply(b, &mut eps, case, &accepted, &mut out, step);
            if verdict {
                ended_by_byz = true;
                break 'outer;
            }
        }
        // 3. one scheduled action
        let n_actor_slots = acts.len() as u64;
        let choice = sched.below(n_actor_slots + 8);
        if choice < n_actor_slots {
            let i = choice as usize;
            let runnable = !acts[i].done() && (!polled_once[i] || !asleep[i] || acts[i].task().is_woken() || sched.one_in(16));
            if runnable {
                let spurious = polled_once[i] && asleep[i] && !acts[i].task().is_woken();
                if spurious {
                    out.stats.bump("fault.spurious_poll");
                }
                polled_once[i] = true;
                acts[i].task().take_woken();
                let mut spawned: Vec<Act> = Vec::new();
                // an application task keeps going until it blocks or has run a drawn number of operations
                let burst = 1 + sched.below(24);
                let mut moved = false;
                for _ in 0..burst {
                    let m = step_actor(&mut acts[i], &mut eps, case, mode, &mut out, &mut spawned, &mut accepted, step, &mut th);
                    moved |= m;
                    asleep[i] = !m;
                    if !m || acts[i].done() {
                        break;
                    }
                }
                if moved {
                    trace!("T{step} ACT {} moved done={}", acts[i].name(), acts[i].done());
                }
                // A task whose last poll returned Pending and whose waker has not been invoked since makes progress when
                // it is polled for no reason: the condition it waits for was satisfied without a wake-up. Without this
                // the occasional spurious poll would hide every lost wake-up from the audit at the end of the run.
                if moved && spurious && mode == Mode::C01 {
                    out.violate("liveness-delivery", "lost-wakeup", format!("{} was asleep (last poll Pending, waker not invoked since) and yet made progress when polled spuriously at step {step}", acts[i].name()), step as u64);
                }
                did |= moved;
                if moved {
                    progress += 1;
                }
                for s in spawned {
                    acts.push(s);
                    polled_once.push(false);
                    asleep.push(false);
                }
            }
        } else {
            let which = choice - n_actor_slots;
            let side = if which % 2 == 0 { Side::Client } else { Side::Server };
            let ep = &mut eps[side.idx()];
            if ep.failed.is_none() {
                match which / 2 {
                    // send opportunity
                    0 | 1 => {
                        let cap = *capr.pick(&case.capacities) as usize;
                        if let Some((pn, bytes, ord)) = ep.assemble(cap, &mut out, case, step) {
                            did = true;
                            th.add(3 << 56 | (side.idx() as u64) << 48 | pn << 16 | bytes.len() as u64);
                            let mut fate = case.tape.data[side.idx()].get(&ord).copied().unwrap_or(Fate::Pass);
                            if ep.in_zero_rtt && case.zero_rtt.as_ref().is_some_and(|z| !z.accepted) {
                                // the server is going to reject 0-RTT: it discards every 0-RTT packet
                                out.stats.bump("fault.zero_rtt_packet_discarded_by_server");
                                fate = Fate::Drop;
                            } else if ep.in_zero_rtt {
                                out.stats.bump("probe.zero_rtt_packet_sent");
                            }
                            let mut put = |at: u32| {
                                seq += 1;
                                chan.push(Flying { at, seq, to: side.peer(), pn, payload: Some(bytes.clone()), acks: None });
                            };
                            let base = step + case.base_delay as u32;
                            match fate {
                                Fate::Pass => put(base),
                                Fate::Drop => {
                                    out.stats.bump("fault.packet_drop");
                                    faults += 1;
                                }
                                Fate::Dup { copies, gap } => {
                                    out.stats.bump("fault.packet_duplicate");
                                    faults += 1;
                                    put(base);
                                    for c in 1..=copies as u32 {
                                        put(base + c * gap as u32);
                                    }
                                }
                                Fate::Delay { steps } => {
                                    out.stats.bump("fault.packet_delay_reorder");
                                    faults += 1;
                                    put(base + steps as u32);
                                }
                            }
                        }
                    }
                    // ack opportunity
                    2 => {
                        if ep.ack_pending {
                            ep.ack_pending = false;
                            did = true;
                            let set = ep.rcvd_pns.clone();
                            let ord = ep.ack_ord;
                            ep.ack_ord += 1;
                            let fate = case.tape.acks[side.idx()].get(&ord).copied().unwrap_or(Fate::Pass);
                            let mut put = |at: u32| {
                                seq += 1;
                                chan.push(Flying { at, seq, to: side.peer(), pn: 0, payload: None, acks: Some(set.clone()) });
                            };
                            let base = step + case.base_delay as u32;
                            match fate {
                                Fate::Pass => put(base),
                                Fate::Drop => {
                                    out.stats.bump("fault.ack_drop");
                                    faults += 1;
                                    // the receiver will acknowledge again with its next ack
                                    ep.ack_pending = true;
                                }
                                Fate::Dup { copies, gap } => {
                                    out.stats.bump("fault.ack_duplicate");
                                    faults += 1;
                                    put(base);
                                    for c in 1..=copies as u32 {
                                        put(base + c * gap as u32);
                                    }
                                }
                                Fate::Delay { steps } => {
                                    out.stats.bump("fault.ack_delay");
                                    faults += 1;
                                    put(base + steps as u32);
                                }
                            }
                        }
                    }
                    // loss detection
                    _ => {
                        let spur = &case.tape.spurious_loss[side.idx()];
                        let lost: Vec<(u64, bool)> = ep
                            .sent
                            .iter()
                            .filter(|(_, p)| p.state == PState::Flight)
                            .filter_map(|(pn, p)| {
                                if step.saturating_sub(p.at) > case.loss_after as u32 {
                                    Some((*pn, false))
                                } else if spur.contains(&p.ord) && step > p.at + 1 {
                                    Some((*pn, true))
                                } else {
                                    None
                                }
                            })
                            .collect();
                        for (pn, spurious) in lost {
                            did = true;
                            if spurious {
                                out.stats.bump("fault.spurious_loss_report");
                                faults += 1;
                            } else {
                                out.stats.bump("probe.loss_declared");
                            }
                            trace!("T{step} {:?} LOST pn={pn} spurious={spurious}", side);
                            ep.on_lost(pn);
                        }
                    }
                }
            }
        }
        if out.failed() && out.violations.iter().any(|v| v.clause == "no-panic") {
            break;
        }
        // quiescence: nothing moved for long enough that every timer of the simulation has run out
        if did {
            idle_steps = 0;
        } else {
            idle_steps += 1;
            let settle = (case.loss_after as u32 + case.base_delay as u32 + 300) * 12;
            if idle_steps > settle && chan.is_empty() {
                break;
            }
        }
        if acts.iter().all(|a| a.done()) && chan.is_empty() && eps.iter().all(|e| e.sent.values().all(|p| p.state != PState::Flight)) {
            break;
        }
    }

    // liveness: bounded tapes only (every tape here is finite), no forged frame, no failure
    if !ended_by_byz && case.byz.is_none() && eps.iter().all(|e| e.failed.is_none()) && !out.failed() && mode == Mode::C01 {
        let _ = last_fault_ord;
        for (ai, a) in acts.iter_mut().enumerate() {
            if a.done() {
                continue;
            }
            let name = a.name();
            // audit poll: asleep on a satisfied condition?
            let woken = a.task().is_woken() || !asleep[ai];
            let mut spawned = Vec::new();
            let moved = step_actor(a, &mut eps, case, mode, &mut out, &mut spawned, &mut accepted, step, &mut th);
            if moved && !woken {
                out.violate("liveness-delivery", "lost-wakeup", format!("{name} was asleep without having been woken although its operation could make progress"), step as u64);
            } else if !a.done() {
                let clause = if name.contains(".w") { "liveness-flush-shutdown" } else { "liveness-delivery" };
                out.violate(clause, name.split('.').nth(1).unwrap_or("op").trim_end_matches(char::is_numeric).to_string(), format!("{name} still pending at step {step} although every fault of the tape is past (quiescent {})", chan.is_empty()), step as u64);
            }
        }
    }
    if acts.iter().all(|a| a.done()) {
        out.stats.bump("probe.workload_completed");
    }
    out.trace_hash = th.get();
    out.nontrivial = faults > 0 && progress > 2;
    out
}

/// One poll of one application actor. Returns true if it made progress.
#[allow(clippy::too_many_arguments)]
fn step_actor(a: &mut Act, eps: &mut [Ep; 2], case: &Case, mode: Mode, out: &mut Outcome, spawned: &mut Vec<Act>, accepted: &mut [Vec<u64>; 2], step: u32, th: &mut TraceHash) -> bool {
    let seed = case.seed;
    match a {
        Act::Opener { side, todo, task } => {
            if eps[side.idx()].gate_openers {
                return false;
            }
            let Some(&i) = todo.first() else { return false };
            let spec = case.streams[i].clone();
            let ep = &mut eps[side.idx()];
            let tag = format!("{side:?}");
            if spec.bidi {
                let mut fut = ep.ds.open_bi(&ep.params);
                match task.poll_pin(Pin::new(&mut fut)) {
                    Poll::Pending => false,
                    Poll::Ready(Ok(Some((sid, (r, w))))) => {
                        todo.remove(0);
                        check_open(ep, sid, out, step);
                        trace!("T{step} {tag} OPENED spec {i} as {sid:?}");
                        th.add(4 << 56 | sid_key(sid));
                        spawned.push(Act::Writer { name: format!("{tag}.w{i}"), spec: i, w, key: stream_key(sid, false), size: spec.size as u64, chunk: spec.chunk, pos: 0, shutdown: spec.shutdown, reset_after: spec.reset_after, done: false, task: Task::new(), tolerate_err: spec.stop_after.is_some() });
                        spawned.push(Act::Reader { name: format!("{tag}.r{i}"), r, key: stream_key(sid, true), size: spec.resp_size as u64, buf: spec.read_buf, pos: 0, done: false, task: Task::new(), may_reset: false, stop_after: None, expect_eof: true });
                        true
                    }
                    Poll::Ready(Ok(None)) => {
                        todo.clear();
                        true
                    }
                    Poll::Ready(Err(_)) => {
                        todo.clear();
                        true
                    }
                }
            } else {
                let mut fut = ep.ds.open_uni(&ep.params);
                match task.poll_pin(Pin::new(&mut fut)) {
                    Poll::Pending => false,
                    Poll::Ready(Ok(Some((sid, w)))) => {
                        todo.remove(0);
                        check_open(ep, sid, out, step);
                        th.add(4 << 56 | sid_key(sid));
                        spawned.push(Act::Writer { name: format!("{tag}.w{i}"), spec: i, w, key: stream_key(sid, false), size: spec.size as u64, chunk: spec.chunk, pos: 0, shutdown: spec.shutdown, reset_after: spec.reset_after, done: false, task: Task::new(), tolerate_err: spec.stop_after.is_some() });
                        true
                    }
                    Poll::Ready(_) => {
                        todo.clear();
                        true
                    }
                }
            }
        }
        Act::Acceptor { side, bidi, left, task } => {
            let ep = &mut eps[side.idx()];
            let tag = format!("{side:?}");
            let res: Poll<Result<(StreamId, Option<Rd>, Option<Wr>), QError>> = if *bidi {
                let mut fut = ep.ds.accept_bi(&ep.params);
                match task.poll_pin(Pin::new(&mut fut)) {
                    Poll::Pending => Poll::Pending,
                    Poll::Ready(Ok((sid, (r, w)))) => Poll::Ready(Ok((sid, Some(r), Some(w)))),
                    Poll::Ready(Err(e)) => Poll::Ready(Err(e)),
                }
            } else {
                let mut fut = ep.ds.accept_uni();
                match task.poll_pin(Pin::new(&mut fut)) {
                    Poll::Pending => Poll::Pending,
                    Poll::Ready(Ok((sid, r))) => Poll::Ready(Ok((sid, Some(r), None))),
                    Poll::Ready(Err(e)) => Poll::Ready(Err(e)),
                }
            };
            match res {
                Poll::Pending => false,
                Poll::Ready(Err(_)) => {
                    *left = 0;
                    true
                }
                Poll::Ready(Ok((sid, r, w))) => {
                    *left -= 1;
                    th.add(5 << 56 | sid_key(sid));
                    // C12: each peer stream is offered exactly once, in order, lower indices first
                    let k = sid_key(sid);
                    let list = &mut accepted[side.idx()];
                    if list.contains(&k) {
                        out.violate("accept-once", "twice", format!("{side:?}: stream {sid:?} yielded twice by accept"), step as u64);
                    }
                    let expected_idx = list.iter().filter(|x| (**x & 3) == (k & 3)).count() as u64;
                    if sid.id() != expected_idx {
                        out.violate("implicit-open", "order", format!("{side:?}: accept yielded index {} of its kind, expected index {expected_idx} (every lower stream first, each once)", sid.id()), step as u64);
                    }
                    if sid.role() == ep.role {
                        out.violate("accept-once", "own-stream", format!("{side:?}: accept yielded a locally initiated stream {sid:?}"), step as u64);
                    }
                    list.push(k);
                    match spec_for(case, sid) {
                        Some((i, spec)) => {
                            if let Some(r) = r {
                                spawned.push(Act::Reader { name: format!("{tag}.r{i}"), r, key: stream_key(sid, false), size: spec.size as u64, buf: spec.read_buf, pos: 0, done: false, task: Task::new(), may_reset: spec.reset_after.is_some(), stop_after: spec.stop_after, expect_eof: spec.shutdown });
                            }
                            if let Some(w) = w {
                                spawned.push(Act::Writer { name: format!("{tag}.w{i}"), spec: i, w, key: stream_key(sid, true), size: spec.resp_size as u64, chunk: spec.resp_chunk, pos: 0, shutdown: true, reset_after: None, done: false, task: Task::new(), tolerate_err: false });
                            }
                        }
                        None => {
                            if mode != Mode::C12 {
                                out.violate("prefix-integrity", "unknown-stream", format!("{side:?}: accepted stream {sid:?} the peer application never opened"), step as u64);
                            }
                        }
                    }
                    true
                }
            }
        }
        Act::Writer { name, w, key, size, chunk, pos, shutdown, reset_after, done, task, tolerate_err, .. } => {
            if let Some(r) = *reset_after {
                if *pos >= r as u64 {
                    w.cancel(7);
                    *done = true;
                    out.stats.bump("probe.stream_reset_by_writer");
                    return true;
                }
            }
            if *pos < *size {
                let n = (*chunk as u64).min(*size - *pos) as usize;
                let buf: Vec<u8> = (0..n as u64).map(|k| prf(seed, *key, *pos + k)).collect();
                match task.with_cx(|cx| Pin::new(&mut *w).poll_write(cx, &buf)) {
                    Poll::Pending => {
                        out.stats.bump("probe.writer_blocked");
                        false
                    }
                    Poll::Ready(Ok(m)) => {
                        if m == 0 || m > n {
                            out.violate("write-accounting", "", format!("{name}: poll_write of {n} bytes reported {m} accepted"), step as u64);
                            *done = true;
                        }
                        *pos += m as u64;
                        true
                    }
                    Poll::Ready(Err(e)) => {
                        if !*tolerate_err && eps_ok(e.to_string()) {
                            out.violate("liveness-flush-shutdown", "write-error", format!("{name}: write failed at {pos}: {e}"), step as u64);
                        }
                        *done = true;
                        true
                    }
                }
            } else if *shutdown {
                match task.with_cx(|cx| Pin::new(&mut *w).poll_shutdown(cx)) {
                    Poll::Pending => false,
                    Poll::Ready(Ok(())) => {
                        *done = true;
                        true
                    }
                    Poll::Ready(Err(e)) => {
                        if !*tolerate_err && eps_ok(e.to_string()) {
                            out.violate("liveness-flush-shutdown", "shutdown-error", format!("{name}: shutdown failed: {e}"), step as u64);
                        }
                        *done = true;
                        true
                    }
                }
            } else {
                match task.with_cx(|cx| Pin::new(&mut *w).poll_flush(cx)) {
                    Poll::Pending => false,
                    Poll::Ready(_) => {
                        *done = true;
                        true
                    }
                }
            }
        }
        Act::Reader { name, r, key, size, buf, pos, done, task, may_reset, stop_after, expect_eof } => {
            if let Some(s) = *stop_after {
                if *pos >= s as u64 {
                    r.stop(9);
                    *done = true;
                    out.stats.bump("probe.stop_sending_by_reader");
                    return true;
                }
            }
            if !*expect_eof && *pos == *size {
                // the writer never finishes this stream: everything it wrote has been read
                *done = true;
                return true;
            }
            let mut store = vec![0u8; (*buf).max(1) as usize];
            let mut rb = ReadBuf::new(&mut store);
            match task.with_cx(|cx| Pin::new(&mut *r).poll_read(cx, &mut rb)) {
                Poll::Pending => {
                    trace!("T{step} {name} read pending at {pos}");
                    false
                }
                Poll::Ready(Ok(())) => {
                    let got = rb.filled();
                    trace!("T{step} {name} read {} bytes at {pos}", got.len());
                    if got.is_empty() {
                        if *pos != *size || !*expect_eof {
                            out.violate("eof-only-at-final-size", "", format!("{name}: end of stream after {pos} bytes, the writer {} {size} bytes", if *expect_eof { "finished at" } else { "never finished; wrote" }), step as u64);
                        }
                        out.stats.bump("probe.reader_eof");
                        *done = true;
                        return true;
                    }
                    for (i, b) in got.iter().enumerate() {
                        let p = *pos + i as u64;
                        if p >= *size || *b != prf(seed, *key, p) {
                            let clause = if *may_reset { "reset-never-foreign-bytes" } else { "prefix-integrity" };
                            out.violate(clause, "", format!("{name}: byte {p} read as {b:#04x}, written {:?} (stream size {size})", (p < *size).then(|| prf(seed, *key, p))), step as u64);
                            *done = true;
                            return true;
                        }
                    }
                    *pos += got.len() as u64;
                    true
                }
                Poll::Ready(Err(e)) => {
                    if !*may_reset && eps_ok(e.to_string()) {
                        out.violate("liveness-delivery", "read-error", format!("{name}: read failed at {pos}: {e}"), step as u64);
                    } else {
                        out.stats.bump("probe.reader_saw_reset");
                    }
                    *done = true;
                    true
                }
            }
        }
    }
}

/// errors caused by the connection having been failed by another verdict are not verdicts themselves
fn eps_ok(msg: String) -> bool {
    !msg.contains("rejected") && !msg.is_empty()
}

/// C12: a local open never returns an index the peer's current (delivered) limit does not allow
fn check_open(ep: &Ep, sid: StreamId, out: &mut Outcome, step: u32) {
    let d = sid.dir() as usize;
    if sid.id() >= ep.lim_streams[d] {
        out.violate("open-beyond-limit", if d == 0 { "bidi" } else { "uni" }, format!("{:?} opened stream index {} although the peer's delivered limit is {}", ep.side, sid.id(), ep.lim_streams[d]), step as u64);
    }
    if sid.role() != ep.role {
        out.violate("open-beyond-limit", "role", format!("{:?} opened a stream id of the peer's role: {sid:?}", ep.side), step as u64);
    }
}
