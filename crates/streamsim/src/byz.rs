//! Forged but well-formed frames delivered to one endpoint after a legitimate history (C11 receiver clause,
//! C12). Legality is judged against what the *target* endpoint has advertised (emitted), per RFC 9000
//! §2.1, §3, §4.1, §4.5, §4.6, §19.4–19.11.
use bytes::Bytes;
use qbase::{
    error::ErrorKind,
    frame::{MaxStreamDataFrame, ResetStreamFrame, StopSendingFrame, StreamCtlFrame, StreamDataBlockedFrame, StreamFrame},
    role::Role,
    sid::{Dir, StreamId},
    varint::VarInt,
};
use serde::{Deserialize, Serialize};
use simcore::{Outcome, Rng};

use crate::{Case, Mode, Side, endpoint::{Ep, sid_key}};

#[derive(Clone, Debug, Serialize, Deserialize)]
pub enum Forged {
    /// STREAM on a peer-initiated stream whose index is `over` beyond the advertised count
    StreamBeyondLimit { bidi: bool, over: u64, len: u16 },
    /// STREAM on a send-only stream of the target (a uni stream the target itself initiates)
    StreamOnOwnUni { idx: u64 },
    /// RESET_STREAM for a send-only stream of the target
    ResetOnOwnUni { idx: u64 },
    /// STOP_SENDING / MAX_STREAM_DATA for a receive-only stream of the target (peer-initiated uni)
    StopOnPeerUni { idx: u64, max_stream_data: bool },
    /// frame for a target-initiated stream the target has not opened yet
    FrameOnUnopenedLocal { bidi: bool, ahead: u64, which: u8 },
    /// STREAM one byte beyond the advertised stream window on a fresh peer-initiated stream
    StreamBeyondStreamWindow { bidi: bool },
    /// STREAM beyond the advertised connection window
    StreamBeyondConnWindow { bidi: bool },
    /// data after FIN / FIN below data / second FIN elsewhere / RESET with another size, on a fresh stream
    FinalSize { bidi: bool, case: u8 },
    /// the first frame ever seen on a fresh peer-initiated stream is not a STREAM frame but STREAM_DATA_BLOCKED (0),
    /// RESET_STREAM (1), STOP_SENDING (2) or MAX_STREAM_DATA (3) — the STREAM packet was lost or reordered.
    /// `beyond`: the stream index is at/over the advertised count (must be STREAM_LIMIT_ERROR); otherwise the frame
    /// is legal, opens the stream and every lower-numbered one, and each is offered by accept exactly once, in order
    CtlOnFresh { bidi: bool, kind: u8, beyond: bool },
    /// a final size (lone FIN when `reset` is false, RESET_STREAM otherwise) one byte beyond the advertised stream
    /// window (`conn` false) or beyond the advertised connection window (`conn` true) on a fresh peer-initiated stream
    FinalSizeBeyondWindow { bidi: bool, reset: bool, conn: bool },
    /// RESET_STREAM with a final size of half the connection window (+1) on one fresh stream, then a STREAM frame
    /// ending at half the connection window (+1) on another: each is within its limits, together they exceed the
    /// connection window (the credit a reset stream consumed must stay charged)
    ResetThenStream { bidi: bool },
}

#[derive(Clone, Debug, Serialize, Deserialize)]
pub struct Byz {
    pub at_step: u32,
    pub target: Side,
    pub forged: Forged,
}

pub fn generate(r: &mut Rng, mode: Mode, _case: &Case) -> Byz {
    let at_step = *r.pick(&[1u32, 5, 50, 400, 3000]);
    let target = if r.one_in(2) { Side::Client } else { Side::Server };
    let bidi = r.one_in(2);
    let forged = if mode == Mode::C11 {
        match r.below(8) {
            0 | 1 => Forged::StreamBeyondStreamWindow { bidi },
            2 | 3 => Forged::StreamBeyondConnWindow { bidi },
            4 | 5 | 6 => Forged::FinalSizeBeyondWindow { bidi, reset: r.one_in(2), conn: r.one_in(2) },
            _ => Forged::ResetThenStream { bidi },
        }
    } else {
        match r.below(9) {
            7 | 8 => Forged::CtlOnFresh { bidi, kind: if bidi { r.below(4) as u8 } else { r.below(2) as u8 }, beyond: r.one_in(2) },
            0 => Forged::StreamBeyondLimit { bidi, over: *r.pick(&[0u64, 1, 5, 1000, 1 << 40]), len: r.below(50) as u16 },
            1 => Forged::StreamOnOwnUni { idx: r.below(4) },
            2 => Forged::ResetOnOwnUni { idx: r.below(4) },
            3 => Forged::StopOnPeerUni { idx: r.below(3), max_stream_data: r.one_in(2) },
            4 => Forged::FrameOnUnopenedLocal { bidi, ahead: r.below(3), which: r.below(3) as u8 },
            _ => Forged::FinalSize { bidi, case: r.below(4) as u8 },
        }
    };
    Byz { at_step, target, forged }
}

fn peer_role(ep: &Ep) -> Role {
    if ep.role == Role::Client { Role::Server } else { Role::Client }
}

fn expect(out: &mut Outcome, step: u32, what: &str, site: &str, res: Result<(), qbase::error::Error>, want: &[ErrorKind], clause: &str) {
    match res {
        Ok(()) => out.violate(clause, site.to_string(), format!("{what}: accepted"), step as u64),
        Err(e) => {
            if !want.contains(&e.kind()) {
                out.violate("error-kind", site.to_string(), format!("{what}: answered with {:?}, RFC 9000 prescribes {want:?}", e.kind()), step as u64);
            } else {
                out.stats.bump("probe.forged_frame_rejected_with_prescribed_error");
            }
        }
    }
}

fn stream_frame(sid: StreamId, off: u64, len: usize, fin: bool) -> (StreamFrame, Bytes) {
    let mut f = StreamFrame::new(sid, off, len);
    f.set_eos_flag(fin);
    (f, Bytes::from(vec![0x5a; len]))
}

fn deliver_stream(ep: &mut Ep, sid: StreamId, off: u64, len: usize, fin: bool) -> Result<(), qbase::error::Error> {
    use qbase::frame::GetFrameType;
    let (f, data) = stream_frame(sid, off, len, fin);
    let ty = f.frame_type();
    let n = ep.ds.recv_data((f, data)).map_err(qbase::error::Error::Quic)?;
    ep.flow.on_new_rcvd(ty, n)?;
    Ok(())
}

fn deliver_ctl(ep: &mut Ep, f: StreamCtlFrame) -> Result<(), qbase::error::Error> {
    use qbase::frame::GetFrameType;
    let ty = f.frame_type();
    let n = ep.ds.recv_stream_control(f).map_err(qbase::error::Error::Quic)?;
    ep.flow.on_new_rcvd(ty, n)?;
    Ok(())
}

/// Deliver the forged frame; returns true when the run ends with it (the connection would be closed).
pub fn apply(b: &Byz, eps: &mut [Ep; 2], case: &Case, accepted: &[Vec<u64>; 2], out: &mut Outcome, step: u32) -> bool {
    let ep = &mut eps[b.target.idx()];
    if ep.failed.is_some() {
        return true;
    }
    ep.flush_advertisements(out, case, step);
    let me = &case.params[b.target.idx()];
    let pr = peer_role(ep);
    out.stats.bump("fault.forged_frame");
    let run = |f: &mut dyn FnMut() -> Result<(), qbase::error::Error>| simcore::panics::guarded(f);
    let verdict = |out: &mut Outcome, what: &str, site: &str, want: &[ErrorKind], clause: &str, res: Result<Result<(), qbase::error::Error>, simcore::panics::PanicRecord>| match res {
        Ok(r) => expect(out, step, what, site, r, want, clause),
        Err(rec) => out.violate("no-panic", rec.site(), format!("{what}: {} at {}", rec.message, rec.location), step as u64),
    };
    match &b.forged {
        Forged::StreamBeyondLimit { bidi, over, len } => {
            let d = if *bidi { 0 } else { 1 };
            let idx = ep.adv_streams[d].saturating_add(*over).min((1 << 60) - 1);
            if idx < ep.adv_streams[d] {
                return false;
            }
            let sid = StreamId::new(pr, if *bidi { Dir::Bi } else { Dir::Uni }, idx);
            let res = run(&mut || deliver_stream(ep, sid, 0, *len as usize, false));
            let site = format!("{}:{}", if *bidi { "bidi" } else { "uni" }, if idx == ep.adv_streams[d] { "index-equals-limit" } else { "index-above-limit" });
            verdict(out, &format!("STREAM on peer stream index {idx}, advertised count {}", ep.adv_streams[d]), &site, &[ErrorKind::StreamLimit], "peer-beyond-limit", res);
        }
        Forged::StreamOnOwnUni { idx } => {
            let sid = StreamId::new(ep.role, Dir::Uni, *idx);
            let res = run(&mut || deliver_stream(ep, sid, 0, 3, false));
            verdict(out, &format!("STREAM on the target's own send-only stream {sid:?}"), "stream", &[ErrorKind::StreamState], "wrong-direction", res);
        }
        Forged::ResetOnOwnUni { idx } => {
            let sid = StreamId::new(ep.role, Dir::Uni, *idx);
            let f = StreamCtlFrame::ResetStream(ResetStreamFrame::new(sid, VarInt::from_u32(1), VarInt::from_u32(0)));
            let res = run(&mut || deliver_ctl(ep, f));
            verdict(out, &format!("RESET_STREAM for the target's own send-only stream {sid:?}"), "reset_stream", &[ErrorKind::StreamState], "wrong-direction", res);
        }
        Forged::StopOnPeerUni { idx, max_stream_data } => {
            if *idx >= ep.adv_streams[1] {
                return false;
            }
            let sid = StreamId::new(pr, Dir::Uni, *idx);
            let (f, site) = if *max_stream_data {
                (StreamCtlFrame::MaxStreamData(MaxStreamDataFrame::new(sid, VarInt::from_u32(1 << 20))), "max_stream_data")
            } else {
                (StreamCtlFrame::StopSending(StopSendingFrame::new(sid, VarInt::from_u32(1))), "stop_sending")
            };
            let res = run(&mut || deliver_ctl(ep, f));
            verdict(out, &format!("{site} for a receive-only stream {sid:?}"), site, &[ErrorKind::StreamState], "wrong-direction", res);
        }
        Forged::FrameOnUnopenedLocal { bidi, ahead, which } => {
            let dir = if *bidi { Dir::Bi } else { Dir::Uni };
            // how many streams of that kind the target's application has opened: those it planned at most
            let planned = case.streams.iter().filter(|s| s.opener == b.target && s.bidi == *bidi).count() as u64;
            let sid = StreamId::new(ep.role, dir, planned + *ahead);
            let (res, site) = match which {
                0 if *bidi => (run(&mut || deliver_stream(ep, sid, 0, 1, false)), "stream"),
                1 => (run(&mut || deliver_ctl(ep, StreamCtlFrame::MaxStreamData(MaxStreamDataFrame::new(sid, VarInt::from_u32(1 << 20))))), "max_stream_data"),
                _ => (run(&mut || deliver_ctl(ep, StreamCtlFrame::StopSending(StopSendingFrame::new(sid, VarInt::from_u32(1))))), "stop_sending"),
            };
            verdict(out, &format!("{site} for a locally initiated stream {sid:?} that was never opened"), site, &[ErrorKind::StreamState], "wrong-direction", res);
        }
        Forged::StreamBeyondStreamWindow { bidi } => {
            let d = if *bidi { 0 } else { 1 };
            let fresh = accepted_count(ep, pr, *bidi);
            if fresh >= ep.adv_streams[d] {
                return false;
            }
            let sid = StreamId::new(pr, if *bidi { Dir::Bi } else { Dir::Uni }, fresh);
            let win = ep.advertised_stream_limit(sid, me);
            if win >= ep.adv_conn {
                return false; // the connection window would fire first: other variant
            }
            let res = run(&mut || deliver_stream(ep, sid, win, 1, false));
            verdict(out, &format!("STREAM [{win}..{}) on {sid:?}, advertised stream limit {win}", win + 1), if *bidi { "bidi-remote" } else { "uni" }, &[ErrorKind::FlowControl], "rx-overlimit-not-detected", res);
        }
        Forged::StreamBeyondConnWindow { bidi } => {
            let d = if *bidi { 0 } else { 1 };
            let fresh = accepted_count(ep, pr, *bidi);
            if fresh >= ep.adv_streams[d] {
                return false;
            }
            let sid = StreamId::new(pr, if *bidi { Dir::Bi } else { Dir::Uni }, fresh);
            let win = ep.advertised_stream_limit(sid, me);
            // the peer has used `used` bytes of connection credit on other streams; this one alone exceeds it
            let conn = ep.adv_conn;
            if win <= conn {
                return false; // cannot exceed the connection window without exceeding the stream window first
            }
            let res = run(&mut || deliver_stream(ep, sid, conn, 1, false));
            verdict(out, &format!("STREAM [{conn}..{}) on {sid:?}, advertised connection limit {conn}", conn + 1), "connection", &[ErrorKind::FlowControl], "rx-overlimit-not-detected", res);
        }
        Forged::CtlOnFresh { bidi, kind, beyond } => {
            let d = if *bidi { 0 } else { 1 };
            let dir = if *bidi { Dir::Bi } else { Dir::Uni };
            let idx = if *beyond { ep.adv_streams[d] + 1 } else { accepted_count(ep, pr, *bidi) };
            if !*beyond && idx >= ep.adv_streams[d] {
                return false;
            }
            let sid = StreamId::new(pr, dir, idx.min((1 << 60) - 1));
            let (f, name) = match kind {
                0 => (StreamCtlFrame::StreamDataBlocked(StreamDataBlockedFrame::new(sid, VarInt::from_u32(0))), "stream_data_blocked"),
                1 => (StreamCtlFrame::ResetStream(ResetStreamFrame::new(sid, VarInt::from_u32(1), VarInt::from_u32(0))), "reset_stream"),
                2 => (StreamCtlFrame::StopSending(StopSendingFrame::new(sid, VarInt::from_u32(1))), "stop_sending"),
                _ => (StreamCtlFrame::MaxStreamData(MaxStreamDataFrame::new(sid, VarInt::from_u32(1 << 20))), "max_stream_data"),
            };
            let res = run(&mut || deliver_ctl(ep, f));
            if *beyond {
                verdict(out, &format!("{name} as the first frame on peer stream index {idx}, advertised count {}", ep.adv_streams[d]), &format!("{}:index-above-limit:{name}", if *bidi { "bidi" } else { "uni" }), &[ErrorKind::StreamLimit], "peer-beyond-limit", res);
                return true;
            }
            match res {
                Err(rec) => out.violate("no-panic", rec.site(), format!("{name} on fresh {sid:?}: {} at {}", rec.message, rec.location), step as u64),
                Ok(Err(e)) => out.violate("unexpected-error", format!("{:?}", e.kind()), format!("legal {name} as the first frame on fresh peer stream {sid:?} (index {idx} < advertised count {}) rejected: {e}", ep.adv_streams[d]), step as u64),
                Ok(Ok(())) => {
                    // implicit open: accept must now yield every stream of that kind not yet yielded, up to `idx`, in order
                    let kind_bits = sid_key(sid) & 3;
                    let already = accepted[b.target.idx()].iter().filter(|k| (**k & 3) == kind_bits).count() as u64;
                    let task = simcore::wake::Task::new();
                    let mut got: Vec<u64> = Vec::new();
                    for _ in 0..=idx + 1 {
                        let r: std::task::Poll<Option<StreamId>> = if *bidi {
                            let mut fut = ep.ds.accept_bi(&ep.params);
                            match task.poll_pin(std::pin::Pin::new(&mut fut)) {
                                std::task::Poll::Ready(Ok((s, _))) => std::task::Poll::Ready(Some(s)),
                                std::task::Poll::Ready(Err(_)) => std::task::Poll::Ready(None),
                                std::task::Poll::Pending => std::task::Poll::Pending,
                            }
                        } else {
                            let mut fut = ep.ds.accept_uni();
                            match task.poll_pin(std::pin::Pin::new(&mut fut)) {
                                std::task::Poll::Ready(Ok((s, _))) => std::task::Poll::Ready(Some(s)),
                                std::task::Poll::Ready(Err(_)) => std::task::Poll::Ready(None),
                                std::task::Poll::Pending => std::task::Poll::Pending,
                            }
                        };
                        match r {
                            std::task::Poll::Ready(Some(s)) => got.push(s.id()),
                            _ => break,
                        }
                    }
                    let want: Vec<u64> = (already..=idx).collect();
                    if got != want {
                        out.violate("implicit-open", format!("first-frame:{name}"), format!("{name} as the first frame on peer stream index {idx} ({}): accept then yielded indices {:?}, expected {}..={idx} once each, in order ({} of that kind had been yielded before)", if *bidi { "bidi" } else { "uni" }, &got[..got.len().min(8)], already, already), step as u64);
                    } else {
                        out.stats.bump("probe.implicit_open_by_control_frame");
                    }
                }
            }
        }
        Forged::FinalSizeBeyondWindow { bidi, reset, conn } => {
            let d = if *bidi { 0 } else { 1 };
            let fresh = accepted_count(ep, pr, *bidi);
            if fresh >= ep.adv_streams[d] {
                return false;
            }
            let sid = StreamId::new(pr, if *bidi { Dir::Bi } else { Dir::Uni }, fresh);
            let win = ep.advertised_stream_limit(sid, me);
            let cw = ep.adv_conn;
            // exactly one of the two limits is exceeded, by one byte
            let size = if *conn {
                if win <= cw {
                    return false;
                }
                cw + 1
            } else {
                if win >= cw {
                    return false;
                }
                win + 1
            };
            let what = format!("{} with final size {size} on {sid:?}, advertised stream limit {win}, connection limit {cw}", if *reset { "RESET_STREAM" } else { "lone FIN" });
            let res = if *reset {
                let f = StreamCtlFrame::ResetStream(ResetStreamFrame::new(sid, VarInt::from_u32(1), VarInt::from_u64(size).unwrap()));
                run(&mut || deliver_ctl(ep, f))
            } else {
                run(&mut || deliver_stream(ep, sid, size, 0, true))
            };
            let site = format!("{}:{}", if *conn { "connection" } else if *bidi { "bidi-remote" } else { "uni" }, if *reset { "reset-final-size" } else { "fin-final-size" });
            verdict(out, &what, &site, &[ErrorKind::FlowControl], "rx-overlimit-not-detected", res);
        }
        Forged::ResetThenStream { bidi } => {
            let d = if *bidi { 0 } else { 1 };
            let fresh = accepted_count(ep, pr, *bidi);
            if fresh + 2 >= ep.adv_streams[d] {
                return false;
            }
            let dir = if *bidi { Dir::Bi } else { Dir::Uni };
            let (a, b2) = (StreamId::new(pr, dir, fresh), StreamId::new(pr, dir, fresh + 2));
            let cw = ep.adv_conn;
            let half = cw / 2 + 1;
            if cw < 4 || ep.advertised_stream_limit(a, me) < half || ep.advertised_stream_limit(b2, me) < half {
                return false;
            }
            let f = StreamCtlFrame::ResetStream(ResetStreamFrame::new(a, VarInt::from_u32(1), VarInt::from_u64(half).unwrap()));
            match run(&mut || deliver_ctl(ep, f)) {
                Ok(Ok(())) => {}
                Ok(Err(e)) => {
                    // other streams may already have used the difference: the reset itself may then legitimately be the
                    // frame that exceeds the connection window
                    if e.kind() != ErrorKind::FlowControl {
                        out.violate("error-kind", "connection:reset-then-stream".to_string(), format!("RESET_STREAM final size {half} on {a:?} (connection limit {cw}) answered with {:?}", e.kind()), step as u64);
                    }
                    return true;
                }
                Err(rec) => {
                    out.violate("no-panic", rec.site(), format!("RESET_STREAM final size {half}: {} at {}", rec.message, rec.location), step as u64);
                    return true;
                }
            }
            // handling the reset may itself have raised the connection window (the receiver extends it as credit is
            // used up): judge the second frame against what is advertised now
            ep.flush_advertisements(out, case, step);
            let cw2 = ep.adv_conn;
            let end = cw2 - half + 1;
            if ep.advertised_stream_limit(b2, me) < end {
                return true;
            }
            let res = run(&mut || deliver_stream(ep, b2, end - 1, 1, false));
            verdict(out, &format!("RESET_STREAM with final size {half} on {a:?}, then STREAM [{}..{end}) on {b2:?}: {} bytes of credit used, advertised connection limit {cw2}", end - 1, half + end), "connection:reset-then-stream", &[ErrorKind::FlowControl], "rx-overlimit-not-detected", res);
        }
        Forged::FinalSize { bidi, case: k } => {
            let d = if *bidi { 0 } else { 1 };
            let fresh = accepted_count(ep, pr, *bidi);
            if fresh >= ep.adv_streams[d] {
                return false;
            }
            let sid = StreamId::new(pr, if *bidi { Dir::Bi } else { Dir::Uni }, fresh);
            let win = ep.advertised_stream_limit(sid, me).min(ep.adv_conn);
            if win < 8 {
                return false;
            }
            // legitimate prefix that leaves the stream open: [2..4) with FIN (final size 4 known, [0..2) missing), or
            // [2..6) without FIN. (Once all data has arrived RFC 9000 4.5 no longer requires the error.)
            let (setup, forged, what): (Vec<(u64, usize, bool)>, Box<dyn FnMut(&mut Ep) -> Result<(), qbase::error::Error>>, &str) = match k {
                0 => (vec![(2, 2, true)], Box::new(move |ep: &mut Ep| deliver_stream(ep, sid, 4, 2, false)), "data beyond the final size"),
                1 => (vec![(2, 4, false)], Box::new(move |ep: &mut Ep| deliver_stream(ep, sid, 1, 2, true)), "FIN below data already received"),
                2 => (vec![(2, 2, true)], Box::new(move |ep: &mut Ep| deliver_stream(ep, sid, 3, 3, true)), "second FIN with a different final size"),
                _ => (vec![(2, 2, true)], Box::new(move |ep: &mut Ep| deliver_ctl(ep, StreamCtlFrame::ResetStream(ResetStreamFrame::new(sid, VarInt::from_u32(1), VarInt::from_u32(7))))), "RESET_STREAM with a different final size"),
            };
            for (off, len, fin) in setup {
                if let Err(e) = deliver_stream(ep, sid, off, len, fin) {
                    out.violate("unexpected-error", format!("{:?}", e.kind()), format!("legitimate STREAM [{off}..{}) fin={fin} on fresh {sid:?} (window {win}) rejected: {e}", off + len as u64), step as u64);
                    return true;
                }
            }
            let mut forged = forged;
            let res = simcore::panics::guarded(|| forged(ep));
            verdict(out, what, ["data-after-fin", "fin-below-data", "second-fin", "reset-size"][*k as usize], &[ErrorKind::FinalSize], "final-size", res);
        }
    }
    true
}

/// index of the first peer-initiated stream of that kind the target has not seen yet
fn accepted_count(ep: &Ep, pr: Role, bidi: bool) -> u64 {
    // streams are opened in order by the peer application; the target may have seen fewer. A stream index at
    // or above every stream the peer application will ever open is fresh for sure.
    let _ = (ep, pr);
    if bidi { 40 } else { 41 }
}
