//! streamsim — two real `DataStreams` + `FlowController` endpoints joined by a simulated packetiser and a
//! lossy / duplicating / reordering frame channel with its own ack and loss feedback (C01, C11, C12).
//!
//! The glue mirrors qconnection: packet assembly = reliable frames then stream frames
//! (`Components::packages()`), reception = `FlowControlledDataStreams` + flow-control frames
//! (`space/data.rs`), feedback = `AckDataSpace::recv_frame` / `DataTracker::may_loss`.
pub mod byz;
pub mod dgram;
pub mod endpoint;

use std::collections::BTreeMap;

use serde::{Deserialize, Serialize};
use simcore::{Engine, Outcome, Rng, Tier};

#[derive(Clone, Copy, Debug, Serialize, Deserialize, PartialEq, Eq, PartialOrd, Ord)]
pub enum Side {
    Client,
    Server,
}

impl Side {
    pub fn idx(self) -> usize {
        self as usize
    }
    pub fn peer(self) -> Side {
        if self == Side::Client { Side::Server } else { Side::Client }
    }
}

#[derive(Clone, Debug, Serialize, Deserialize)]
pub struct Params {
    pub max_data: u64,
    pub stream_bidi_local: u64,
    pub stream_bidi_remote: u64,
    pub stream_uni: u64,
    pub streams_bidi: u64,
    pub streams_uni: u64,
    /// true = DemandConcurrency (raise on STREAMS_BLOCKED), false = ConsistentConcurrency
    pub demand: bool,
}

#[derive(Clone, Debug, Serialize, Deserialize)]
pub struct StreamSpec {
    pub opener: Side,
    pub bidi: bool,
    pub size: u32,
    pub chunk: u32,
    pub resp_size: u32,
    pub resp_chunk: u32,
    pub read_buf: u32,
    pub shutdown: bool,
    /// the opener resets after writing this many bytes
    pub reset_after: Option<u32>,
    /// the acceptor sends STOP_SENDING after reading this many bytes
    pub stop_after: Option<u32>,
}

#[derive(Clone, Copy, Debug, Serialize, Deserialize, PartialEq)]
pub enum Fate {
    Pass,
    Drop,
    Dup { copies: u8, gap: u16 },
    Delay { steps: u16 },
}

#[derive(Clone, Debug, Serialize, Deserialize, Default)]
pub struct Tape {
    /// data packets per direction (0: client->server), by ordinal
    pub data: [BTreeMap<u32, Fate>; 2],
    /// ack messages per direction of the ack (0: acks sent by the client)
    pub acks: [BTreeMap<u32, Fate>; 2],
    /// ordinals (of sent packets per side) reported lost although they are still in flight or delivered
    pub spurious_loss: [Vec<u32>; 2],
}

#[derive(Clone, Debug, Serialize, Deserialize)]
pub struct Case {
    pub seed: u64,
    pub params: [Params; 2],
    pub streams: Vec<StreamSpec>,
    pub tape: Tape,
    /// packet capacities are drawn from this menu
    pub capacities: Vec<u16>,
    pub base_delay: u16,
    /// steps after which an unacknowledged packet is declared lost
    pub loss_after: u16,
    pub max_steps: u32,
    /// forged frame delivered to one endpoint at a drawn step (C11 receiver clause, C12)
    pub byz: Option<byz::Byz>,
    /// the client resumes with remembered server parameters and sends 0-RTT data until the handshake completes
    #[serde(default)]
    pub zero_rtt: Option<ZeroRtt>,
}

/// A resumed connection: until step `fin_at` the client works with the server parameters it remembered (0-RTT);
/// then the handshake completes with the server's real parameters. `accepted`: the server took the 0-RTT data (its
/// real limits are then not below the remembered ones, RFC 9000 7.4.1). Otherwise it discarded every packet the
/// client sent so far, the real limits may be anything, and the client starts over under them.
#[derive(Clone, Debug, Serialize, Deserialize)]
pub struct ZeroRtt {
    pub remembered: Params,
    pub accepted: bool,
    pub fin_at: u32,
}

#[derive(Clone, Copy, PartialEq, Debug)]
pub enum Mode {
    C01,
    C11,
    C12,
}

impl Mode {
    pub fn clauses(&self) -> &'static [&'static str] {
        match self {
            Mode::C01 => &["no-panic", "prefix-integrity", "eof-only-at-final-size", "reset-never-foreign-bytes", "write-accounting", "liveness-delivery", "liveness-flush-shutdown", "unexpected-error"],
            Mode::C11 => &["no-panic", "stream-limit-exceeded", "conn-limit-exceeded", "retransmit-charged", "credit-leak", "rx-overlimit-not-detected", "advertised-decreased", "unexpected-error", "error-kind"],
            Mode::C12 => &["no-panic", "open-beyond-limit", "peer-beyond-limit", "wrong-direction", "final-size", "implicit-open", "accept-once", "error-kind", "unexpected-error"],
        }
    }
}

pub struct StreamSim {
    pub mode: Mode,
}

fn gen_params(r: &mut Rng, mode: Mode, need_bidi: u64, need_uni: u64) -> Params {
    let win: &[u64] = match mode {
        Mode::C11 => &[0, 1, 100, 1200, 4096, 65536, 1 << 20],
        _ => &[100, 1200, 4096, 65536, 1 << 20],
    };
    let cnt = |r: &mut Rng, need: u64| -> u64 {
        match mode {
            Mode::C12 => *r.pick(&[0u64, 1, 2, 3, 10, 100]),
            _ => {
                if need == 0 {
                    *r.pick(&[0u64, 1, 3, 100])
                } else {
                    *r.pick(&[1u64, 2, 3, 100])
                }
            }
        }
    };
    Params {
        max_data: *r.pick(win),
        stream_bidi_local: *r.pick(win),
        stream_bidi_remote: *r.pick(win),
        stream_uni: *r.pick(win),
        streams_bidi: cnt(r, need_bidi),
        streams_uni: cnt(r, need_uni),
        demand: r.one_in(2),
    }
}

impl Engine for StreamSim {
    type Case = Case;
    fn name(&self) -> &'static str {
        match self.mode {
            Mode::C01 => "streamsim",
            Mode::C11 => "streamsim-flow",
            Mode::C12 => "streamsim-limits",
        }
    }
    fn components_real(&self) -> Vec<&'static str> {
        vec![
            "qrecovery::streams::DataStreams x2 (Outgoing/Incoming, SendBuf, RecvBuf, Reader, Writer, listener)",
            "qbase::flow::FlowController x2", "qbase::sid stream-id controllers and concurrency strategies",
            "qbase::param::ArcParameters", "qrecovery::reliable::ArcReliableFrameDeque",
            "real frame encode (Package::dump into a BufMut+RecordFrame target) and decode (FrameReader)",
        ]
    }
    fn components_stub(&self) -> Vec<&'static str> {
        vec!["packetisation (simulator picks capacities)", "ack / loss feedback (simulator's own pn -> frames map)", "crypto, paths, congestion control", "application actors (manual polling with counting wakers)"]
    }

    fn generate(&self, _index: u64, seed: u64, _tier: Tier) -> Case {
        let mut w = Rng::derive(seed, "workload");
        let n = match self.mode {
            Mode::C12 => w.range(0, 8),
            _ => w.range(1, 6),
        };
        let max_size = if w.one_in(5) { 65_536 } else { 12_000 };
        let size = |r: &mut Rng| match r.below(10) {
            0 => 0,
            1 => 1,
            2..=5 => r.range(1, 3000) as u32,
            _ => r.range(1, max_size) as u32,
        };
        let with_resets = self.mode == Mode::C01 && w.one_in(3) || self.mode == Mode::C12 && w.one_in(2);
        let streams: Vec<StreamSpec> = (0..n)
            .map(|_| {
                let sz = size(&mut w);
                let rsz = size(&mut w);
                StreamSpec {
                    opener: if w.one_in(2) { Side::Client } else { Side::Server },
                    bidi: !w.one_in(3),
                    size: sz,
                    // byte-wise writing / reading only on small streams (the simulator explores schedules, not speed)
                    chunk: if sz <= 600 { *w.pick(&[1u32, 37, 1000, 4096, 70_000]) } else { *w.pick(&[37u32, 1000, 4096, 70_000]) },
                    resp_size: rsz,
                    resp_chunk: if rsz <= 600 { *w.pick(&[1u32, 37, 1000, 4096, 70_000]) } else { *w.pick(&[37u32, 1000, 4096, 70_000]) },
                    read_buf: if sz.max(rsz) <= 600 { *w.pick(&[1u32, 7, 1000, 4096, 70_000]) } else { *w.pick(&[50u32, 1000, 4096, 70_000]) },
                    // a stream on which nothing is written and that is never finished is invisible to the peer
                    shutdown: !w.one_in(8) || sz == 0,
                    reset_after: if with_resets && w.one_in(4) { Some(w.below(sz as u64 + 1) as u32) } else { None },
                    stop_after: if with_resets && w.one_in(5) { Some(w.below(sz as u64 + 1) as u32) } else { None },
                }
            })
            .collect();
        let mut c = Rng::derive(seed, "cfg");
        let kinds: Vec<(Side, bool)> = streams.iter().map(|s| (s.opener, s.bidi)).collect();
        let need = |side: Side, bidi: bool| kinds.iter().filter(|k| **k == (side, bidi)).count() as u64;
        // params[i] are what endpoint i advertises: its peer's opens are limited by them
        let params = [gen_params(&mut c, self.mode, need(Side::Server, true), need(Side::Server, false)), gen_params(&mut c, self.mode, need(Side::Client, true), need(Side::Client, false))];
        // a stream that is never finished never frees its slot: only allowed where the peer's limit covers every
        // stream of that kind the application opens
        let mut streams = streams;
        for i in 0..streams.len() {
            let (o, b) = (streams[i].opener, streams[i].bidi);
            let lim = if b { params[o.peer().idx()].streams_bidi } else { params[o.peer().idx()].streams_uni };
            if !streams[i].shutdown && lim < need(o, b) {
                streams[i].shutdown = true;
            }
        }
        let mut f = Rng::derive(seed, "faults");
        let mut tape = Tape::default();
        let rate = |r: &mut Rng, hi: f64| if r.one_in(2) { r.log_uniform(0.003, hi) } else { 0.0 };
        let (p_drop, p_dup, p_delay) = (rate(&mut f, 0.4), rate(&mut f, 0.2), rate(&mut f, 0.4));
        let (a_drop, a_dup, a_delay) = (rate(&mut f, 0.5), rate(&mut f, 0.2), rate(&mut f, 0.5));
        let horizon = f.range(5, 600) as u32;
        let fate = |r: &mut Rng, pd: f64, pu: f64, pl: f64| -> Option<Fate> {
            if r.chance(pd) {
                Some(Fate::Drop)
            } else if r.chance(pu) {
                Some(Fate::Dup { copies: r.range(1, 3) as u8, gap: r.below(40) as u16 })
            } else if r.chance(pl) {
                Some(Fate::Delay { steps: *r.pick(&[1u16, 5, 20, 60, 200]) })
            } else {
                None
            }
        };
        for d in 0..2 {
            for o in 0..horizon {
                if let Some(x) = fate(&mut f, p_drop, p_dup, p_delay) {
                    tape.data[d].insert(o, x);
                }
                if let Some(x) = fate(&mut f, a_drop, a_dup, a_delay) {
                    tape.acks[d].insert(o, x);
                }
            }
            let ns = if f.one_in(2) { f.below(6) } else { 0 };
            tape.spurious_loss[d] = (0..ns).map(|_| f.below(horizon as u64) as u32).collect();
        }
        let caps: Vec<u16> = match f.below(4) {
            0 => vec![25, 30, 40, 64, 100],
            1 => vec![1200],
            2 => vec![25, 200, 1200, 1452],
            _ => vec![60, 300, 1452],
        };
        let mut case = Case {
            seed,
            params,
            streams,
            tape,
            capacities: caps,
            base_delay: f.range(1, 10) as u16,
            loss_after: *f.pick(&[12u16, 40, 150, 600]),
            max_steps: 300_000,
            byz: None,
            zero_rtt: None,
        };
        if matches!(self.mode, Mode::C11 | Mode::C12) && f.chance(0.7) {
            case.byz = Some(byz::generate(&mut f, self.mode, &case));
        }
        // a resumed connection with 0-RTT (own random stream: the other draws are unchanged)
        let mut z = Rng::derive(seed, "zero-rtt");
        if case.byz.is_none() && z.one_in(6) {
            let accepted = z.one_in(2);
            let real = case.params[1].clone();
            let mut rem = gen_params(&mut z, self.mode, 0, 0);
            if accepted {
                // RFC 9000 7.4.1: a server that accepts 0-RTT does not lower these below what the client remembered
                rem.max_data = rem.max_data.min(real.max_data);
                rem.stream_bidi_local = rem.stream_bidi_local.min(real.stream_bidi_local);
                rem.stream_bidi_remote = rem.stream_bidi_remote.min(real.stream_bidi_remote);
                rem.stream_uni = rem.stream_uni.min(real.stream_uni);
                rem.streams_bidi = rem.streams_bidi.min(real.streams_bidi);
                rem.streams_uni = rem.streams_uni.min(real.streams_uni);
            }
            case.zero_rtt = Some(ZeroRtt { remembered: rem, accepted, fin_at: *z.pick(&[5u32, 50, 400, 2000]) });
        }
        case
    }

    fn execute(&self, case: &Case) -> Outcome {
        let mut out = endpoint::run(case, self.mode);
        let clauses = self.mode.clauses();
        if std::env::var("STREAMSIM_ALL_CLAUSES").is_err() {
            out.violations.retain(|v| clauses.contains(&v.clause.as_str()));
        }
        out
    }

    fn shrink(&self, case: &Case) -> Vec<Case> {
        let mut v = Vec::new();
        if case.zero_rtt.is_some() {
            let mut c = case.clone();
            c.zero_rtt = None;
            v.push(c);
        }
        for i in 0..case.streams.len() {
            let mut c = case.clone();
            c.streams.remove(i);
            // a forged frame refers to streams by kind and index, not by position: still meaningful
            v.push(c);
        }
        for d in 0..2 {
            for (name, which) in [("data", 0), ("acks", 1)] {
                let _ = name;
                let m = if which == 0 { &case.tape.data[d] } else { &case.tape.acks[d] };
                let keys: Vec<u32> = m.keys().copied().collect();
                if keys.len() > 1 {
                    let mut c = case.clone();
                    let mm = if which == 0 { &mut c.tape.data[d] } else { &mut c.tape.acks[d] };
                    for k in &keys[keys.len() / 2..] {
                        mm.remove(k);
                    }
                    v.push(c);
                    let mut c = case.clone();
                    let mm = if which == 0 { &mut c.tape.data[d] } else { &mut c.tape.acks[d] };
                    for k in &keys[..keys.len() / 2] {
                        mm.remove(k);
                    }
                    v.push(c);
                }
                for k in keys.iter().rev().take(30) {
                    let mut c = case.clone();
                    let mm = if which == 0 { &mut c.tape.data[d] } else { &mut c.tape.acks[d] };
                    mm.remove(k);
                    v.push(c);
                }
            }
            if !case.tape.spurious_loss[d].is_empty() {
                let mut c = case.clone();
                c.tape.spurious_loss[d].clear();
                v.push(c);
            }
        }
        for i in 0..case.streams.len() {
            let s = &case.streams[i];
            if s.size > 1 || s.resp_size > 1 {
                let mut c = case.clone();
                c.streams[i].size /= 2;
                c.streams[i].resp_size /= 2;
                let sz = c.streams[i].size;
                if let Some(r) = c.streams[i].reset_after.as_mut() {
                    *r = (*r).min(sz);
                }
                if let Some(r) = c.streams[i].stop_after.as_mut() {
                    *r = (*r).min(sz);
                }
                v.push(c);
            }
            if s.reset_after.is_some() || s.stop_after.is_some() {
                let mut c = case.clone();
                c.streams[i].reset_after = None;
                c.streams[i].stop_after = None;
                v.push(c);
            }
        }
        if case.capacities.len() > 1 {
            let mut c = case.clone();
            c.capacities = vec![1200];
            v.push(c);
        }
        v
    }

    fn sample(&self, case: &Case) -> serde_json::Value {
        serde_json::json!({
            "params": case.params, "streams": case.streams.iter().take(4).collect::<Vec<_>>(), "n_streams": case.streams.len(),
            "capacities": case.capacities, "base_delay": case.base_delay, "loss_after": case.loss_after,
            "tape_data_first": case.tape.data.iter().enumerate().flat_map(|(d, m)| m.iter().take(8).map(move |(k, f)| format!("d{d}#{k}:{f:?}"))).collect::<Vec<_>>(),
            "tape_entries": case.tape.data[0].len() + case.tape.data[1].len() + case.tape.acks[0].len() + case.tape.acks[1].len(),
            "spurious_loss": case.tape.spurious_loss, "byz": case.byz, "zero_rtt": case.zero_rtt,
        })
    }
}
