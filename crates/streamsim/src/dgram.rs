//! dgramsim — C19 at component level: two real `qdatagram::DatagramFlow`s, built as `qconnection::builder` builds them,
//! joined by a lossy packet channel. The applications (writers, readers), the packet assembler (how much room is left in
//! the packet, what was loaded before) and the network (loss, delay) are the generated history; the oracle is a FIFO of
//! byte vectors per direction plus RFC 9221's size rule.
use std::collections::VecDeque;

use bytes::{BufMut, Bytes};
use qbase::{
    error::ErrorKind,
    frame::{DatagramFrame, EncodeSize, Frame, FrameReader, io::ReceiveFrame},
    net::tx::{ArcSendWaker, ArcSendWakers, Signals},
    packet::r#type::{Type, short::OneRtt},
    varint::VarInt,
};
use qdatagram::{DatagramFlow, DatagramReader, DatagramWriter};
use serde::{Deserialize, Serialize};
use simcore::{Engine, Outcome, Rng, Tier, TraceHash, panics::guarded, prf_vec, wake::Task};

use crate::endpoint::Pkt;

#[derive(Serialize, Deserialize, Clone, Debug, PartialEq)]
pub enum Fate {
    Deliver,
    Lose,
    /// delivered later, at the next `Release` towards the same side (network delay / reordering)
    Hold,
}

#[derive(Serialize, Deserialize, Clone, Debug, PartialEq)]
pub enum DOp {
    /// the application on `from` hands a datagram of `size` bytes to its writer
    Send { from: u8, size: u32, as_bytes: bool },
    /// the packet assembler of `from` offers a packet with `room` bytes of which `pre` are already used by other frames
    Assemble { from: u8, room: u32, pre: u32, repeat: bool, fate: Fate },
    Release { to: u8 },
    /// the application on `at` polls its reader: 0 recv, 1 read_buf, 2 read into a large slice
    Read { at: u8, how: u8 },
    /// a hostile peer sends `to` a DATAGRAM frame of `size` payload bytes
    Forge { to: u8, size: u32, with_len: bool },
    ConnError { at: u8 },
}

#[derive(Serialize, Deserialize, Clone, Debug)]
pub struct DCase {
    pub seed: u64,
    /// max_datagram_frame_size advertised by side i (0 = extension disabled)
    pub max: [u64; 2],
    pub ops: Vec<DOp>,
}

pub struct DgramSim;

fn varint_len(v: u64) -> usize {
    match v {
        0..=63 => 1,
        64..=16383 => 2,
        16384..=1_073_741_823 => 4,
        _ => 8,
    }
}

struct Side {
    flow: DatagramFlow,
    writer: Option<DatagramWriter>,
    reader: Option<DatagramReader>,
    rtask: Task,
    reader_pending: bool,
    /// accepted by the writer, not yet on the wire (model of the outgoing queue)
    queued: VecDeque<Vec<u8>>,
    /// accepted by recv_frame, not yet read (model of the incoming queue)
    arrived: VecDeque<Vec<u8>>,
    held: Vec<Bytes>,
    dead: bool,
    next_id: u64,
    /// the path's send task as `Path::burst` runs it: when the sources have nothing it sleeps on the signals they
    /// reported (`tx_waker.wait_for(signals)`), registered in the connection's `ArcSendWakers`
    tx_waker: ArcSendWaker,
    stask: Task,
    /// the send task is asleep on these signals (reported by the empty datagram source)
    parked: Option<Signals>,
}

fn conn_error() -> qbase::error::Error {
    qbase::error::QuicError::with_default_fty(ErrorKind::Internal, "simulated connection error").into()
}

pub fn run(case: &DCase) -> Outcome {
    let mut out = Outcome::default();
    let mut th = TraceHash::default();
    let mk = |i: usize, out: &mut Outcome| {
        let wakers = ArcSendWakers::default();
        let tx_waker = ArcSendWaker::new();
        let a: std::net::SocketAddr = "127.0.0.1:1".parse().unwrap();
        let b: std::net::SocketAddr = "127.0.0.1:2".parse().unwrap();
        wakers.insert(qbase::net::route::Pathway::new(a.into(), b.into()), &tx_waker);
        let flow = DatagramFlow::new(case.max[i], wakers);
        let peer_max = case.max[1 - i];
        let writer = match flow.writer(peer_max) {
            Ok(w) => {
                if peer_max == 0 {
                    out.violate("disabled-not-refused", "writer", format!("side {i}: a writer was handed out although the peer advertised max_datagram_frame_size 0"), 0);
                }
                Some(w)
            }
            Err(_) => {
                if peer_max != 0 {
                    out.violate("refused-fitting", "writer", format!("side {i}: no writer although the peer advertised {peer_max}"), 0);
                }
                None
            }
        };
        let reader = match flow.reader() {
            Ok(r) => Some(r),
            Err(_) => {
                if case.max[i] != 0 {
                    out.violate("refused-fitting", "reader", format!("side {i}: no reader although the local maximum is {}", case.max[i]), 0);
                }
                None
            }
        };
        Side { flow, writer, reader, rtask: Task::new(), reader_pending: false, queued: VecDeque::new(), arrived: VecDeque::new(), held: Vec::new(), dead: false, next_id: 0, tx_waker, stask: Task::new(), parked: None }
    };
    let mut s = [mk(0, &mut out), mk(1, &mut out)];

    let mut ops = case.ops.clone();
    // quiescence: everything still queued must reach the wire when the assembler offers room, and be readable
    for i in 0..2u8 {
        ops.push(DOp::Release { to: i });
    }
    let flush_from = ops.len();
    for i in 0..2u8 {
        for _ in 0..case.ops.iter().filter(|o| matches!(o, DOp::Send { from, .. } if *from == i)).count() + 1 {
            ops.push(DOp::Assemble { from: i, room: 70_100, pre: 0, repeat: true, fate: Fate::Deliver });
        }
    }
    let drain_from = ops.len();
    for i in 0..2u8 {
        for _ in 0..case.ops.len() + 2 {
            ops.push(DOp::Read { at: i, how: 0 });
        }
    }

    for (step, op) in ops.iter().enumerate() {
        let at = step as u64;
        th.add(step as u64);
        match op {
            DOp::Send { from, size, as_bytes } => {
                let i = *from as usize;
                let peer_max = case.max[1 - i];
                let Some(w) = s[i].writer.clone() else { continue };
                let id = s[i].next_id;
                s[i].next_id += 1;
                let data = prf_vec(case.seed, 1000 * (i as u64 + 1) + id, 0, *size as usize);
                let res = if *as_bytes { w.send_bytes(Bytes::from(data.clone())) } else { w.send(&data) };
                let fits = 1 + *size as u64 <= peer_max;
                th.add(res.is_ok() as u64);
                match (res.is_ok(), s[i].dead) {
                    (true, true) => out.violate("after-error", "send", format!("side {i}: send succeeded after a connection error"), at),
                    (false, true) => {}
                    (true, false) => {
                        if !fits {
                            out.violate("accepted-oversize", "send", format!("side {i}: datagram of {size} bytes accepted, peer maximum frame size {peer_max}"), at);
                        }
                        s[i].queued.push_back(data);
                        out.stats.bump("op.send_accepted");
                        // the send task asleep on what the empty source reported must now be woken, or the accepted
                        // datagram sits in the queue until some unrelated event happens to wake the path
                        if let Some(sig) = s[i].parked.take() {
                            if !s[i].stask.take_woken() {
                                let mut fut = Box::pin(s[i].tx_waker.wait_for(sig));
                                let ready = s[i].stask.poll_pin(fut.as_mut()).is_ready();
                                out.violate("not-on-wire", "sender-not-woken", format!("side {i}: the send task slept on {sig:?} (reported by the empty datagram source); accepting a datagram did not wake it (a re-poll now finds the condition {})", if ready { "satisfied" } else { "still unsatisfied" }), at);
                            } else {
                                out.stats.bump("probe.parked_sender_woken_by_send");
                            }
                        }
                    }
                    (false, false) => {
                        if fits {
                            out.violate("refused-fitting", "send", format!("side {i}: datagram of {size} bytes refused, peer maximum frame size {peer_max}"), at);
                        } else {
                            out.stats.bump("probe.oversize_refused");
                        }
                    }
                }
            }
            DOp::Assemble { from, room, pre, repeat, fate } => {
                let i = *from as usize;
                let peer_max = case.max[1 - i];
                let room = *room as usize;
                let pre = (*pre as usize).min(room);
                let mut pkt = Pkt::new(room);
                pkt.put_bytes(0x01, pre); // PING frames loaded before the datagram source is asked
                let mut loaded: Vec<Vec<u8>> = Vec::new();
                let mut stop = false;
                for round in 0..64 {
                    let left = room - pkt.buf.len();
                    let front_len = s[i].queued.front().map(|d| d.len());
                    let before = pkt.buf.len();
                    let res = guarded(|| s[i].flow.try_load_data_into(&mut pkt));
                    let res = match res {
                        Ok(r) => r,
                        Err(rec) => {
                            out.violate("no-panic", rec.site(), format!("try_load_data_into(room {left}, front {front_len:?}): {} at {}", rec.message, rec.location), at);
                            stop = true;
                            break;
                        }
                    };
                    th.add(res.is_ok() as u64);
                    match res {
                        Ok(()) => {
                            if s[i].dead {
                                out.violate("after-error", "load", format!("side {i}: a datagram was loaded after a connection error"), at);
                                stop = true;
                                break;
                            }
                            let Some(exp) = s[i].queued.pop_front() else {
                                out.violate("phantom-frame", "load", format!("side {i}: try_load_data_into succeeded with nothing queued"), at);
                                stop = true;
                                break;
                            };
                            if left < 1 + exp.len() {
                                out.violate("overflow", "load", format!("side {i}: datagram of {} bytes loaded into {left} bytes of room", exp.len()), at);
                            }
                            if pkt.buf.len() == before {
                                out.violate("stuck-in-queue", "load", format!("side {i}: try_load_data_into reported success and wrote nothing"), at);
                            }
                            loaded.push(exp);
                            out.stats.bump("op.loaded");
                        }
                        Err(sig) => {
                            if front_len.is_none() && !s[i].dead && round == 0 && pre == 0 && s[i].parked.is_none() && !sig.is_empty() {
                                // nothing to send at all: the path's send task goes to sleep on the reported signals
                                let mut fut = Box::pin(s[i].tx_waker.wait_for(sig));
                                s[i].stask.take_woken();
                                if s[i].stask.poll_pin(fut.as_mut()).is_pending() {
                                    s[i].parked = Some(sig);
                                    out.stats.bump("probe.send_task_parked_on_empty_source");
                                }
                            }
                            if let (Some(l), false) = (front_len, s[i].dead) {
                                // 1 type byte + at most 8 bytes of length: in that much room every encoding fits
                                if left >= 1 + 8 + l {
                                    out.violate("not-loaded", if round == 0 { "first" } else { "subsequent" }, format!("side {i}: {l}-byte datagram at the head of the queue not loaded into {left} bytes of room"), at);
                                }
                                if left < 1 + l {
                                    out.stats.bump("probe.no_room_deferred");
                                }
                            }
                            if pkt.buf.len() != before {
                                out.violate("torn-frame", "load", format!("side {i}: try_load_data_into failed after writing {} bytes", pkt.buf.len() - before), at);
                            }
                            break;
                        }
                    }
                    if !*repeat {
                        break;
                    }
                }
                if stop || pkt.buf.len() == pre {
                    continue;
                }
                // what is really on the wire, through the real frame decoder
                let payload = pkt.buf.clone().freeze();
                let mut on_wire: Vec<(DatagramFrame, Bytes)> = Vec::new();
                let mut bad = None;
                for item in FrameReader::new(payload.clone(), Type::Short(OneRtt(0.into()))) {
                    match item {
                        Ok((Frame::Datagram(f, d), _)) => on_wire.push((f, d)),
                        Ok((Frame::Ping(_), _)) | Ok((Frame::Padding(_), _)) => {}
                        Ok((other, _)) => bad = Some(format!("unexpected frame {other:?}")),
                        Err(e) => bad = Some(format!("undecodable: {e:?}")),
                    }
                }
                if let Some(b) = bad {
                    out.violate("wire-malformed", "decode", format!("side {i}: packet of {} bytes ({pre} pre-filled): {b}", payload.len()), at);
                    continue;
                }
                if on_wire.len() != loaded.len() {
                    out.violate("merged-or-split", "count", format!("side {i}: {} datagrams loaded, {} DATAGRAM frames decoded from the packet", loaded.len(), on_wire.len()), at);
                    continue;
                }
                for ((f, d), exp) in on_wire.iter().zip(&loaded) {
                    if d.as_ref() != exp.as_slice() {
                        out.violate("payload-changed", "wire", format!("side {i}: frame payload of {} bytes differs from the {}-byte datagram that was next in the queue", d.len(), exp.len()), at);
                    }
                    let frame_size = f.encoding_size() + d.len();
                    if frame_size as u64 > peer_max {
                        out.violate("frame-exceeds-peer-limit", if f.encode_len() { "with-length" } else { "without-length" }, format!("side {i}: DATAGRAM frame of {frame_size} bytes ({} payload) sent, peer's max_datagram_frame_size is {peer_max}", d.len()), at);
                    }
                    out.stats.bump(if f.encode_len() { "probe.with_length_form" } else { "probe.without_length_form" });
                }
                match fate {
                    Fate::Lose => out.stats.bump("fault.loss"),
                    Fate::Hold => {
                        out.stats.bump("fault.delay");
                        s[1 - i].held.push(payload);
                    }
                    Fate::Deliver => deliver(&mut s, 1 - i, payload, case, &mut out, at, false),
                }
            }
            DOp::Release { to } => {
                let j = *to as usize;
                let held: Vec<Bytes> = s[j].held.drain(..).collect();
                for p in held {
                    out.stats.bump("op.released_late");
                    deliver(&mut s, j, p, case, &mut out, at, false);
                }
            }
            DOp::Forge { to, size, with_len } => {
                let j = *to as usize;
                let data = prf_vec(case.seed, 77_000 + step as u64, 0, *size as usize);
                let f = DatagramFrame::new(*with_len, VarInt::from_u32(*size));
                let mut pkt = Pkt::new(*size as usize + 16);
                use qbase::frame::io::WriteDataFrame;
                pkt.buf.put_data_frame(&f, &Bytes::from(data));
                deliver(&mut s, j, pkt.buf.freeze(), case, &mut out, at, true);
            }
            DOp::Read { at: a, how } => {
                let j = *a as usize;
                if s[j].reader.is_none() {
                    continue;
                }
                let task = s[j].rtask.clone();
                let mut reader = s[j].reader.take().unwrap();
                let mut big = vec![0u8; 70_200];
                let mut bm = bytes::BytesMut::new();
                let res: std::task::Poll<std::io::Result<Vec<u8>>> = match how % 3 {
                    0 => task.poll(&mut reader.recv()).map(|r| r.map(|b| b.to_vec())),
                    1 => task.poll(&mut reader.read_buf(&mut bm)).map(|r| r.map(|n| { let v = bm.to_vec(); debug_assert_eq!(v.len(), n); v })),
                    _ => task.poll(&mut reader.read(&mut big)).map(|r| r.map(|n| big[..n].to_vec())),
                };
                s[j].reader = Some(reader);
                match res {
                    std::task::Poll::Pending => {
                        th.add(2);
                        if !s[j].arrived.is_empty() {
                            out.violate("not-delivered", "read", format!("side {j}: read is pending with {} accepted datagrams unread", s[j].arrived.len()), at);
                        }
                        if s[j].dead {
                            out.violate("after-error", "read-pending", format!("side {j}: read is pending after a connection error"), at);
                        }
                        s[j].reader_pending = true;
                        s[j].rtask.take_woken();
                    }
                    std::task::Poll::Ready(Ok(got)) => {
                        th.add_bytes(&got);
                        s[j].reader_pending = false;
                        match s[j].arrived.pop_front() {
                            None => out.violate("phantom-datagram", "read", format!("side {j}: read returned {} bytes, nothing had arrived", got.len()), at),
                            Some(exp) => {
                                if got != exp {
                                    out.violate("payload-changed", "read", format!("side {j}: read returned {} bytes that differ from the next datagram that arrived ({} bytes)", got.len(), exp.len()), at);
                                } else {
                                    out.stats.bump("op.read_ok");
                                }
                            }
                        }
                    }
                    std::task::Poll::Ready(Err(_)) => {
                        th.add(3);
                        s[j].reader_pending = false;
                        if !s[j].dead {
                            out.violate("read-error", "read", format!("side {j}: read failed on an open connection"), at);
                        }
                    }
                }
            }
            DOp::ConnError { at: a } => {
                let j = *a as usize;
                kill(&mut s, j, &mut out, at);
            }
        }
        if step + 1 == flush_from || step + 1 == drain_from {
            th.add(0xF1);
        }
    }
    for (i, side) in s.iter().enumerate() {
        if !side.dead {
            if !side.queued.is_empty() {
                out.violate("stuck-in-queue", "quiescent", format!("side {i}: {} accepted datagrams never left the queue although the assembler offered 70 KB packets", side.queued.len()), ops.len() as u64);
            }
            if !side.arrived.is_empty() && side.reader.is_some() {
                out.violate("not-delivered", "quiescent", format!("side {i}: {} accepted datagrams were never returned to the reader", side.arrived.len()), ops.len() as u64);
            }
        }
    }
    out.trace_hash = th.get();
    out.nontrivial = out.stats.get("op.read_ok") > 0 && (out.stats.get("fault.loss") + out.stats.get("fault.delay") > 0);
    out
}

/// the connection `j` belongs to fails: both of its datagram halves are told, as `Connection::enter_closing` does
fn kill(s: &mut [Side; 2], j: usize, out: &mut Outcome, at: u64) {
    if s[j].dead {
        return;
    }
    s[j].flow.on_conn_error(&conn_error());
    s[j].dead = true;
    s[j].queued.clear();
    s[j].arrived.clear();
    if s[j].reader_pending && !s[j].rtask.take_woken() {
        out.violate("lost-wakeup", "reader-on-error", format!("side {j}: a pending read was not woken by the connection error"), at);
    }
    out.stats.bump("fault.conn_error");
}

fn deliver(s: &mut [Side; 2], j: usize, payload: Bytes, case: &DCase, out: &mut Outcome, at: u64, forged: bool) {
    let local_max = case.max[j];
    for item in FrameReader::new(payload, Type::Short(OneRtt(0.into()))) {
        let Ok((Frame::Datagram(f, d), _)) = item else { continue };
        let frame_size = (1 + if f.encode_len() { varint_len(d.len() as u64) } else { 0 } + d.len()) as u64;
        let flow = s[j].flow.clone();
        let res = match guarded(|| flow.recv_frame((f, d.clone()))) {
            Ok(r) => r,
            Err(rec) => {
                out.violate("no-panic", rec.site(), format!("recv_frame: {} at {}", rec.message, rec.location), at);
                return;
            }
        };
        if s[j].dead {
            // frames for a connection that already failed are dropped or refused; either is fine
            continue;
        }
        match res {
            Ok(()) => {
                if frame_size > local_max {
                    out.violate("oversize-accepted", if f.encode_len() { "with-length" } else { "without-length" }, format!("side {j}: received DATAGRAM frame of {frame_size} bytes accepted, local max_datagram_frame_size {local_max}"), at);
                }
                s[j].arrived.push_back(d.to_vec());
                if s[j].reader_pending {
                    if !s[j].rtask.take_woken() {
                        out.violate("lost-wakeup", "reader-on-arrival", format!("side {j}: a pending read was not woken by an arriving datagram"), at);
                    }
                    s[j].reader_pending = false;
                }
                out.stats.bump("op.arrived");
            }
            Err(e) => {
                if frame_size <= local_max {
                    out.violate("rejected-fitting", if forged { "forged" } else { "peer" }, format!("side {j}: DATAGRAM frame of {frame_size} bytes rejected ({:?}), local max_datagram_frame_size {local_max}", e.kind()), at);
                } else if e.kind() != ErrorKind::ProtocolViolation {
                    out.violate("error-kind", "oversize", format!("side {j}: oversize DATAGRAM answered with {:?}, RFC 9221 prescribes PROTOCOL_VIOLATION", e.kind()), at);
                } else {
                    out.stats.bump("probe.oversize_rejected_with_protocol_violation");
                }
                kill(s, j, out, at);
                return;
            }
        }
    }
}

impl Engine for DgramSim {
    type Case = DCase;
    fn name(&self) -> &'static str {
        "dgramsim"
    }
    fn components_real(&self) -> Vec<&'static str> {
        vec![
            "qdatagram::DatagramFlow x2 (DatagramOutgoing::try_load_data_into, DatagramWriter::send/send_bytes, DatagramIncoming::recv_datagram, DatagramReader::{recv,read,read_buf})",
            "qbase::frame::DatagramFrame encode (Package::dump) and decode (FrameReader)",
        ]
    }
    fn components_stub(&self) -> Vec<&'static str> {
        vec!["packet assembler (simulator decides remaining room and what was loaded before)", "network (loss / delay per packet)", "applications (manual polling with counting wakers)", "transport-parameter exchange (values handed over directly)"]
    }
    fn generate(&self, _index: u64, seed: u64, _tier: Tier) -> DCase {
        let mut r = Rng::derive(seed, "dgram");
        let pick_max = |r: &mut Rng| match r.below(10) {
            0 => 0,
            1 => r.range(1, 8),
            2 | 3 => r.range(9, 80),
            4 | 5 => *r.pick(&[63u64, 64, 65, 66, 67, 1200, 16383, 16384, 16385, 16386, 16387, 16388]),
            6 | 7 => r.range(81, 1500),
            _ => *r.pick(&[1200u64, 4096, 20_000, 65_535]),
        };
        let max = [pick_max(&mut r), pick_max(&mut r)];
        let n = r.range(1, 40) as usize;
        let p_loss = if r.one_in(2) { r.log_uniform(0.01, 0.5) } else { 0.0 };
        let p_hold = if r.one_in(3) { r.log_uniform(0.01, 0.4) } else { 0.0 };
        let hostile = r.one_in(3);
        let mut last_size = [0u32; 2];
        let mut ops = Vec::with_capacity(n);
        for _ in 0..n {
            let side = r.below(2) as u8;
            let peer_max = max[1 - side as usize];
            let op = match r.below(if hostile { 12 } else { 10 }) {
                0..=3 => {
                    // sizes around the limit and around the varint boundaries of the length field
                    let size = match r.below(8) {
                        0 => 0,
                        1 => peer_max.saturating_sub(r.below(4)),
                        2 => peer_max + r.below(3),
                        3 => *r.pick(&[62u64, 63, 64, 65, 16382, 16383, 16384, 16385]),
                        _ => r.below(peer_max.min(3000) + 2),
                    }
                    .min(66_000) as u32;
                    last_size[side as usize] = size;
                    DOp::Send { from: side, size, as_bytes: r.one_in(2) }
                }
                4..=6 => {
                    let l = last_size[side as usize];
                    // remaining room around the size of a recently queued datagram, or an ordinary packet
                    let room = match r.below(6) {
                        0 => l + r.below(12) as u32,
                        1 => l.saturating_sub(r.below(3) as u32),
                        2 => 1200,
                        3 => r.range(0, 1500) as u32,
                        4 => l + 1 + r.below(4) as u32,
                        _ => 70_100,
                    };
                    let pre = if r.one_in(3) { r.below(room as u64 + 1).min(40) as u32 } else { 0 };
                    let fate = if r.chance(p_loss) { Fate::Lose } else if r.chance(p_hold) { Fate::Hold } else { Fate::Deliver };
                    DOp::Assemble { from: side, room: room + pre, pre, repeat: !r.one_in(3), fate }
                }
                7 | 8 => DOp::Read { at: side, how: r.below(3) as u8 },
                9 => {
                    if r.one_in(6) {
                        DOp::ConnError { at: side }
                    } else {
                        DOp::Release { to: side }
                    }
                }
                _ => {
                    let lm = max[side as usize];
                    let size = match r.below(5) {
                        0 => lm.saturating_sub(r.below(5)),
                        1 => lm + r.below(4),
                        2 => r.below(lm + 10),
                        3 => 0,
                        _ => lm.saturating_sub(1 + varint_len(lm) as u64) + r.below(3),
                    }
                    .min(66_000) as u32;
                    DOp::Forge { to: side, size, with_len: r.one_in(2) }
                }
            };
            ops.push(op);
        }
        DCase { seed, max, ops }
    }
    fn execute(&self, case: &DCase) -> Outcome {
        run(case)
    }
    fn shrink(&self, case: &DCase) -> Vec<DCase> {
        let mut v = Vec::new();
        let n = case.ops.len();
        if n > 1 {
            for (a, b) in [(0, n / 2), (n / 2, n)] {
                let mut c = case.clone();
                c.ops.drain(a..b);
                v.push(c);
            }
        }
        for i in 0..n {
            let mut c = case.clone();
            c.ops.remove(i);
            v.push(c);
        }
        for i in 0..n {
            match &case.ops[i] {
                DOp::Assemble { from, room, pre, repeat, fate } if *fate != Fate::Deliver || *pre != 0 || *repeat => {
                    let mut c = case.clone();
                    c.ops[i] = DOp::Assemble { from: *from, room: *room - *pre, pre: 0, repeat: false, fate: Fate::Deliver };
                    v.push(c);
                }
                _ => {}
            }
        }
        v
    }
}
