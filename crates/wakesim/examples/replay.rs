//! `replay <file.json>...`: re-execute the minimised case of a replay file and print verdict and counters.
#[global_allocator]
static A: simcore::alloc::CountingAlloc = simcore::alloc::CountingAlloc;

use simcore::Engine;

fn main() {
    let mut bad = 0;
    for path in std::env::args().skip(1) {
        let text = std::fs::read_to_string(&path).expect("read replay file");
        let file: serde_json::Value = serde_json::from_str(&text).expect("json");
        let body = if file.get("case").is_some() { file.clone() } else { serde_json::json!({ "case": file, "run_seed": 0, "violation": {"signature": ""} }) };
        println!("{path}: expecting {}", body["violation"]["signature"]);
        let case: wakesim::Case = serde_json::from_value(body["case"].clone()).expect("case");
        for (k, op) in case.ops.iter().enumerate() {
            println!("  op {k}: {op:?}");
        }
        match simcore::engine::replay_case(&wakesim::WakeSim, &body) {
            Ok((same, sigs)) => {
                println!("  reproduced={same} signatures={sigs:?}");
                let out = wakesim::WakeSim.execute(&case);
                println!("  counters {:?}", out.stats.0);
                if !same && !body["violation"]["signature"].as_str().unwrap_or("").is_empty() {
                    bad += 1;
                }
            }
            Err(e) => {
                println!("  HARNESS ERROR {e}");
                bad += 1;
            }
        }
    }
    std::process::exit(if bad > 0 { 2 } else { 0 });
}
