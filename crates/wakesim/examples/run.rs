//! Stand-alone runner: `run [runs]` (default 200000). Exit code 1 if any violation or harness error was reported.
#[global_allocator]
static A: simcore::alloc::CountingAlloc = simcore::alloc::CountingAlloc;

fn main() {
    // `run --determinism N`: execute N cases twice each and compare trace hash, verdict and counters
    let args: Vec<String> = std::env::args().collect();
    if args.get(1).map(|s| s.as_str()) == Some("--determinism") {
        let n: u64 = args.get(2).and_then(|s| s.parse().ok()).unwrap_or(50_000);
        let ctx = simcore::Ctx {
            prop: "C16".into(),
            tier: simcore::Tier::Quick,
            root_seed: 1,
            threads: 8,
            known: Default::default(),
            replay_dir: "/var/tmp/selftest-replays".into(),
            started: std::time::Instant::now(),
        };
        let bad = simcore::engine::determinism_check(&ctx, &wakesim::WakeSim, n);
        println!("determinism: {n} cases x2, {} differ", bad.len());
        for (seed, what) in bad.iter().take(10) {
            println!("  seed {seed}: {what}");
        }
        std::process::exit(if bad.is_empty() { 0 } else { 2 });
    }
    let runs: u64 = std::env::args().nth(1).and_then(|s| s.parse().ok()).unwrap_or(200_000);
    println!("wakesim: {} enumerated interleavings, then seeded samples", wakesim::enumerated_total());
    for (name, scenarios, count) in wakesim::enumerated_summary() {
        println!("  enumerated {name}: {scenarios} scenarios, {count} interleavings");
    }
    let n = simcore::selftest::run(&wakesim::WakeSim, "C16", runs, simcore::Tier::Quick);
    if n > 0 {
        std::process::exit(1);
    }
}
