//! Protocols that live on `qrecovery::streams::DataStreams` (the only public way to obtain a `Reader`,
//! `Writer`, `Incoming`, `Outgoing` or `ArcListener`): open / accept, read, write, flush, shutdown and the
//! composite "load stream data, else wait_for(signals)" of the burst loop.
//!
//! Notifier calls go through the same entry points the connection uses (`recv_data`,
//! `recv_stream_control`, `on_data_acked`, `may_loss_data`, `try_load_data_into`, `revise_params`,
//! `on_conn_error`), each of which is one lock-protected operation on the stream it addresses.
use std::{cell::RefCell, future::poll_fn, rc::Rc};

use bytes::Bytes;
use qbase::{
    flow::ArcSendControler,
    frame::{
        MaxDataFrame, MaxStreamDataFrame, MaxStreamsFrame, ReliableFrame, ResetStreamFrame, StopSendingFrame,
        StreamCtlFrame, StreamFrame, io::ReceiveFrame,
    },
    net::tx::{ArcSendWaker, ArcSendWakers, Signals},
    param::handy,
    role::Role,
    sid::{Dir, StreamId, handy::ConsistentConcurrency},
    varint::VarInt,
};
use qrecovery::{
    recv::Reader,
    reliable::ArcReliableFrameDeque,
    send::Writer,
    streams::{DataStreams, Ext},
};

use crate::{
    basic::{ParamsDriver, Rel, conn_error, noop_cx, pathway, server_params},
    pkt::Pkt,
    proto::{Act, Fired, Fut, Proto, Yielder, burst_loop},
};

#[derive(Clone, Copy, PartialEq, Eq, Debug)]
pub enum Mode {
    OpenBi,
    OpenUni,
    AcceptBi,
    AcceptUni,
    Read,
    Write,
    Flush,
    Shutdown,
    Composite,
    CompositeConnFlow,
    CompositeWindow,
}

impl Mode {
    fn composite(self) -> bool {
        matches!(self, Mode::Composite | Mode::CompositeConnFlow | Mode::CompositeWindow)
    }
}

type Eval = Rc<dyn Fn() -> Result<(), Signals>>;

pub struct PStreams {
    mode: Mode,
    ds: DataStreams<Rel>,
    pd: ParamsDriver,
    flow: ArcSendControler<Rel>,
    tx_waker: ArcSendWaker,
    revised: bool,
    ds_failed: bool,
    sid: Option<StreamId>,
    reader: Option<Rc<RefCell<Reader<Ext<Rel>>>>>,
    writer: Option<Rc<RefCell<Writer<Ext<Rel>>>>>,
    sent: Rc<RefCell<Vec<StreamFrame>>>,
    eval: Eval,
    // receive side bookkeeping of the one opened stream
    rx_off: u64,
    rx_largest: u64,
    gap: bool,
    fin_at: Option<u64>,
    reset_done: bool,
    // limits handed out so far
    max_streams: [u32; 2],
    stream_window: u64,
    max_data: u64,
    remote_next: [u64; 2],
}

impl PStreams {
    pub fn new(mode: Mode) -> Self {
        let all = ArcSendWakers::new();
        let tx_waker = ArcSendWaker::new();
        all.insert(pathway(0), &tx_waker);
        let rel: Rel = ArcReliableFrameDeque::with_capacity_and_wakers(8, all.clone());
        // what the peer (a server) will announce
        let (peer_streams, peer_window, peer_max_data) = match mode {
            Mode::OpenBi | Mode::OpenUni => (1, 64, 1 << 20),
            Mode::Composite | Mode::CompositeConnFlow => (4, 8, 6),
            _ => (4, 8, 1 << 20),
        };
        let peer = server_params(peer_streams, peer_window, peer_max_data);
        let pd = ParamsDriver::new(false, peer.clone());
        // as qconnection::builder does for a client without remembered parameters: the stream machinery is
        // built against default (all-zero) peer parameters and revised when the real ones arrive
        let local = handy::client_parameters();
        let default_peer = qbase::param::ServerParameters::default();
        let ds = DataStreams::new(
            Role::Client,
            &local,
            &default_peer,
            Box::new(ConsistentConcurrency::new(100, 100)),
            rel.clone(),
            all.clone(),
            None,
        );
        let flow = ArcSendControler::new(0, rel.clone(), all.clone());
        let sent: Rc<RefCell<Vec<StreamFrame>>> = Default::default();
        let eval: Eval = {
            let (ds, flow, sent) = (ds.clone(), flow.clone(), sent.clone());
            Rc::new(move || {
                let mut pkt = Pkt::new(1200);
                let r = ds.try_load_data_into(&mut pkt, &flow, false);
                sent.borrow_mut().extend(pkt.streams.iter().cloned());
                r
            })
        };
        let mut me = Self {
            mode,
            ds,
            pd,
            flow,
            tx_waker,
            revised: false,
            ds_failed: false,
            sid: None,
            reader: None,
            writer: None,
            sent,
            eval,
            rx_off: 0,
            rx_largest: 0,
            gap: false,
            fin_at: None,
            reset_done: false,
            max_streams: [8, 8],
            stream_window: peer_window as u64,
            max_data: peer_max_data as u64,
            remote_next: [0, 0],
        };
        if matches!(mode, Mode::Read | Mode::Write | Mode::Flush | Mode::Shutdown) || mode.composite() {
            me.setup_stream();
        }
        me
    }

    /// handshake done, one bidirectional stream opened by the application
    fn setup_stream(&mut self) {
        self.pd.act(Act::RecvRemoteParams);
        self.pd.act(Act::InitialScid);
        self.act(Act::ReviseParams);
        let res = {
            let (ds, params) = (self.ds.clone(), self.pd.params.clone());
            let mut open = Box::pin(ds.open_bi(&params));
            std::future::Future::poll(open.as_mut(), &mut noop_cx())
        };
        match res {
            std::task::Poll::Ready(Ok(Some((sid, (reader, writer))))) => {
                self.sid = Some(sid);
                self.reader = Some(Rc::new(RefCell::new(reader)));
                self.writer = Some(Rc::new(RefCell::new(writer)));
            }
            _ => panic!("wakesim setup: open_bi must succeed once the parameters are applied"),
        }
        match self.mode {
            // fill the send window so that the next write has to wait for MAX_STREAM_DATA
            Mode::Write => self.app_write(self.stream_window as usize),
            // something to flush / to finish
            Mode::Flush | Mode::Shutdown => self.app_write(6),
            Mode::CompositeConnFlow => {
                self.app_write(8);
                let _ = (self.eval)();
            }
            Mode::CompositeWindow => {
                self.app_write(12);
                let _ = (self.eval)();
            }
            _ => {}
        }
    }

    fn app_write(&mut self, n: usize) {
        if let Some(w) = &self.writer {
            let _ = w.borrow_mut().poll_write(&mut noop_cx(), Bytes::from(vec![0x61; n]));
        }
    }

    fn ctl(&self, f: impl Into<StreamCtlFrame>) {
        let _ = self.ds.recv_frame(f.into());
    }
}

impl Proto for PStreams {
    fn spawn(&mut self, _i: usize, y: &Yielder) -> Fut {
        let ds = self.ds.clone();
        let params = self.pd.params.clone();
        match self.mode {
            Mode::OpenBi => Box::pin(async move {
                let _ = ds.open_bi(&params).await;
            }),
            Mode::OpenUni => Box::pin(async move {
                let _ = ds.open_uni(&params).await;
            }),
            Mode::AcceptBi => Box::pin(async move {
                let _ = ds.accept_bi(&params).await;
            }),
            Mode::AcceptUni => Box::pin(async move {
                let _ = ds.accept_uni().await;
            }),
            Mode::Read => {
                let r = self.reader.clone().expect("setup");
                Box::pin(poll_fn(move |cx| {
                    let mut b = [0u8; 3];
                    let mut s = &mut b[..];
                    r.borrow_mut().poll_read(cx, &mut s).map(|_| ())
                }))
            }
            Mode::Write => {
                let w = self.writer.clone().expect("setup");
                Box::pin(poll_fn(move |cx| w.borrow_mut().poll_write(cx, Bytes::from_static(b"abcd")).map(|_| ())))
            }
            Mode::Flush => {
                let w = self.writer.clone().expect("setup");
                Box::pin(poll_fn(move |cx| w.borrow_mut().poll_flush(cx).map(|_| ())))
            }
            Mode::Shutdown => {
                let w = self.writer.clone().expect("setup");
                Box::pin(poll_fn(move |cx| w.borrow_mut().poll_shutdown(cx).map(|_| ())))
            }
            Mode::Composite | Mode::CompositeConnFlow | Mode::CompositeWindow => {
                burst_loop(y, self.tx_waker.clone(), self.eval.clone())
            }
        }
    }

    fn audit_condition(&mut self, _i: usize) -> Option<bool> {
        self.mode.composite().then(|| (self.eval)().is_ok())
    }

    fn act(&mut self, a: Act) -> Fired {
        match a {
            Act::RecvRemoteParams | Act::InitialScid => self.pd.act(a),
            Act::ParamsConnError => match self.pd.act(a) {
                Fired::Close if self.ds_failed => Fired::Close,
                Fired::Close => Fired::ClosePart,
                other => other,
            },
            Act::DsConnError if !self.ds_failed => {
                self.ds_failed = true;
                self.ds.on_conn_error(&conn_error());
                if self.pd.failed { Fired::Close } else { Fired::ClosePart }
            }
            // qconnection applies the peer's parameters right after they became ready
            Act::ReviseParams if self.pd.ready() && !self.revised => {
                self.revised = true;
                self.ds.revise_params(false, &self.pd.peer_server);
                self.flow.revise_max_data(false, self.max_data);
                Fired::Done
            }
            Act::MaxStreamsBi | Act::MaxStreamsUni => {
                let (dir, k) = if a == Act::MaxStreamsBi { (Dir::Bi, 0) } else { (Dir::Uni, 1) };
                self.max_streams[k] += 1;
                self.ctl(MaxStreamsFrame::with(dir, VarInt::from_u32(self.max_streams[k])));
                Fired::Done
            }
            Act::RecvStreamBi | Act::RecvStreamUni => {
                let (dir, k) = if a == Act::RecvStreamBi { (Dir::Bi, 0) } else { (Dir::Uni, 1) };
                if self.remote_next[k] >= 50 {
                    return Fired::Nop;
                }
                let sid = StreamId::new(Role::Server, dir, self.remote_next[k]);
                self.remote_next[k] += 1;
                let _ = self.ds.recv_frame((StreamFrame::new(sid, 0, 1), Bytes::from_static(b"x")));
                Fired::Done
            }
            Act::RecvData
                if self.sid.is_some() && (self.fin_at.is_none() || self.gap) && !self.reset_done && self.rx_off < 4000 =>
            {
                // next in-order chunk; when a hole is open, exactly the hole
                let frame = StreamFrame::new(self.sid.unwrap(), self.rx_off, 4);
                self.rx_off += if self.gap { 8 } else { 4 };
                self.gap = false;
                self.rx_largest = self.rx_largest.max(self.rx_off);
                let _ = self.ds.recv_frame((frame, Bytes::from(vec![0x62; 4])));
                Fired::Done
            }
            Act::RecvDataGap
                if self.sid.is_some() && self.fin_at.is_none() && !self.reset_done && !self.gap && self.rx_off < 4000 =>
            {
                self.gap = true;
                let frame = StreamFrame::new(self.sid.unwrap(), self.rx_off + 4, 4);
                self.rx_largest = self.rx_largest.max(self.rx_off + 8);
                let _ = self.ds.recv_frame((frame, Bytes::from(vec![0x63; 4])));
                Fired::Done
            }
            Act::RecvFin if self.sid.is_some() && self.fin_at.is_none() && !self.reset_done => {
                let at = self.rx_largest;
                self.fin_at = Some(at);
                let mut frame = StreamFrame::new(self.sid.unwrap(), at, 0);
                frame.set_eos_flag(true);
                let _ = self.ds.recv_frame((frame, Bytes::new()));
                // a hole may remain before `at`: then the stream is SizeKnown and still unreadable
                Fired::Done
            }
            Act::RecvResetStream if self.sid.is_some() && !self.reset_done => {
                self.reset_done = true;
                let final_size = self.fin_at.unwrap_or(self.rx_largest);
                self.ctl(ResetStreamFrame::new(
                    self.sid.unwrap(),
                    VarInt::from_u32(3),
                    VarInt::from_u64(final_size).unwrap(),
                ));
                Fired::Done
            }
            Act::StreamAppWrite if self.writer.is_some() => {
                self.app_write(4);
                Fired::Done
            }
            Act::StreamAppShutdown if self.writer.is_some() => {
                let _ = self.writer.as_ref().unwrap().borrow_mut().poll_shutdown(&mut noop_cx());
                Fired::Done
            }
            Act::MaxStreamData if self.sid.is_some() => {
                self.stream_window += 8;
                self.ctl(MaxStreamDataFrame::new(self.sid.unwrap(), VarInt::from_u64(self.stream_window).unwrap()));
                Fired::Done
            }
            Act::MaxData => {
                self.max_data += 8;
                let _ = self.flow.recv_frame(MaxDataFrame::new(VarInt::from_u64(self.max_data).unwrap()));
                Fired::Done
            }
            Act::StopSending if self.sid.is_some() => {
                self.ctl(StopSendingFrame::new(self.sid.unwrap(), VarInt::from_u32(5)));
                Fired::Done
            }
            Act::Transmit => {
                let _ = (self.eval)();
                Fired::Done
            }
            Act::AckOne => {
                let f = {
                    let mut s = self.sent.borrow_mut();
                    if s.is_empty() { None } else { Some(s.remove(0)) }
                };
                match f {
                    Some(f) => {
                        self.ds.on_data_acked(f);
                        Fired::Done
                    }
                    None => Fired::Nop,
                }
            }
            Act::LoseOne => {
                let f = {
                    let mut s = self.sent.borrow_mut();
                    if s.is_empty() { None } else { Some(s.remove(0)) }
                };
                match f {
                    Some(f) => {
                        self.ds.may_loss_data(&f);
                        Fired::Done
                    }
                    None => Fired::Nop,
                }
            }
            _ => Fired::Nop,
        }
    }
}

#[allow(dead_code)]
fn _assert_types(_: ReliableFrame) {}
