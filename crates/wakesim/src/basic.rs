//! Protocols that live on a single small object of qbase / qrecovery / qdatagram / qconnection.
use std::{
    cell::{Cell, RefCell},
    future::{Future, poll_fn},
    net::SocketAddr,
    pin::Pin,
    rc::Rc,
    sync::Arc,
    task::{Context, Poll},
};

use bytes::Bytes;
use qbase::{
    cid::{ArcCidCell, ArcRemoteCids, ConnectionId},
    error::{Error, ErrorKind, QuicError},
    frame::{
        CryptoFrame, DatagramFrame, MaxDataFrame, MaxStreamsFrame, NewConnectionIdFrame, PathChallengeFrame,
        ReliableFrame,
        io::{ReceiveFrame, SendFrame},
    },
    net::{
        addr::EndpointAddr,
        route::Pathway,
        tx::{ArcSendWaker, ArcSendWakers, Signals},
    },
    packet::keys::{ArcKeys, ArcOneRttKeys, ArcZeroRttKeys},
    param::{ArcParameters, ClientParameters, ParameterId, Parameters, ServerParameters, handy},
    role::Role,
    sid::{ArcLocalStreamIds, Dir},
    util::{ArcAsyncDeque, BoundQueue, Wakers},
    varint::VarInt,
};
use qconnection::path::{AntiAmplifier, RecvBuffer, SendBuffer};
use qdatagram::{DatagramFlow, DatagramReader, DatagramWriter};
use qrecovery::{crypto::CryptoStream, reliable::ArcReliableFrameDeque};
use tokio::io::{AsyncRead, AsyncWrite, ReadBuf};

use crate::{
    pkt::{Pkt, Sink},
    proto::{Act, Fired, Fut, Proto, Yielder, burst_loop},
    tlskeys,
};

pub fn noop_cx() -> Context<'static> {
    Context::from_waker(futures::task::noop_waker_ref())
}

pub fn conn_error() -> Error {
    Error::Quic(QuicError::with_default_fty(ErrorKind::Internal, "wakesim: connection failed"))
}

pub fn pathway(i: u16) -> Pathway {
    let l: SocketAddr = format!("127.0.0.1:{}", 1000 + i).parse().unwrap();
    let r: SocketAddr = "127.0.0.2:443".parse().unwrap();
    Pathway::new(EndpointAddr::direct(l), EndpointAddr::direct(r))
}

pub type Rel = ArcReliableFrameDeque<ReliableFrame>;

// ---------------------------------------------------------------------------------------------------
// SendWaker / SendWakers

pub struct PSendWaker {
    w: ArcSendWaker,
}

impl PSendWaker {
    pub fn new() -> Self {
        Self { w: ArcSendWaker::new() }
    }
}

impl Proto for PSendWaker {
    fn spawn(&mut self, _i: usize, _y: &Yielder) -> Fut {
        let w = self.w.clone();
        Box::pin(async move { w.wait_for(Signals::CONGESTION | Signals::TRANSPORT).await })
    }
    fn act(&mut self, a: Act) -> Fired {
        match a {
            Act::WakeBy(bits) => {
                self.w.wake_by(Signals::from_bits_truncate(bits));
                Fired::Done
            }
            _ => Fired::Nop,
        }
    }
}

pub struct PSendWakers {
    all: ArcSendWakers,
    paths: Vec<ArcSendWaker>,
}

impl PSendWakers {
    pub fn new() -> Self {
        let all = ArcSendWakers::new();
        let paths: Vec<ArcSendWaker> = (0..3).map(|_| ArcSendWaker::new()).collect();
        for (i, w) in paths.iter().enumerate() {
            all.insert(pathway(i as u16), w);
        }
        Self { all, paths }
    }
}

impl Proto for PSendWakers {
    fn spawn(&mut self, i: usize, _y: &Yielder) -> Fut {
        let w = self.paths[i % 3].clone();
        let want = match i % 3 {
            0 => Signals::TRANSPORT,
            1 => Signals::TRANSPORT | Signals::WRITTEN,
            _ => Signals::FLOW_CONTROL,
        };
        Box::pin(async move { w.wait_for(want).await })
    }
    fn act(&mut self, a: Act) -> Fired {
        match a {
            Act::WakeAllBy(bits) => {
                self.all.wake_all_by(Signals::from_bits_truncate(bits));
                Fired::Done
            }
            _ => Fired::Nop,
        }
    }
}

// ---------------------------------------------------------------------------------------------------
// composite waits

type Eval = Rc<dyn Fn() -> Result<(), Signals>>;

pub struct PCompSendBuffer {
    w: ArcSendWaker,
    sb: Rc<SendBuffer<PathChallengeFrame>>,
    eval: Eval,
}

impl PCompSendBuffer {
    pub fn new() -> Self {
        let w = ArcSendWaker::new();
        let sb: Rc<SendBuffer<PathChallengeFrame>> = Rc::new(SendBuffer::new(w.clone()));
        let eval: Eval = {
            let sb = sb.clone();
            Rc::new(move || sb.try_load_frames_into(&mut Pkt::new(1200)))
        };
        Self { w, sb, eval }
    }
}

impl Proto for PCompSendBuffer {
    fn spawn(&mut self, _i: usize, y: &Yielder) -> Fut {
        burst_loop(y, self.w.clone(), self.eval.clone())
    }
    fn audit_condition(&mut self, _i: usize) -> Option<bool> {
        Some((self.eval)().is_ok())
    }
    fn act(&mut self, a: Act) -> Fired {
        match a {
            Act::SendBufWrite => {
                self.sb.write(PathChallengeFrame::from_slice(&[7; 8]));
                Fired::Done
            }
            _ => Fired::Nop,
        }
    }
}

pub struct PCompAa {
    w: ArcSendWaker,
    aa: Rc<AntiAmplifier<3>>,
    eval: Eval,
    over: bool,
}

impl PCompAa {
    pub fn new() -> Self {
        let w = ArcSendWaker::new();
        let aa = Rc::new(AntiAmplifier::<3>::new(w.clone()));
        let eval: Eval = {
            let aa = aa.clone();
            Rc::new(move || match aa.balance() {
                Ok(Some(credit)) => {
                    if credit != usize::MAX {
                        // the burst sends what the credit allows
                        aa.on_sent(credit.min(1200));
                    }
                    Ok(())
                }
                // path deactivated: the burst task ends
                Ok(None) => Ok(()),
                Err(s) => Err(s),
            })
        };
        Self { w, aa, eval, over: false }
    }
}

impl Proto for PCompAa {
    fn spawn(&mut self, _i: usize, y: &Yielder) -> Fut {
        burst_loop(y, self.w.clone(), self.eval.clone())
    }
    fn audit_condition(&mut self, _i: usize) -> Option<bool> {
        // read-only re-evaluation
        Some(!matches!(self.aa.balance(), Err(_)))
    }
    fn act(&mut self, a: Act) -> Fired {
        match a {
            Act::AaOnRcvd => {
                self.aa.on_rcvd(100);
                Fired::Done
            }
            Act::AaGrant => {
                self.aa.grant();
                Fired::Done
            }
            Act::AaAbort if !self.over => {
                self.over = true;
                self.aa.abort();
                Fired::Close
            }
            _ => Fired::Nop,
        }
    }
}

pub struct PCompCid {
    w: ArcSendWaker,
    remote: ArcRemoteCids<Sink>,
    cell: ArcCidCell<Sink>,
    initial_cell: ArcCidCell<Sink>,
    eval: Eval,
    initial_applied: bool,
    next_seq: u32,
    retired: bool,
}

impl PCompCid {
    /// `new_cid == false`: the waiter's cell waits for the initial dcid; `true`: a second path's cell waits
    /// for a NEW_CONNECTION_ID frame.
    pub fn new(new_cid: bool) -> Self {
        let w = ArcSendWaker::new();
        let remote = ArcRemoteCids::new(8, Sink);
        let initial_cell = remote.apply_dcid();
        let mut initial_applied = false;
        let cell = if new_cid {
            remote.apply_initial_dcid(ConnectionId::from_slice(&[1; 8]), &initial_cell);
            initial_applied = true;
            remote.apply_dcid()
        } else {
            initial_cell.clone()
        };
        let eval: Eval = {
            let cell = cell.clone();
            let w = w.clone();
            Rc::new(move || match cell.borrow_cid(w.clone()) {
                Ok(Some(borrowed)) => {
                    drop(borrowed);
                    Ok(())
                }
                Ok(None) => Ok(()),
                Err(s) => Err(s),
            })
        };
        Self { w, remote, cell, initial_cell, eval, initial_applied, next_seq: 1, retired: false }
    }
}

impl Proto for PCompCid {
    fn spawn(&mut self, _i: usize, y: &Yielder) -> Fut {
        burst_loop(y, self.w.clone(), self.eval.clone())
    }
    fn audit_condition(&mut self, _i: usize) -> Option<bool> {
        Some((self.eval)().is_ok())
    }
    fn act(&mut self, a: Act) -> Fired {
        match a {
            // documented precondition: before any NEW_CONNECTION_ID frame is processed
            Act::CidApplyInitial if !self.initial_applied && self.next_seq == 1 => {
                self.initial_applied = true;
                self.remote.apply_initial_dcid(ConnectionId::from_slice(&[1; 8]), &self.initial_cell);
                Fired::Done
            }
            Act::CidNew | Act::CidNewRetiring if self.initial_applied && self.next_seq <= 6 => {
                let seq = self.next_seq;
                self.next_seq += 1;
                let rpt = if a == Act::CidNewRetiring { seq } else { 0 };
                let frame = NewConnectionIdFrame::new(
                    ConnectionId::from_slice(&[seq as u8 + 1; 8]),
                    VarInt::from_u32(seq),
                    VarInt::from_u32(rpt),
                );
                let _ = self.remote.recv_frame(frame);
                Fired::Done
            }
            Act::CidRetire if !self.retired => {
                self.retired = true;
                self.cell.retire();
                Fired::Close
            }
            _ => Fired::Nop,
        }
    }
}

pub struct PCompReliable {
    paths: Vec<ArcSendWaker>,
    deque: Rel,
    eval: Eval,
    n: u32,
}

impl PCompReliable {
    pub fn new() -> Self {
        let all = ArcSendWakers::new();
        let paths: Vec<ArcSendWaker> = (0..2).map(|_| ArcSendWaker::new()).collect();
        for (i, w) in paths.iter().enumerate() {
            all.insert(pathway(i as u16), w);
        }
        let deque: Rel = ArcReliableFrameDeque::with_capacity_and_wakers(4, all);
        let eval: Eval = {
            let d = deque.clone();
            Rc::new(move || d.try_load_frames_into(&mut Pkt::new(1200)))
        };
        Self { paths, deque, eval, n: 0 }
    }
}

impl Proto for PCompReliable {
    fn spawn(&mut self, i: usize, y: &Yielder) -> Fut {
        burst_loop(y, self.paths[i % 2].clone(), self.eval.clone())
    }
    fn audit_condition(&mut self, _i: usize) -> Option<bool> {
        Some((self.eval)().is_ok())
    }
    fn act(&mut self, a: Act) -> Fired {
        match a {
            Act::ReliableSend => {
                self.n += 1;
                self.deque.send_frame([MaxDataFrame::new(VarInt::from_u32(self.n))]);
                Fired::Done
            }
            _ => Fired::Nop,
        }
    }
}

// ---------------------------------------------------------------------------------------------------
// crypto stream: reader, writer flush, composite load

#[derive(Clone, Copy, PartialEq, Eq)]
pub enum CryptoMode {
    Composite,
    Read,
    Flush,
}

pub struct PCrypto {
    mode: CryptoMode,
    w: ArcSendWaker,
    cs: CryptoStream,
    sent: Rc<RefCell<Vec<CryptoFrame>>>,
    eval: Eval,
    rx_off: u64,
    gap: bool,
}

impl PCrypto {
    pub fn new(mode: CryptoMode) -> Self {
        let all = ArcSendWakers::new();
        let w = ArcSendWaker::new();
        all.insert(pathway(0), &w);
        let cs = CryptoStream::new(all);
        let sent: Rc<RefCell<Vec<CryptoFrame>>> = Default::default();
        let eval: Eval = {
            let out = cs.outgoing();
            let sent = sent.clone();
            Rc::new(move || {
                let mut pkt = Pkt::new(1200);
                let r = out.try_load_data_into(&mut pkt, false);
                sent.borrow_mut().extend(pkt.cryptos.iter().cloned());
                r
            })
        };
        if mode == CryptoMode::Flush {
            // the TLS task wrote a flight before it flushes
            let mut wr = cs.writer();
            let _ = Pin::new(&mut wr).poll_write(&mut noop_cx(), b"client hello");
        }
        Self { mode, w, cs, sent, eval, rx_off: 0, gap: false }
    }
}

impl Proto for PCrypto {
    fn spawn(&mut self, _i: usize, y: &Yielder) -> Fut {
        match self.mode {
            CryptoMode::Composite => burst_loop(y, self.w.clone(), self.eval.clone()),
            CryptoMode::Read => {
                let mut r = self.cs.reader();
                Box::pin(poll_fn(move |cx| {
                    let mut b = [0u8; 16];
                    let mut rb = ReadBuf::new(&mut b);
                    Pin::new(&mut r).poll_read(cx, &mut rb).map(|_| ())
                }))
            }
            CryptoMode::Flush => {
                let mut wr = self.cs.writer();
                Box::pin(poll_fn(move |cx| Pin::new(&mut wr).poll_flush(cx).map(|_| ())))
            }
        }
    }
    fn audit_condition(&mut self, _i: usize) -> Option<bool> {
        match self.mode {
            CryptoMode::Composite => Some((self.eval)().is_ok()),
            _ => None,
        }
    }
    fn act(&mut self, a: Act) -> Fired {
        match a {
            // only in the composite protocol: there no task ever parks in the writer, so the writer's
            // "same task" assertion cannot be violated by the harness
            Act::CryptoWrite if self.mode == CryptoMode::Composite => {
                let mut wr = self.cs.writer();
                let _ = Pin::new(&mut wr).poll_write(&mut noop_cx(), b"hs");
                Fired::Done
            }
            Act::CryptoTransmit => {
                let _ = (self.eval)();
                Fired::Done
            }
            Act::CryptoAck => {
                let f = self.sent.borrow_mut().pop();
                match f {
                    Some(f) => {
                        self.cs.outgoing().on_data_acked(&f);
                        Fired::Done
                    }
                    None => Fired::Nop,
                }
            }
            Act::CryptoLoss => {
                let f = self.sent.borrow_mut().pop();
                match f {
                    Some(f) => {
                        self.cs.outgoing().may_loss_data(&f);
                        Fired::Done
                    }
                    None => Fired::Nop,
                }
            }
            Act::CryptoRecv => {
                let (off, len) = if self.gap { (self.rx_off, 8) } else { (self.rx_off, 4) };
                self.gap = false;
                self.rx_off += len;
                let _ = self.cs.incoming().recv_frame((
                    CryptoFrame::new(VarInt::from_u64(off).unwrap(), VarInt::from_u64(len).unwrap()),
                    Bytes::from(vec![0x5a; len as usize]),
                ));
                Fired::Done
            }
            Act::CryptoRecvGap if !self.gap => {
                self.gap = true;
                let _ = self.cs.incoming().recv_frame((
                    CryptoFrame::new(VarInt::from_u64(self.rx_off + 4).unwrap(), VarInt::from_u32(4)),
                    Bytes::from(vec![0x5b; 4]),
                ));
                Fired::Done
            }
            _ => Fired::Nop,
        }
    }
}

// ---------------------------------------------------------------------------------------------------
// datagrams: reader, composite load

pub struct PDatagram {
    composite: bool,
    paths: Vec<ArcSendWaker>,
    flow: DatagramFlow,
    reader: DatagramReader,
    writer: DatagramWriter,
    eval: Eval,
    closed: bool,
}

impl PDatagram {
    pub fn new(composite: bool) -> Self {
        let all = ArcSendWakers::new();
        let paths: Vec<ArcSendWaker> = (0..2).map(|_| ArcSendWaker::new()).collect();
        for (i, w) in paths.iter().enumerate() {
            all.insert(pathway(i as u16), w);
        }
        let flow = DatagramFlow::new(1200, all);
        let reader = flow.reader().expect("datagrams enabled");
        let writer = flow.writer(1200).expect("datagrams enabled");
        let eval: Eval = {
            let flow = flow.clone();
            Rc::new(move || flow.try_load_data_into(&mut Pkt::new(1200)))
        };
        Self { composite, paths, flow, reader, writer, eval, closed: false }
    }
}

impl Proto for PDatagram {
    fn spawn(&mut self, i: usize, y: &Yielder) -> Fut {
        if self.composite {
            burst_loop(y, self.paths[i % 2].clone(), self.eval.clone())
        } else {
            let mut r = self.reader.clone();
            Box::pin(async move {
                let _ = r.recv().await;
            })
        }
    }
    fn audit_condition(&mut self, _i: usize) -> Option<bool> {
        self.composite.then(|| (self.eval)().is_ok())
    }
    fn act(&mut self, a: Act) -> Fired {
        match a {
            Act::DgSend => {
                let _ = self.writer.send(b"datagram");
                Fired::Done
            }
            Act::DgRecv => {
                let data = Bytes::from_static(b"datagram");
                let _ = self.flow.recv_frame((DatagramFrame::new(true, VarInt::from_u32(data.len() as u32)), data));
                Fired::Done
            }
            Act::DgConnError if !self.closed && !self.composite => {
                self.closed = true;
                self.flow.on_conn_error(&conn_error());
                Fired::Close
            }
            _ => Fired::Nop,
        }
    }
}

// ---------------------------------------------------------------------------------------------------
// ArcAsyncDeque, Wakers::combine_with, RecvBuffer

#[derive(Clone, Copy, PartialEq, Eq)]
pub enum DequeMode {
    Plain,
    Combined,
}

pub struct PDeque {
    mode: DequeMode,
    d: ArcAsyncDeque<u32>,
    wakers: Arc<Wakers<4>>,
    n: u32,
}

impl PDeque {
    pub fn new(mode: DequeMode) -> Self {
        Self { mode, d: ArcAsyncDeque::new(), wakers: Arc::new(Wakers::new()), n: 0 }
    }
}

impl Proto for PDeque {
    fn spawn(&mut self, _i: usize, _y: &Yielder) -> Fut {
        let d = self.d.clone();
        match self.mode {
            DequeMode::Plain => Box::pin(async move {
                let _ = d.pop().await;
            }),
            DequeMode::Combined => {
                // how qinterface::io::handy shares one single-waker source among tasks
                let wk = self.wakers.clone();
                Box::pin(poll_fn(move |cx| wk.combine_with(cx, |cx| d.poll_pop(cx)).map(|_| ())))
            }
        }
    }
    fn act(&mut self, a: Act) -> Fired {
        self.n += 1;
        match a {
            Act::PushBack => self.d.push_back(self.n),
            Act::PushFront => self.d.push_front(self.n),
            Act::Extend => (&self.d).extend([self.n, self.n + 1]),
            Act::DequeClose => {
                self.d.close();
                return Fired::Close;
            }
            _ => return Fired::Nop,
        }
        Fired::Done
    }
}

pub struct PRecvBuffer {
    rb: RecvBuffer<u32>,
}

impl PRecvBuffer {
    pub fn new() -> Self {
        Self { rb: RecvBuffer::new() }
    }
}

impl Proto for PRecvBuffer {
    fn spawn(&mut self, _i: usize, _y: &Yielder) -> Fut {
        let rb = self.rb.clone();
        Box::pin(async move {
            let _ = rb.receive().await;
        })
    }
    fn act(&mut self, a: Act) -> Fired {
        match a {
            Act::RbWrite => {
                self.rb.write(1);
                Fired::Done
            }
            Act::RbDismiss => {
                self.rb.dismiss();
                Fired::Close
            }
            _ => Fired::Nop,
        }
    }
}

// ---------------------------------------------------------------------------------------------------
// BoundQueue

pub struct PBoundQueue {
    senders: bool,
    q: BoundQueue<u32>,
    closed: bool,
}

impl PBoundQueue {
    pub fn new(senders: bool) -> Self {
        let q = BoundQueue::new(if senders { 1 } else { 2 });
        if senders {
            // fill the queue so that the next `send` has to wait for the receiver
            let _ = q.try_send(0);
        }
        Self { senders, q, closed: false }
    }
}

impl Proto for PBoundQueue {
    fn spawn(&mut self, i: usize, _y: &Yielder) -> Fut {
        let q = self.q.clone();
        if self.senders {
            Box::pin(async move {
                let _ = q.send(i as u32 + 1).await;
            })
        } else {
            Box::pin(async move {
                let _ = q.recv().await;
            })
        }
    }
    fn act(&mut self, a: Act) -> Fired {
        match a {
            Act::BqTrySend => {
                let _ = self.q.try_send(9);
                Fired::Done
            }
            Act::BqRecvOne => {
                // the (single) consumer takes one element if there is one
                let q = self.q.clone();
                let mut f = Box::pin(async move { q.recv().await });
                let _ = f.as_mut().poll(&mut noop_cx());
                Fired::Done
            }
            Act::BqClose if !self.closed => {
                self.closed = true;
                self.q.close();
                Fired::Close
            }
            _ => Fired::Nop,
        }
    }
}

/// side observation (not a C16 clause): how many `try_send`s a `BoundQueue::new(cap)` accepts with nobody receiving
pub fn bound_queue_accepts(cap: usize, tries: usize) -> usize {
    let q = BoundQueue::new(cap);
    (0..tries).filter(|i| q.try_send(*i as u32).is_ok()).count()
}

// ---------------------------------------------------------------------------------------------------
// ArcReceiving

pub struct PReceiving {
    r: qbase::ArcReceiving<u32>,
}

impl PReceiving {
    pub fn new() -> Self {
        Self { r: Default::default() }
    }
}

impl Proto for PReceiving {
    fn spawn(&mut self, _i: usize, _y: &Yielder) -> Fut {
        let r = self.r.clone();
        Box::pin(async move {
            let _ = r.await;
        })
    }
    fn act(&mut self, a: Act) -> Fired {
        match a {
            Act::RecvFrame => {
                let _ = self.r.recv_frame(7);
                Fired::Done
            }
            Act::RecvReset => {
                self.r.reset();
                Fired::Close
            }
            _ => Fired::Nop,
        }
    }
}

// ---------------------------------------------------------------------------------------------------
// keys

#[derive(Clone, Copy, PartialEq, Eq)]
pub enum KeyKind {
    Long,
    ZeroRtt,
    OneRtt,
}

pub struct PKeys {
    kind: KeyKind,
    long: ArcKeys,
    zero: ArcZeroRttKeys,
    one: ArcOneRttKeys,
    set: bool,
    invalid: bool,
}

impl PKeys {
    pub fn new(kind: KeyKind) -> Self {
        Self {
            kind,
            long: ArcKeys::new_pending(),
            zero: ArcZeroRttKeys::new_pending(Role::Server),
            one: ArcOneRttKeys::new_pending(),
            set: false,
            invalid: false,
        }
    }
}

impl Proto for PKeys {
    fn spawn(&mut self, _i: usize, _y: &Yielder) -> Fut {
        match self.kind {
            KeyKind::Long => {
                let k = self.long.clone();
                Box::pin(async move {
                    let _ = k.get_remote_keys().await;
                })
            }
            KeyKind::ZeroRtt => {
                let k = self.zero.clone();
                Box::pin(async move {
                    let _ = k.get_decrypt_keys().expect("server side decrypts 0-RTT").await;
                })
            }
            KeyKind::OneRtt => {
                let k = self.one.clone();
                Box::pin(async move {
                    let _ = k.get_remote_keys().await;
                })
            }
        }
    }
    fn act(&mut self, a: Act) -> Fired {
        match a {
            // documented: set at most once, never after invalidation
            Act::SetKeys if !self.set && !self.invalid => {
                self.set = true;
                let keys = tlskeys::keys(rustls::Side::Server);
                match self.kind {
                    KeyKind::Long => self.long.set_keys(keys.into()),
                    KeyKind::ZeroRtt => self.zero.set_keys(keys.remote.into()),
                    KeyKind::OneRtt => self.one.set_keys(keys, tlskeys::one_rtt_secrets()),
                }
                Fired::Done
            }
            Act::InvalidKeys if !self.invalid => {
                self.invalid = true;
                match self.kind {
                    KeyKind::Long => drop(self.long.invalid()),
                    KeyKind::ZeroRtt => drop(self.zero.invalid()),
                    KeyKind::OneRtt => drop(self.one.invalid()),
                }
                Fired::Close
            }
            _ => Fired::Nop,
        }
    }
}

// ---------------------------------------------------------------------------------------------------
// transport parameters

pub fn odcid() -> ConnectionId {
    ConnectionId::from_slice(b"odcid-00")
}
pub fn peer_scid() -> ConnectionId {
    ConnectionId::from_slice(b"peerscid")
}

pub fn server_params(max_streams: u32, stream_window: u32, max_data: u32) -> ServerParameters {
    let mut p = handy::server_parameters();
    for (id, v) in [
        (ParameterId::InitialMaxStreamsBidi, max_streams),
        (ParameterId::InitialMaxStreamsUni, max_streams),
        (ParameterId::InitialMaxStreamDataBidiRemote, stream_window),
        (ParameterId::InitialMaxStreamDataBidiLocal, stream_window),
        (ParameterId::InitialMaxStreamDataUni, stream_window),
        (ParameterId::InitialMaxData, max_data),
    ] {
        p.set(id, v).expect("valid parameter");
    }
    p.set(ParameterId::InitialSourceConnectionId, peer_scid()).expect("valid parameter");
    p.set(ParameterId::OriginalDestinationConnectionId, odcid()).expect("valid parameter");
    p
}

pub fn client_params_as_peer() -> ClientParameters {
    let mut p = handy::client_parameters();
    p.set(ParameterId::InitialSourceConnectionId, peer_scid()).expect("valid parameter");
    p
}

/// The two notifier calls and the failure call on `ArcParameters`, shared with the DataStreams protocols.
pub struct ParamsDriver {
    pub params: ArcParameters,
    server_role: bool,
    pub peer_server: ServerParameters,
    pub got_params: bool,
    pub got_scid: bool,
    pub failed: bool,
}

impl ParamsDriver {
    pub fn new(server_role: bool, peer_server: ServerParameters) -> Self {
        let params: ArcParameters = if server_role {
            Parameters::new_server(handy::server_parameters()).into()
        } else {
            Parameters::new_client(handy::client_parameters(), None, odcid()).into()
        };
        Self { params, server_role, peer_server, got_params: false, got_scid: false, failed: false }
    }
    pub fn ready(&self) -> bool {
        self.got_params && self.got_scid && !self.failed
    }
    pub fn act(&mut self, a: Act) -> Fired {
        match a {
            Act::RecvRemoteParams if !self.got_params && !self.failed => {
                self.got_params = true;
                if let Ok(mut g) = self.params.lock_guard() {
                    let _ = if self.server_role {
                        g.recv_remote_params(client_params_as_peer())
                    } else {
                        g.recv_remote_params(self.peer_server.clone())
                    };
                }
                Fired::Done
            }
            Act::InitialScid if !self.got_scid && !self.failed => {
                self.got_scid = true;
                if let Ok(mut g) = self.params.lock_guard() {
                    let _ = g.initial_scid_from_peer_need_equal(peer_scid());
                }
                Fired::Done
            }
            Act::ParamsConnError if !self.failed => {
                self.failed = true;
                self.params.on_conn_error(&conn_error());
                Fired::Close
            }
            _ => Fired::Nop,
        }
    }
}

pub struct PParams {
    d: ParamsDriver,
}

impl PParams {
    pub fn new(server_role: bool) -> Self {
        Self { d: ParamsDriver::new(server_role, server_params(4, 64, 1 << 20)) }
    }
}

impl Proto for PParams {
    fn spawn(&mut self, _i: usize, _y: &Yielder) -> Fut {
        let p = self.d.params.clone();
        Box::pin(async move {
            let _ = p.remote_ready().await;
        })
    }
    fn act(&mut self, a: Act) -> Fired {
        self.d.act(a)
    }
}

// ---------------------------------------------------------------------------------------------------
// local stream ids

pub struct PLocalSid {
    ids: ArcLocalStreamIds<Sink>,
    max: [u32; 2],
    failed: Rc<Cell<bool>>,
}

impl PLocalSid {
    pub fn new() -> Self {
        Self {
            ids: ArcLocalStreamIds::new(Role::Client, 0, 0, Sink, ArcSendWakers::new()),
            max: [0, 0],
            failed: Default::default(),
        }
    }
}

impl Proto for PLocalSid {
    fn spawn(&mut self, i: usize, _y: &Yielder) -> Fut {
        let ids = self.ids.clone();
        let dir = if i % 2 == 0 { Dir::Bi } else { Dir::Uni };
        Box::pin(poll_fn(move |cx| ids.poll_alloc_sid(cx, dir).map(|_| ())))
    }
    fn act(&mut self, a: Act) -> Fired {
        match a {
            Act::MaxStreamsBi | Act::MaxStreamsUni => {
                let (dir, k) = if a == Act::MaxStreamsBi { (Dir::Bi, 0) } else { (Dir::Uni, 1) };
                self.max[k] += 1;
                self.ids.recv_max_streams_frame(MaxStreamsFrame::with(dir, VarInt::from_u32(self.max[k])));
                Fired::Done
            }
            Act::SidConnError if !self.failed.get() => {
                self.failed.set(true);
                self.ids.on_conn_error();
                Fired::Close
            }
            _ => Fired::Nop,
        }
    }
}

pub fn poll_once(f: &mut Fut, cx: &mut Context<'_>) -> Poll<()> {
    f.as_mut().poll(cx)
}
