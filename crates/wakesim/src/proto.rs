//! Protocol table: which waiter/notifier protocols exist, which actions each understands, and the
//! trait through which the executor drives the real types.
use std::{
    cell::Cell,
    future::Future,
    pin::Pin,
    rc::Rc,
    task::{Context, Poll},
};

use qbase::net::tx::Signals;
use serde::{Deserialize, Serialize};

pub type Fut = Pin<Box<dyn Future<Output = ()>>>;

/// Harness yield point: returns `Pending` once WITHOUT registering a waker and raises a flag, so the
/// executor knows the task is still runnable (it is between two lock-protected steps, not asleep).
#[derive(Clone, Default)]
pub struct Yielder(pub Rc<Cell<bool>>);

impl Yielder {
    pub fn point(&self) -> YieldOnce {
        YieldOnce { flag: self.0.clone(), done: false }
    }
    pub fn take(&self) -> bool {
        self.0.replace(false)
    }
}

pub struct YieldOnce {
    flag: Rc<Cell<bool>>,
    done: bool,
}

impl Future for YieldOnce {
    type Output = ();
    fn poll(mut self: Pin<&mut Self>, _cx: &mut Context<'_>) -> Poll<()> {
        if self.done {
            Poll::Ready(())
        } else {
            self.done = true;
            self.flag.set(true);
            Poll::Pending
        }
    }
}

#[derive(Clone, Copy, Debug, Serialize, Deserialize, PartialEq, Eq, Hash, PartialOrd, Ord)]
pub enum Protocol {
    SendWaker,
    SendWakers,
    CompositeSendBuffer,
    CompositeAntiAmplifier,
    CompositeCidInitial,
    CompositeCidNew,
    CompositeReliable,
    CompositeCrypto,
    CompositeStreams,
    CompositeStreamsConnFlow,
    CompositeStreamsWindow,
    CompositeDatagram,
    AsyncDeque,
    RecvBuffer,
    WakersCombine,
    BoundQueueRecv,
    BoundQueueSend,
    Receiving,
    Keys,
    ZeroRttKeys,
    OneRttKeys,
    Params,
    ParamsServer,
    LocalSid,
    OpenBi,
    OpenUni,
    AcceptBi,
    AcceptUni,
    StreamRead,
    StreamWrite,
    StreamFlush,
    StreamShutdown,
    DatagramRead,
    CryptoRead,
    CryptoFlush,
}

pub const ALL: &[Protocol] = &[
    Protocol::SendWaker,
    Protocol::SendWakers,
    Protocol::CompositeSendBuffer,
    Protocol::CompositeAntiAmplifier,
    Protocol::CompositeCidInitial,
    Protocol::CompositeCidNew,
    Protocol::CompositeReliable,
    Protocol::CompositeCrypto,
    Protocol::CompositeStreams,
    Protocol::CompositeStreamsConnFlow,
    Protocol::CompositeStreamsWindow,
    Protocol::CompositeDatagram,
    Protocol::AsyncDeque,
    Protocol::RecvBuffer,
    Protocol::WakersCombine,
    Protocol::BoundQueueRecv,
    Protocol::BoundQueueSend,
    Protocol::Receiving,
    Protocol::Keys,
    Protocol::ZeroRttKeys,
    Protocol::OneRttKeys,
    Protocol::Params,
    Protocol::ParamsServer,
    Protocol::LocalSid,
    Protocol::OpenBi,
    Protocol::OpenUni,
    Protocol::AcceptBi,
    Protocol::AcceptUni,
    Protocol::StreamRead,
    Protocol::StreamWrite,
    Protocol::StreamFlush,
    Protocol::StreamShutdown,
    Protocol::DatagramRead,
    Protocol::CryptoRead,
    Protocol::CryptoFlush,
];

/// One notifier-side call into the real type. Every action is total: when its documented precondition
/// does not hold in the current state (e.g. `set_keys` twice) the harness skips it (`Fired::Nop`).
#[derive(Clone, Copy, Debug, Serialize, Deserialize, PartialEq, Eq)]
pub enum Act {
    // SendWaker / SendWakers
    WakeBy(u16),
    WakeAllBy(u16),
    // composite waits of the burst loop
    SendBufWrite,
    AaOnRcvd,
    AaGrant,
    AaAbort,
    CidApplyInitial,
    CidNew,
    CidNewRetiring,
    CidRetire,
    ReliableSend,
    CryptoWrite,
    CryptoTransmit,
    CryptoAck,
    CryptoLoss,
    CryptoRecv,
    CryptoRecvGap,
    DgSend,
    DgRecv,
    DgConnError,
    // queues
    PushBack,
    PushFront,
    Extend,
    DequeClose,
    RbWrite,
    RbDismiss,
    BqTrySend,
    BqRecvOne,
    BqClose,
    RecvFrame,
    RecvReset,
    // keys
    SetKeys,
    InvalidKeys,
    // parameters
    RecvRemoteParams,
    InitialScid,
    ParamsConnError,
    // stream ids
    MaxStreamsBi,
    MaxStreamsUni,
    SidConnError,
    // DataStreams
    ReviseParams,
    DsConnError,
    RecvStreamBi,
    RecvStreamUni,
    RecvData,
    RecvDataGap,
    RecvFin,
    RecvResetStream,
    StreamAppWrite,
    StreamAppShutdown,
    MaxStreamData,
    MaxData,
    StopSending,
    Transmit,
    AckOne,
    LoseOne,
}

#[derive(Clone, Copy, Debug, PartialEq, Eq)]
pub enum Fired {
    /// not applicable in the current state (skipped, nothing was called)
    Nop,
    /// the call was made
    Done,
    /// one step of a multi-step close (the real code closes several objects in sequence)
    ClosePart,
    /// the object is now closed / failed: every sleeper must have been woken
    Close,
}

pub struct Spec {
    pub name: &'static str,
    pub max_waiters: usize,
    /// notifier actions (set condition / notify)
    pub sets: Vec<Act>,
    /// the close script, in the order the real code performs it (empty: the protocol has no close)
    pub closes: Vec<Act>,
    /// the protocol tolerates a re-poll with a different waker (task migration)
    pub migrate_ok: bool,
    /// the waiter is a scripted composite wait (check under lock A, then `wait_for` under the SendWaker lock)
    pub composite: bool,
    /// after close the next poll must be Ready (false: the raw type only wakes, the closed state lives one layer up)
    pub close_ready: bool,
    /// run the "two tasks on one waker slot" probe for this protocol
    pub two_task_probe: bool,
    /// actions performed before the two tasks park in that probe
    pub probe_prelude: Vec<Act>,
}

pub trait Proto {
    /// create the (real) future waiter `i` is going to be parked on
    fn spawn(&mut self, i: usize, y: &Yielder) -> Fut;
    /// For waiters whose pending future does not itself re-check the awaited condition (composite waits
    /// parked in `SendWaker::wait_for`): re-evaluate the send condition. `None`: audit by polling.
    fn audit_condition(&mut self, _i: usize) -> Option<bool> {
        None
    }
    fn act(&mut self, a: Act) -> Fired;
}

const T: u16 = Signals::TRANSPORT.bits();
const C: u16 = Signals::CONGESTION.bits();
const F: u16 = Signals::FLOW_CONTROL.bits();
const W: u16 = Signals::WRITTEN.bits();
const P: u16 = Signals::PING.bits();

pub fn spec(p: Protocol) -> Spec {
    use Act::*;
    let s = |name, max_waiters, sets: &[Act], closes: &[Act], migrate_ok| Spec {
        name,
        max_waiters,
        sets: sets.to_vec(),
        closes: closes.to_vec(),
        migrate_ok,
        composite: false,
        close_ready: true,
        two_task_probe: false,
        probe_prelude: Vec::new(),
    };
    let comp = |mut sp: Spec| {
        sp.composite = true;
        sp
    };
    let probe = |mut sp: Spec| {
        sp.two_task_probe = true;
        sp
    };
    let ds_close = [DsConnError, ParamsConnError];
    match p {
        Protocol::SendWaker => probe(s("send_waker", 1, &[WakeBy(T), WakeBy(F), WakeBy(C | P)], &[], true)),
        Protocol::SendWakers => s("send_wakers", 3, &[WakeAllBy(T), WakeAllBy(F), WakeAllBy(W)], &[], true),
        Protocol::CompositeSendBuffer => comp(s("composite_sendbuf", 1, &[SendBufWrite], &[], true)),
        Protocol::CompositeAntiAmplifier => comp(s("composite_anti_amplifier", 1, &[AaOnRcvd, AaGrant], &[AaAbort], true)),
        Protocol::CompositeCidInitial => comp(s("composite_cid_initial", 1, &[CidApplyInitial], &[CidRetire], true)),
        Protocol::CompositeCidNew => comp(s("composite_cid_new", 1, &[CidNew, CidNewRetiring], &[CidRetire], true)),
        Protocol::CompositeReliable => comp(s("composite_reliable", 2, &[ReliableSend], &[], true)),
        Protocol::CompositeCrypto => comp(s("composite_crypto", 1, &[CryptoWrite, CryptoLoss, CryptoAck], &[], true)),
        Protocol::CompositeStreams => comp(s(
            "composite_streams",
            1,
            &[StreamAppWrite, MaxData, MaxStreamData, StreamAppShutdown, LoseOne, AckOne],
            &[],
            true,
        )),
        // 8 bytes written, 6 sent: the rest is blocked by the connection-level limit
        Protocol::CompositeStreamsConnFlow => comp(s(
            "composite_streams_conn_flow",
            1,
            &[MaxData, MaxStreamData, LoseOne, AckOne, StreamAppShutdown],
            &[],
            true,
        )),
        // 12 bytes written into a stream window of 8, 8 sent: the rest is blocked by the stream-level limit
        Protocol::CompositeStreamsWindow => comp(s(
            "composite_streams_window",
            1,
            &[MaxStreamData, MaxData, LoseOne, StreamAppShutdown, AckOne],
            &[],
            true,
        )),
        Protocol::CompositeDatagram => comp(s("composite_datagram", 2, &[DgSend], &[], true)),
        Protocol::AsyncDeque => probe(s("async_deque", 1, &[PushBack, PushFront, Extend], &[DequeClose], false)),
        Protocol::RecvBuffer => probe(s("recv_buffer", 1, &[RbWrite], &[RbDismiss], false)),
        Protocol::WakersCombine => s("wakers_combine", 3, &[PushBack, Extend], &[DequeClose], true),
        Protocol::BoundQueueRecv => probe(s("bound_queue_recv", 1, &[BqTrySend], &[BqClose], true)),
        Protocol::BoundQueueSend => s("bound_queue_send", 3, &[BqRecvOne], &[BqClose], true),
        Protocol::Receiving => probe(s("receiving", 1, &[RecvFrame], &[RecvReset], true)),
        Protocol::Keys => probe(s("keys", 1, &[SetKeys], &[InvalidKeys], false)),
        Protocol::ZeroRttKeys => probe(s("zero_rtt_keys", 1, &[SetKeys], &[InvalidKeys], false)),
        Protocol::OneRttKeys => probe(s("one_rtt_keys", 1, &[SetKeys], &[InvalidKeys], false)),
        Protocol::Params => s("params", 3, &[RecvRemoteParams, InitialScid], &[ParamsConnError], true),
        Protocol::ParamsServer => s("params_server", 3, &[InitialScid, RecvRemoteParams], &[ParamsConnError], true),
        Protocol::LocalSid => {
            let mut sp = s("local_sid", 3, &[MaxStreamsBi, MaxStreamsUni], &[SidConnError], true);
            sp.close_ready = false;
            sp
        }
        Protocol::OpenBi => {
            s("open_bi", 3, &[RecvRemoteParams, InitialScid, ReviseParams, MaxStreamsBi], &ds_close, true)
        }
        Protocol::OpenUni => {
            s("open_uni", 3, &[InitialScid, RecvRemoteParams, ReviseParams, MaxStreamsUni], &ds_close, true)
        }
        Protocol::AcceptBi => {
            let mut sp = probe(s("accept_bi", 1, &[RecvStreamBi, RecvRemoteParams, InitialScid], &ds_close, true));
            sp.probe_prelude = vec![RecvRemoteParams, InitialScid];
            sp
        }
        Protocol::AcceptUni => probe(s("accept_uni", 1, &[RecvStreamUni], &ds_close, true)),
        Protocol::StreamRead => {
            s("stream_read", 1, &[RecvData, RecvDataGap, RecvFin, RecvResetStream], &ds_close, true)
        }
        Protocol::StreamWrite => s("stream_write", 1, &[MaxStreamData, StopSending, Transmit, AckOne], &ds_close, true),
        Protocol::StreamFlush => s("stream_flush", 1, &[Transmit, AckOne, StopSending, LoseOne], &ds_close, true),
        Protocol::StreamShutdown => {
            s("stream_shutdown", 1, &[Transmit, AckOne, StopSending, LoseOne], &ds_close, true)
        }
        Protocol::DatagramRead => probe(s("datagram_read", 1, &[DgRecv], &[DgConnError], true)),
        Protocol::CryptoRead => probe(s("crypto_read", 1, &[CryptoRecv, CryptoRecvGap], &[], false)),
        Protocol::CryptoFlush => probe(s("crypto_flush", 1, &[CryptoTransmit, CryptoAck, CryptoLoss], &[], false)),
    }
}

pub fn build(p: Protocol) -> Box<dyn Proto> {
    use crate::{basic as b, streams as st};
    match p {
        Protocol::SendWaker => Box::new(b::PSendWaker::new()),
        Protocol::SendWakers => Box::new(b::PSendWakers::new()),
        Protocol::CompositeSendBuffer => Box::new(b::PCompSendBuffer::new()),
        Protocol::CompositeAntiAmplifier => Box::new(b::PCompAa::new()),
        Protocol::CompositeCidInitial => Box::new(b::PCompCid::new(false)),
        Protocol::CompositeCidNew => Box::new(b::PCompCid::new(true)),
        Protocol::CompositeReliable => Box::new(b::PCompReliable::new()),
        Protocol::CompositeCrypto => Box::new(b::PCrypto::new(b::CryptoMode::Composite)),
        Protocol::CompositeStreams => Box::new(st::PStreams::new(st::Mode::Composite)),
        Protocol::CompositeStreamsConnFlow => Box::new(st::PStreams::new(st::Mode::CompositeConnFlow)),
        Protocol::CompositeStreamsWindow => Box::new(st::PStreams::new(st::Mode::CompositeWindow)),
        Protocol::CompositeDatagram => Box::new(b::PDatagram::new(true)),
        Protocol::AsyncDeque => Box::new(b::PDeque::new(b::DequeMode::Plain)),
        Protocol::RecvBuffer => Box::new(b::PRecvBuffer::new()),
        Protocol::WakersCombine => Box::new(b::PDeque::new(b::DequeMode::Combined)),
        Protocol::BoundQueueRecv => Box::new(b::PBoundQueue::new(false)),
        Protocol::BoundQueueSend => Box::new(b::PBoundQueue::new(true)),
        Protocol::Receiving => Box::new(b::PReceiving::new()),
        Protocol::Keys => Box::new(b::PKeys::new(b::KeyKind::Long)),
        Protocol::ZeroRttKeys => Box::new(b::PKeys::new(b::KeyKind::ZeroRtt)),
        Protocol::OneRttKeys => Box::new(b::PKeys::new(b::KeyKind::OneRtt)),
        Protocol::Params => Box::new(b::PParams::new(false)),
        Protocol::ParamsServer => Box::new(b::PParams::new(true)),
        Protocol::LocalSid => Box::new(b::PLocalSid::new()),
        Protocol::OpenBi => Box::new(st::PStreams::new(st::Mode::OpenBi)),
        Protocol::OpenUni => Box::new(st::PStreams::new(st::Mode::OpenUni)),
        Protocol::AcceptBi => Box::new(st::PStreams::new(st::Mode::AcceptBi)),
        Protocol::AcceptUni => Box::new(st::PStreams::new(st::Mode::AcceptUni)),
        Protocol::StreamRead => Box::new(st::PStreams::new(st::Mode::Read)),
        Protocol::StreamWrite => Box::new(st::PStreams::new(st::Mode::Write)),
        Protocol::StreamFlush => Box::new(st::PStreams::new(st::Mode::Flush)),
        Protocol::StreamShutdown => Box::new(st::PStreams::new(st::Mode::Shutdown)),
        Protocol::DatagramRead => Box::new(b::PDatagram::new(false)),
        Protocol::CryptoRead => Box::new(b::PCrypto::new(b::CryptoMode::Read)),
        Protocol::CryptoFlush => Box::new(b::PCrypto::new(b::CryptoMode::Flush)),
    }
}

/// The burst loop of `qconnection/src/path.rs`, one harness yield between every two lock-protected steps:
/// `loop { match evaluate() { Ok => send, Err(signals) => tx_waker.wait_for(signals).await } }`.
/// The future completes when the evaluation succeeds (there is something to send) or reports that the
/// path is gone.
pub fn burst_loop(
    y: &Yielder,
    tx_waker: qbase::net::tx::ArcSendWaker,
    eval: Rc<dyn Fn() -> Result<(), Signals>>,
) -> Fut {
    let y = y.clone();
    Box::pin(async move {
        loop {
            match eval() {
                Ok(()) => return,
                Err(signals) => {
                    // <- a notifier may run here: after the check, before the registration
                    y.point().await;
                    tx_waker.wait_for(signals).await;
                    // <- and here: after wait_for returned, before the next evaluation
                    y.point().await;
                }
            }
        }
    })
}
