//! wakesim — C16 "no wake-up is ever lost" (DESIGN §4, §5/C16).
//!
//! A case is one waiter/notifier protocol of the stack plus a schedule: a list of operations, each of
//! which is ONE call into the real type (one lock-protected operation). Waiter operations poll, re-poll
//! with a different waker (task migration) or drop the waiter's real future; notifier operations set the
//! condition / notify / close. The executor plays the schedule and then applies the audit poll:
//!
//! * quiescence: every waiter that is asleep (last poll `Pending`) and whose waker was not invoked since
//!   that poll is polled once more (composite waits: the send condition is re-evaluated); `Ready` now
//!   means the wake-up was lost                                              → `lost-wakeup:<protocol>`
//! * a close/fail operation must have invoked the waker of every sleeper, and any poll after it must be
//!   `Ready`                                                         → `close-leaves-sleeper:<protocol>`
//!
//! Nothing about WHICH value a poll returns is judged.
//!
//! `generate(index, ..)`: indexes below [`enumerated_total`] are decoded into (protocol, scenario,
//! interleaving) — all order-preserving merges of the per-actor scripts of every scenario with ≤ 8 steps,
//! i.e. the permutations of the multiset of actor labels, unranked lexicographically. Higher indexes
//! are seeded samples (1–3 waiters, 1–3 notifier actors, optional close script, random merge).
pub mod basic;
pub mod pkt;
pub mod proto;
pub mod streams;
pub mod tlskeys;

use std::sync::OnceLock;

use serde::{Deserialize, Serialize};
use simcore::{Engine, Outcome, Rng, Tier, TraceHash, engine::intern, wake::Task};

use proto::{ALL, Act, Fired, Fut, Proto, Protocol, Spec, Yielder, spec};

#[derive(Clone, Debug, Serialize, Deserialize, PartialEq)]
pub enum Op {
    /// poll waiter i's pending future once with its task's waker (creates the future if it has none)
    Poll(u8),
    /// task migration: the same future is polled by a fresh task (different waker)
    PollNewWaker(u8),
    /// the waiter gives up (select! lost, timeout): its future is dropped
    DropFuture(u8),
    /// one notifier / closer call
    Act(Act),
}

#[derive(Clone, Debug, Serialize, Deserialize)]
pub struct Case {
    pub protocol: Protocol,
    pub waiters: u8,
    pub ops: Vec<Op>,
    /// also run the "second task on the same slot" probe (recorded, never judged)
    pub probe: bool,
    /// ordinal in the enumerated space, if this case was decoded rather than sampled
    pub enumerated: Option<u64>,
}

pub struct WakeSim;

// ---------------------------------------------------------------------------------------------------
// enumeration

struct Block {
    protocol: Protocol,
    waiters: u8,
    actors: Vec<Vec<Op>>,
    count: u64,
    start: u64,
}

fn factorial(n: usize) -> u64 {
    (1..=n as u64).product()
}

fn multinomial(counts: &[usize]) -> u64 {
    let n: usize = counts.iter().sum();
    counts.iter().fold(factorial(n), |acc, c| acc / factorial(*c))
}

fn scenarios(p: Protocol) -> Vec<(u8, Vec<Vec<Op>>)> {
    let sp = spec(p);
    let polls = if sp.composite { 4 } else { 3 };
    let w0: Vec<Op> = (0..polls).map(|_| Op::Poll(0)).collect();
    let closes: Vec<Op> = sp.closes.iter().map(|a| Op::Act(*a)).collect();
    let set = |k: usize| Op::Act(sp.sets[k % sp.sets.len()]);
    let mut out: Vec<(u8, Vec<Vec<Op>>)> = Vec::new();
    let fit = |mut actors: Vec<Vec<Op>>| {
        // at most 8 steps: trim the longest actor
        while actors.iter().map(|a| a.len()).sum::<usize>() > 8 {
            let i = (0..actors.len()).max_by_key(|i| actors[*i].len()).unwrap();
            actors[i].pop();
        }
        actors.retain(|a| !a.is_empty());
        actors
    };
    // A: one waiter, every consecutive pair of notifier actions, the close script
    for k in 0..sp.sets.len() {
        let mut actors = vec![w0.clone(), vec![set(k), set(k + 1)]];
        if !closes.is_empty() {
            actors.push(closes.clone());
        }
        out.push((1, fit(actors)));
    }
    // B: the waiter migrates to another task / gives up and starts over
    if sp.migrate_ok {
        let mut actors = vec![vec![Op::Poll(0), Op::PollNewWaker(0), Op::Poll(0)], vec![set(0), set(1)]];
        if !closes.is_empty() {
            actors.push(closes.clone());
        }
        out.push((1, fit(actors)));
    }
    {
        let mut actors = vec![vec![Op::Poll(0), Op::DropFuture(0), Op::Poll(0)], vec![set(0), set(0)]];
        if !closes.is_empty() {
            actors.push(closes.clone());
        }
        out.push((1, fit(actors)));
    }
    // C: two concurrent waiters where the protocol has more than one slot
    if sp.max_waiters >= 2 {
        let mut actors = vec![
            vec![Op::Poll(0), Op::Poll(0)],
            vec![Op::Poll(1), Op::Poll(1)],
            vec![set(0), set(1)],
        ];
        if !closes.is_empty() {
            actors.push(closes.clone());
        }
        out.push((2, fit(actors)));
    }
    // D: two independent notifiers racing one waiter
    if sp.sets.len() >= 2 {
        let actors = vec![w0.clone(), vec![set(0), set(0)], vec![set(1), set(1)]];
        out.push((1, fit(actors)));
    }
    out
}

fn blocks() -> &'static (Vec<Block>, u64) {
    static B: OnceLock<(Vec<Block>, u64)> = OnceLock::new();
    B.get_or_init(|| {
        let mut v = Vec::new();
        let mut start = 0u64;
        for p in ALL {
            for (waiters, actors) in scenarios(*p) {
                let counts: Vec<usize> = actors.iter().map(|a| a.len()).collect();
                let count = multinomial(&counts);
                v.push(Block { protocol: *p, waiters, actors, count, start });
                start += count;
            }
        }
        (v, start)
    })
}

/// number of enumerated cases (indexes `0..enumerated_total()` of a batch are the exhaustive part)
pub fn enumerated_total() -> u64 {
    blocks().1
}

/// (protocol name, scenarios, interleavings) per protocol, for the report
pub fn enumerated_summary() -> Vec<(&'static str, usize, u64)> {
    let mut out: Vec<(&'static str, usize, u64)> = Vec::new();
    for b in &blocks().0 {
        let name = spec(b.protocol).name;
        match out.last_mut() {
            Some(l) if l.0 == name => {
                l.1 += 1;
                l.2 += b.count;
            }
            _ => out.push((name, 1, b.count)),
        }
    }
    out
}

/// k-th (lexicographic by actor index) order-preserving merge of the actors' scripts
fn unrank(actors: &[Vec<Op>], mut k: u64) -> Vec<Op> {
    let mut left: Vec<usize> = actors.iter().map(|a| a.len()).collect();
    let total: usize = left.iter().sum();
    let mut ops = Vec::with_capacity(total);
    for _ in 0..total {
        for a in 0..actors.len() {
            if left[a] == 0 {
                continue;
            }
            left[a] -= 1;
            let n = multinomial(&left);
            if k < n {
                ops.push(actors[a][actors[a].len() - left[a] - 1].clone());
                break;
            }
            k -= n;
            left[a] += 1;
        }
    }
    ops
}

fn decode(index: u64) -> Case {
    let (bs, _) = blocks();
    let i = bs.partition_point(|b| b.start + b.count <= index);
    let b = &bs[i];
    Case {
        protocol: b.protocol,
        waiters: b.waiters,
        ops: unrank(&b.actors, index - b.start),
        probe: false,
        enumerated: Some(index),
    }
}

fn sample(seed: u64) -> Case {
    let mut r = Rng::derive(seed, "sched");
    // composite waits need two polls before they park: give them a third of the samples
    let protocol = if r.one_in(3) {
        let comp: Vec<Protocol> = ALL.iter().copied().filter(|p| spec(*p).composite).collect();
        *r.pick(&comp)
    } else {
        *r.pick(ALL)
    };
    let sp = spec(protocol);
    let waiters = r.range(1, sp.max_waiters.min(3) as u64) as u8;
    let mut actors: Vec<Vec<Op>> = Vec::new();
    for w in 0..waiters {
        let n = r.range(2, if sp.composite { 7 } else { 5 });
        let mut s = vec![Op::Poll(w)];
        for _ in 1..n {
            s.push(match r.below(10) {
                0 if sp.migrate_ok => Op::PollNewWaker(w),
                1 => Op::DropFuture(w),
                _ => Op::Poll(w),
            });
        }
        actors.push(s);
    }
    if !sp.sets.is_empty() {
        for _ in 0..r.range(1, 3) {
            let n = r.range(1, 3);
            actors.push((0..n).map(|_| Op::Act(*r.pick(&sp.sets))).collect());
        }
    }
    if !sp.closes.is_empty() && r.chance(0.4) {
        actors.push(sp.closes.iter().map(|a| Op::Act(*a)).collect());
    }
    // random order-preserving merge: the schedule
    let mut idx = vec![0usize; actors.len()];
    let mut ops = Vec::new();
    loop {
        let live: Vec<usize> = (0..actors.len()).filter(|a| idx[*a] < actors[*a].len()).collect();
        if live.is_empty() {
            break;
        }
        let a = *r.pick(&live);
        ops.push(actors[a][idx[a]].clone());
        idx[a] += 1;
    }
    Case { protocol, waiters, ops, probe: r.one_in(300), enumerated: None }
}

// ---------------------------------------------------------------------------------------------------
// executor

struct Waiter {
    fut: Option<Fut>,
    task: Task,
    /// asleep: the last poll returned Pending at a real await point
    asleep: bool,
    /// between two steps of a composite wait (harness yield): still runnable
    runnable: bool,
    polled_after_close: bool,
}

struct Run<'a> {
    sp: &'a Spec,
    proto: Box<dyn Proto>,
    y: Yielder,
    ws: Vec<Waiter>,
    out: Outcome,
    th: TraceHash,
    closed: bool,
    progress: bool,
    faults: u64,
    step: u64,
}

impl Run<'_> {
    fn fault(&mut self, k: &'static str) {
        self.faults += 1;
        self.out.stats.bump(k);
    }

    /// one poll of waiter i; returns true iff Ready
    fn poll(&mut self, i: usize, audit: bool) -> bool {
        if self.ws[i].fut.is_none() {
            let f = self.proto.spawn(i, &self.y);
            self.ws[i].fut = Some(f);
            self.out.stats.bump("probe.future_created");
        }
        let was_asleep = self.ws[i].asleep;
        let woken = self.ws[i].task.take_woken();
        if was_asleep && !woken && !audit {
            self.fault("fault.spurious_poll");
        }
        if was_asleep && woken {
            self.out.stats.bump("probe.repoll_after_wake");
        }
        let after_wake = was_asleep && woken;
        let _ = self.y.take();
        let task = self.ws[i].task.clone();
        let res = task.poll_pin(self.ws[i].fut.as_mut().unwrap().as_mut());
        let yielded = self.y.take();
        let w = &mut self.ws[i];
        if self.closed {
            w.polled_after_close = true;
        }
        self.th.add(0x100 + i as u64);
        match res {
            std::task::Poll::Ready(()) => {
                w.fut = None;
                w.asleep = false;
                w.runnable = false;
                self.progress = true;
                self.th.add(1);
                self.out.stats.bump("probe.poll_ready");
                if after_wake {
                    let key = format!("cov.{}.ready_after_sleep_and_wake", self.sp.name);
                    self.out.stats.bump(intern(&key));
                }
                true
            }
            std::task::Poll::Pending => {
                w.asleep = !yielded;
                w.runnable = yielded;
                if yielded && after_wake {
                    let key = format!("cov.{}.resumed_after_sleep_and_wake", self.sp.name);
                    self.out.stats.bump(intern(&key));
                }
                self.th.add(if yielded { 3 } else { 2 });
                if !yielded {
                    self.out.stats.bump("probe.poll_pending");
                    if self.closed && self.sp.close_ready {
                        let name = self.sp.name;
                        self.out.violate(
                            "close-leaves-sleeper",
                            name,
                            format!("waiter {i}: a poll after the close returned Pending (it registered a waker nobody will invoke)"),
                            self.step,
                        );
                    }
                }
                false
            }
        }
    }

    fn act(&mut self, a: Act) {
        let any_asleep = self.ws.iter().any(|w| w.asleep && !w.task.is_woken());
        let any_between = self.ws.iter().any(|w| w.runnable);
        let any_woken_unpolled = self.ws.iter().any(|w| w.asleep && w.task.is_woken());
        let none_started = self.ws.iter().all(|w| w.fut.is_none());
        let sleepers: Vec<usize> =
            (0..self.ws.len()).filter(|i| self.ws[*i].asleep && self.ws[*i].fut.is_some() && !self.ws[*i].task.is_woken()).collect();
        let fired = self.proto.act(a);
        if fired != Fired::Nop && !sleepers.is_empty() {
            let woke = sleepers.iter().filter(|i| self.ws[**i].task.is_woken()).count();
            let key = format!("cov.{}.{:?}.{}", self.sp.name, a, if woke > 0 { "woke_sleeper" } else { "left_sleeper_asleep" });
            self.out.stats.bump(intern(&key));
        }
        self.th.add(0x200 + fired as u64);
        match fired {
            Fired::Nop => {
                self.out.stats.bump("probe.action_not_applicable");
                return;
            }
            Fired::Done | Fired::ClosePart => {
                if any_between {
                    self.fault("fault.notify_between_check_and_register");
                }
                if any_asleep {
                    self.fault("fault.notify_while_asleep");
                }
                if any_woken_unpolled {
                    self.fault("fault.notify_between_wake_and_repoll");
                }
                if none_started {
                    self.fault("fault.notify_before_first_poll");
                }
                if self.closed {
                    self.fault("fault.notify_after_close");
                }
                if fired == Fired::ClosePart {
                    self.out.stats.bump("probe.close_first_step");
                }
            }
            Fired::Close => {
                self.closed = true;
                if any_between {
                    self.fault("fault.close_between_check_and_register");
                }
                if none_started {
                    self.fault("fault.close_before_first_poll");
                }
                let name = self.sp.name;
                let mut hit = false;
                for (i, w) in self.ws.iter().enumerate() {
                    if w.asleep && w.fut.is_some() {
                        hit = true;
                        if !w.task.is_woken() {
                            self.out.violate(
                                "close-leaves-sleeper",
                                name,
                                format!("waiter {i} was asleep when {a:?} closed the object and its waker was not invoked"),
                                self.step,
                            );
                        }
                    }
                }
                if hit {
                    self.fault("fault.close_while_pending");
                }
            }
        }
    }

    fn quiesce_and_audit(&mut self) {
        // 1. tasks that are between two steps keep running until they park or finish
        for _ in 0..32 {
            let Some(i) = (0..self.ws.len()).find(|i| self.ws[*i].runnable) else { break };
            self.out.stats.bump("probe.ran_to_park_at_quiescence");
            self.poll(i, true);
        }
        // 2. the audit poll: asleep and never woken since
        let name = self.sp.name;
        for i in 0..self.ws.len() {
            if !(self.ws[i].asleep && self.ws[i].fut.is_some()) || self.ws[i].task.is_woken() {
                continue;
            }
            let ready = match self.proto.audit_condition(i) {
                Some(r) => r,
                None => self.poll(i, true),
            };
            if ready && !self.closed {
                self.out.violate(
                    "lost-wakeup",
                    name,
                    format!("waiter {i} was asleep, its waker was never invoked, yet its condition is satisfied (audit found it Ready)"),
                    self.step,
                );
            } else if ready {
                self.out.stats.bump("probe.audit_ready_after_close");
            } else {
                self.out.stats.bump("probe.audit_still_pending");
            }
        }
        // 3. woken but not re-polled: the executor would re-poll — do it, classify, never judge (except after close)
        for i in 0..self.ws.len() {
            if self.ws[i].asleep && self.ws[i].fut.is_some() && self.ws[i].task.is_woken() {
                if self.poll(i, true) {
                    self.out.stats.bump("probe.audit_found_ready_after_wake");
                } else {
                    self.out.stats.bump("probe.audit_pending_after_wake");
                }
            }
        }
    }
}

/// Two tasks park on the same slot of a single-consumer protocol, then the first notifier action fires.
/// Outcome is recorded only: (panicked | first woken | first overwritten).
fn two_task_probe(p: Protocol, stats: &mut simcore::Stats) {
    let sp = spec(p);
    let res = simcore::panics::guarded(|| {
        let mut proto = proto::build(p);
        let y = Yielder::default();
        let (ta, tb) = (Task::new(), Task::new());
        for a in &sp.probe_prelude {
            proto.act(*a);
        }
        let mut fa = proto.spawn(0, &y);
        let mut fb = proto.spawn(0, &y);
        // composite waits: step over the yield so that both are parked in wait_for
        let mut pend = (true, true);
        for _ in 0..2 {
            pend.0 = ta.poll_pin(fa.as_mut()).is_pending();
            pend.1 = tb.poll_pin(fb.as_mut()).is_pending();
        }
        if !(pend.0 && pend.1) {
            return None;
        }
        let before = (ta.wakes(), tb.wakes());
        if let Some(a) = sp.sets.first() {
            proto.act(*a);
        }
        Some((ta.wakes() > before.0, tb.wakes() > before.1))
    });
    let key = match res {
        Err(_) => format!("probe.two_tasks.{}.panics", sp.name),
        Ok(None) => format!("probe.two_tasks.{}.not_parked", sp.name),
        Ok(Some((true, true))) => format!("probe.two_tasks.{}.both_woken", sp.name),
        Ok(Some((true, false))) => format!("probe.two_tasks.{}.only_first_woken", sp.name),
        Ok(Some((false, true))) => format!("probe.two_tasks.{}.first_overwritten", sp.name),
        Ok(Some((false, false))) => format!("probe.two_tasks.{}.none_woken", sp.name),
    };
    stats.bump(intern(&key));
    // sequential variant: the first task gives up (drops its future) before another task starts to wait
    let res = simcore::panics::guarded(|| {
        let mut proto = proto::build(p);
        let y = Yielder::default();
        for a in &sp.probe_prelude {
            proto.act(*a);
        }
        let (ta, tb) = (Task::new(), Task::new());
        let mut fa = proto.spawn(0, &y);
        for _ in 0..2 {
            let _ = ta.poll_pin(fa.as_mut());
        }
        drop(fa);
        let mut fb = proto.spawn(0, &y);
        let mut pending = true;
        for _ in 0..2 {
            pending = tb.poll_pin(fb.as_mut()).is_pending();
        }
        if !pending {
            return None;
        }
        if let Some(a) = sp.sets.first() {
            proto.act(*a);
        }
        Some(tb.is_woken())
    });
    let key = match res {
        Err(_) => format!("probe.next_task_after_drop.{}.panics", sp.name),
        Ok(None) => format!("probe.next_task_after_drop.{}.not_parked", sp.name),
        Ok(Some(true)) => format!("probe.next_task_after_drop.{}.woken", sp.name),
        Ok(Some(false)) => format!("probe.next_task_after_drop.{}.not_woken", sp.name),
    };
    stats.bump(intern(&key));
}

impl Engine for WakeSim {
    type Case = Case;

    fn name(&self) -> &'static str {
        "wakesim"
    }

    fn components_real(&self) -> Vec<&'static str> {
        vec![
            "qbase::net::tx::{ArcSendWaker, ArcSendWakers}",
            "qbase::util::{ArcAsyncDeque, BoundQueue, Wakers}",
            "qbase::ArcReceiving",
            "qbase::packet::keys::{ArcKeys, ArcZeroRttKeys, ArcOneRttKeys}",
            "qbase::param::ArcParameters",
            "qbase::sid::ArcLocalStreamIds",
            "qbase::cid::{ArcRemoteCids, ArcCidCell}",
            "qbase::flow::ArcSendControler",
            "qrecovery::streams::DataStreams (Reader, Writer, Incoming, Outgoing, ArcListener)",
            "qrecovery::crypto::CryptoStream",
            "qrecovery::reliable::ArcReliableFrameDeque",
            "qdatagram::DatagramFlow",
            "qconnection::path::{AntiAmplifier, SendBuffer, RecvBuffer}",
        ]
    }

    fn components_stub(&self) -> Vec<&'static str> {
        vec![
            "task executor (counting wakers, explicit schedule)",
            "burst loop of qconnection/src/path.rs (scripted: evaluate, then tx_waker.wait_for(signals))",
            "packet target (byte buffer recording loaded frames)",
        ]
    }

    fn generate(&self, index: u64, seed: u64, _tier: Tier) -> Case {
        if index < enumerated_total() { decode(index) } else { sample(seed) }
    }

    fn execute(&self, case: &Case) -> Outcome {
        let sp = spec(case.protocol);
        let n = (case.waiters as usize).clamp(1, sp.max_waiters);
        let mut run = Run {
            sp: &sp,
            proto: proto::build(case.protocol),
            y: Yielder::default(),
            ws: (0..n)
                .map(|_| Waiter { fut: None, task: Task::new(), asleep: false, runnable: false, polled_after_close: false })
                .collect(),
            out: Outcome::default(),
            th: TraceHash::default(),
            closed: false,
            progress: false,
            faults: 0,
            step: 0,
        };
        run.out.stats.bump(intern(&format!("probe.{}", sp.name)));
        if case.enumerated.is_some() {
            run.out.stats.bump("probe.enumerated_case");
        }
        run.th.add_str(sp.name);
        for (k, op) in case.ops.iter().enumerate() {
            run.step = k as u64;
            match op {
                Op::Poll(i) if (*i as usize) < n => {
                    run.poll(*i as usize, false);
                }
                Op::PollNewWaker(i) if (*i as usize) < n => {
                    let i = *i as usize;
                    if sp.migrate_ok {
                        if run.ws[i].fut.is_some() {
                            run.fault("fault.waker_migration");
                        }
                        // the old task's wake-ups reach nobody any more; a wake that already happened means the
                        // executor re-polls — which is this very poll
                        run.ws[i].task = Task::new();
                        if run.ws[i].asleep {
                            // the re-poll is not spurious from the scheduler's point of view: mark as woken
                            run.ws[i].asleep = false;
                        }
                    }
                    run.poll(i, false);
                }
                Op::DropFuture(i) if (*i as usize) < n => {
                    let w = &mut run.ws[*i as usize];
                    if w.fut.take().is_some() {
                        w.asleep = false;
                        w.runnable = false;
                        run.fault("fault.drop_future");
                    }
                    run.th.add(0x300 + *i as u64);
                }
                Op::Act(a) => run.act(*a),
                _ => {}
            }
        }
        run.step = case.ops.len() as u64;
        run.quiesce_and_audit();
        for w in &run.ws {
            run.th.add(w.task.wakes());
        }
        if case.probe {
            if sp.two_task_probe {
                two_task_probe(case.protocol, &mut run.out.stats);
            }
            if case.protocol == Protocol::BoundQueueRecv {
                let accepted = basic::bound_queue_accepts(2, 64);
                run.out.stats.add("probe.bound_queue_cap2_accepted_of_64", accepted as u64);
                run.out.stats.bump("probe.bound_queue_capacity_probes");
            }
        }
        let mut out = run.out;
        out.trace_hash = run.th.get();
        out.nontrivial = run.faults > 0 && run.progress;
        out
    }

    fn shrink(&self, case: &Case) -> Vec<Case> {
        let mut v = Vec::new();
        let n = case.ops.len();
        let plain = |ops: Vec<Op>, waiters: u8| Case { ops, waiters, probe: false, enumerated: None, ..case.clone() };
        if n > 1 {
            v.push(plain(case.ops[..n / 2].to_vec(), case.waiters));
            v.push(plain(case.ops[..n - 1].to_vec(), case.waiters));
        }
        if case.waiters > 1 {
            let w = case.waiters - 1;
            let ops = case
                .ops
                .iter()
                .filter(|o| match o {
                    Op::Poll(i) | Op::PollNewWaker(i) | Op::DropFuture(i) => *i < w,
                    _ => true,
                })
                .cloned()
                .collect();
            v.push(plain(ops, w));
        }
        for i in 0..n {
            let mut ops = case.ops.clone();
            ops.remove(i);
            v.push(plain(ops, case.waiters));
        }
        for i in 0..n {
            if let Op::PollNewWaker(w) = case.ops[i] {
                let mut ops = case.ops.clone();
                ops[i] = Op::Poll(w);
                v.push(plain(ops, case.waiters));
            }
        }
        v
    }
}
