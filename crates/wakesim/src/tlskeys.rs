//! Key material for the key-availability protocols.
//!
//! `ArcKeys` / `ArcZeroRttKeys` take plain key objects, which `rustls::quic::Suite::keys` derives from a
//! connection id. `ArcOneRttKeys::set_keys` additionally wants a `rustls::quic::Secrets`, which only a TLS
//! handshake hands out: one in-memory rustls QUIC handshake is run once per process and its `Secrets`
//! (which is `Clone`) is reused by every run.
use std::sync::{Arc, OnceLock};

use rustls::{
    Side,
    pki_types::{CertificateDer, PrivateKeyDer, ServerName, UnixTime, pem::PemObject},
    quic::{self, KeyChange, Secrets, Version},
};

const CERT: &[u8] = include_bytes!("../../../certs/server.cert");
const KEY: &[u8] = include_bytes!("../../../certs/server.key");

fn suite() -> quic::Suite {
    rustls::crypto::ring::default_provider()
        .cipher_suites
        .iter()
        .find_map(|cs| match (cs.suite(), cs.tls13()) {
            (rustls::CipherSuite::TLS13_AES_128_GCM_SHA256, Some(s)) => s.quic_suite(),
            _ => None,
        })
        .expect("ring provides TLS13_AES_128_GCM_SHA256")
}

/// fresh long-header style keys (what `initial_keys_with` in qconnection/src/builder.rs does)
pub fn keys(side: Side) -> quic::Keys {
    suite().keys(b"wakesim-cid", side, Version::V1)
}

#[derive(Debug)]
struct AcceptAny(Arc<rustls::crypto::CryptoProvider>);

impl rustls::client::danger::ServerCertVerifier for AcceptAny {
    fn verify_server_cert(
        &self,
        _end_entity: &CertificateDer<'_>,
        _intermediates: &[CertificateDer<'_>],
        _server_name: &ServerName<'_>,
        _ocsp: &[u8],
        _now: UnixTime,
    ) -> Result<rustls::client::danger::ServerCertVerified, rustls::Error> {
        Ok(rustls::client::danger::ServerCertVerified::assertion())
    }
    fn verify_tls12_signature(
        &self,
        _m: &[u8],
        _c: &CertificateDer<'_>,
        _d: &rustls::DigitallySignedStruct,
    ) -> Result<rustls::client::danger::HandshakeSignatureValid, rustls::Error> {
        Ok(rustls::client::danger::HandshakeSignatureValid::assertion())
    }
    fn verify_tls13_signature(
        &self,
        _m: &[u8],
        _c: &CertificateDer<'_>,
        _d: &rustls::DigitallySignedStruct,
    ) -> Result<rustls::client::danger::HandshakeSignatureValid, rustls::Error> {
        Ok(rustls::client::danger::HandshakeSignatureValid::assertion())
    }
    fn supported_verify_schemes(&self) -> Vec<rustls::SignatureScheme> {
        self.0.signature_verification_algorithms.supported_schemes()
    }
}

fn handshake() -> Secrets {
    let provider = Arc::new(rustls::crypto::ring::default_provider());
    let certs: Vec<CertificateDer<'static>> = CertificateDer::pem_slice_iter(CERT).map(|c| c.expect("cert pem")).collect();
    let key = PrivateKeyDer::from_pem_slice(KEY).expect("key pem");
    let mut server_cfg = rustls::ServerConfig::builder_with_provider(provider.clone())
        .with_protocol_versions(&[&rustls::version::TLS13])
        .expect("tls13")
        .with_no_client_auth()
        .with_single_cert(certs, key)
        .expect("server cert");
    server_cfg.alpn_protocols = vec![b"w".to_vec()];
    let mut client_cfg = rustls::ClientConfig::builder_with_provider(provider.clone())
        .with_protocol_versions(&[&rustls::version::TLS13])
        .expect("tls13")
        .dangerous()
        .with_custom_certificate_verifier(Arc::new(AcceptAny(provider)))
        .with_no_client_auth();
    client_cfg.alpn_protocols = vec![b"w".to_vec()];
    let mut client = quic::ClientConnection::new(
        Arc::new(client_cfg),
        Version::V1,
        ServerName::try_from("localhost").unwrap(),
        vec![0u8; 4],
    )
    .expect("client connection");
    let mut server =
        quic::ServerConnection::new(Arc::new(server_cfg), Version::V1, vec![0u8; 4]).expect("server connection");
    let mut found = None;
    for _ in 0..16 {
        let mut buf = Vec::new();
        if let Some(KeyChange::OneRtt { next, .. }) = client.write_hs(&mut buf) {
            found = Some(next);
        }
        if !buf.is_empty() {
            server.read_hs(&buf).expect("server read_hs");
        }
        // drain every flight of one side before handing over (write_hs emits one epoch per call)
        loop {
            let mut more = Vec::new();
            match client.write_hs(&mut more) {
                Some(KeyChange::OneRtt { next, .. }) => found = Some(next),
                _ => {}
            }
            if more.is_empty() {
                break;
            }
            server.read_hs(&more).expect("server read_hs");
        }
        loop {
            let mut more = Vec::new();
            let kc = server.write_hs(&mut more);
            if let Some(KeyChange::OneRtt { next, .. }) = kc {
                if found.is_none() {
                    found = Some(next);
                }
            }
            if more.is_empty() {
                break;
            }
            client.read_hs(&more).expect("client read_hs");
        }
        if found.is_some() {
            break;
        }
    }
    found.expect("handshake produced 1-RTT secrets")
}

pub fn one_rtt_secrets() -> Secrets {
    static S: OnceLock<Secrets> = OnceLock::new();
    S.get_or_init(handshake).clone()
}
