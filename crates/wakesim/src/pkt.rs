//! A packet target for the real `Package::dump` / `try_load_*_into` calls: a bounded byte buffer that also
//! records which data-bearing frames were loaded (so the harness can later acknowledge or lose exactly
//! what the code under test decided to send).
use bytes::{
    BufMut,
    buf::{Limit, UninitSlice},
};
use qbase::{
    frame::{CryptoFrame, Frame, StreamFrame, io::SendFrame},
    packet::io::RecordFrame,
    util::ContinuousData,
};

pub struct Pkt {
    buf: Limit<Vec<u8>>,
    pub streams: Vec<StreamFrame>,
    pub cryptos: Vec<CryptoFrame>,
    pub frames: usize,
}

impl Pkt {
    pub fn new(cap: usize) -> Self {
        Pkt { buf: Vec::with_capacity(cap).limit(cap), streams: Vec::new(), cryptos: Vec::new(), frames: 0 }
    }
}

unsafe impl BufMut for Pkt {
    #[inline]
    fn remaining_mut(&self) -> usize {
        self.buf.remaining_mut()
    }
    #[inline]
    unsafe fn advance_mut(&mut self, cnt: usize) {
        unsafe { self.buf.advance_mut(cnt) }
    }
    #[inline]
    fn chunk_mut(&mut self) -> &mut UninitSlice {
        self.buf.chunk_mut()
    }
}

impl<D: ContinuousData> RecordFrame<Frame<D>, D> for Pkt {
    fn record_frame(&mut self, frame: &Frame<D>) {
        self.frames += 1;
        match frame {
            Frame::Stream(f, _) => self.streams.push(*f),
            Frame::Crypto(f, _) => self.cryptos.push(*f),
            _ => {}
        }
    }
}

/// A frame sink that forgets what it is given (stands in for "the frame will be sent to the peer").
#[derive(Clone, Debug, Default)]
pub struct Sink;

impl<T> SendFrame<T> for Sink {
    fn send_frame<I: IntoIterator<Item = T>>(&self, iter: I) {
        for _ in iter {}
    }
}
